#!/bin/sh
# try_seed.sh <seed dir> <prop> : apply patch to /repo, run the property's quick check, undo. prints result.
D=$(realpath $1); P=$2
cd /repo || exit 9
git apply --check "$D/patch.diff" || { echo "PATCH DOES NOT APPLY"; exit 9; }
git apply "$D/patch.diff"
cd /verif && ./check $P --tier quick | grep -v "^  construct\|^  expected" | cut -c1-400
echo "exit=$?"
cd /repo && git checkout -- . 
