#!/venv/bin/python
"""regenerate the generated blocks of DESIGN.md (between <!-- GEN:x --> and <!-- /GEN:x --> markers) from the rule modules,
the evidence files, known_findings.json, seeded/HISTORY.json and /repo's git log.  Run from /verif after tools/runall.sh."""
import importlib, json, os, re, subprocess, sys
sys.path.insert(0, '/verif')
def sh(c): return subprocess.run(c, shell=True, text=True, stdout=subprocess.PIPE).stdout
blocks = {}
# ---- per-property numbers
rows = ['| id | rule families (ids are `<id>-<FAMILY>.<rule>`) | obligations on today\'s tree | distinct rules | mutants in the self-test |', '|---|---|---|---|---|']
for f in sorted(os.listdir('/verif/sa/rules')):
    if not f.startswith('C'): continue
    p = f[:-3]; m = importlib.import_module('sa.rules.' + p); c = json.load(open('/verif/evidence/%s.json' % p))['coverage']
    fams = sorted({r.split('.')[0].replace(p + '-', '') for r in c['rules']})
    nb = sum(1 for x in m.MUTANTS if x.get('benign'))
    rows.append('| %s | %s | %d (%d discharged, %d known) | %d | %d%s |' % (p, ' '.join(fams), c['obligations'], c['discharged'], len(c['known_findings_reported']), len(c['rules']),
                len(m.MUTANTS), (' (%d behaviour-preserving, must stay silent)' % nb) if nb else ''))
blocks['NUMBERS'] = '\n'.join(rows)
# ---- findings
kf = json.load(open('/verif/known_findings.json'))['findings']
log = {l.split(' ', 1)[0]: l.split(' ', 1)[1] for l in sh("git -C /repo log --format='%h %s' f58c10f..HEAD").splitlines()}
out = ['**Repaired (`fix:` commits in /repo, oldest first; every one keeps the 3 874 pinned tests passing).**', '', '| commit | property | rule that reports it | what failed |', '|---|---|---|---|']
seen = set()
for h in reversed(list(log)):
    es = [e for e in kf if e.get('commit') == h]
    props = sorted({e['property'] for e in es}) or ['?']
    rules = sorted({e['rule'].split('.')[0] for e in es})
    what = log[h][5:] if log[h].startswith('fix: ') else log[h]
    out.append('| %s | %s | %s | %s |' % (h, ' '.join(props), ' '.join(rules), what))
out += ['', '**Known findings (genuine defects recorded, not repaired; the check prints `KNOWN-FINDING:` and exits 0).**', '', '| property | rule | what fails and why it is not repaired |', '|---|---|---|']
for e in kf:
    if e['status'] == 'known': out.append('| %s | %s | %s |' % (e['property'], e['rule'], e['what'].replace('|', '/')))
blocks['FINDINGS'] = '\n'.join(out)
# ---- seeds
hist = json.load(open('/verif/seeded/HISTORY.json'))
out = []
for rnd in sorted({v['round'] for v in hist.values()}):
    ks = sorted(k for k, v in hist.items() if v['round'] == rnd)
    if rnd == 1:
        out.append('* round 1: %d seeds.  Written by sub-agents while the rules were being built; %d of them caused a rule to be written or strengthened, so this round does not measure generalisation.'
                   % (len(ks), sum(1 for k in ks if hist[k]['rule_added'])))
    else:
        det = [k for k in ks if hist[k]['first_verdict'] == 'DETECTED']; mis = [k for k in ks if hist[k]['first_verdict'] == 'MISSED']
        out.append('* round %d: %d seeds against the rules as they stood: **%d detected at first try, %d missed**.  Missed, with the rule added afterwards: %s.'
                   % (rnd, len(ks), len(det), len(mis), '; '.join('%s → %s' % (k, hist[k]['rule_added']) for k in mis) or 'none'))
blocks['SEEDS'] = '\n'.join(out)
s = open('/verif/DESIGN.md').read()
for k, v in blocks.items():
    pat = re.compile(r'(<!-- GEN:%s -->\n).*?(\n<!-- /GEN:%s -->)' % (k, k), re.S)
    assert pat.search(s), 'marker %s missing' % k
    s = pat.sub(lambda m: m.group(1) + v + m.group(2), s)
open('/verif/DESIGN.md', 'w').write(s)
print('DESIGN.md blocks regenerated:', ', '.join(blocks))
