#!/usr/bin/env python3
"""Run the pinned test-suite of /repo and compare with /root/.vp/BASELINE.json stable_pass.
Usage: baseline.py [-n N]   (exit 0 iff every stable_pass test passed)"""
import json, os, subprocess, sys, tempfile, xml.etree.ElementTree as ET
def main():
    n = None
    if '-n' in sys.argv: n = sys.argv[sys.argv.index('-n')+1]
    base = json.load(open('/root/.vp/BASELINE.json'))
    fd, path = tempfile.mkstemp(suffix='.junit.xml'); os.close(fd)
    cmd = ['/venv/bin/python','-m','pytest','-q','-p','no:cacheprovider','--timeout=900',
           '--continue-on-collection-errors','--junitxml='+path]
    if n: cmd += ['-n', n]
    env = dict(os.environ); env.pop('PONYORM_PONY_VERIF', None)
    p = subprocess.run(cmd, cwd='/repo', env=env, stdout=subprocess.PIPE, stderr=subprocess.STDOUT, text=True)
    passed = set()
    for tc in ET.parse(path).getroot().iter('testcase'):
        if not any(ch.tag in ('failure','error','skipped') for ch in tc):
            passed.add('%s::%s' % (tc.get('classname'), tc.get('name')))
    os.unlink(path)
    want = set(base['stable_pass'])
    missing = sorted(want - passed)
    print('stable_pass=%d passed_now=%d missing=%d' % (len(want), len(passed), len(missing)))
    for m in missing[:40]: print('  MISSING', m)
    print(p.stdout.strip().splitlines()[-1] if p.stdout.strip() else '')
    return 1 if missing else 0
if __name__ == '__main__': sys.exit(main())
