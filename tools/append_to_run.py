#!/usr/bin/env python3
"""append_to_run.py <rule module> : insert the code read from stdin at the END of run(ctx) (before the next top-level statement)."""
import re, sys
p = sys.argv[1]; code = sys.stdin.read().rstrip('\n') + '\n'
s = open(p).read()
m = re.search(r'^def run\(ctx[^\n]*\n', s, re.M); assert m, 'no run()'
rest = s[m.end():]
n = re.search(r'^(?=[^\s#])', rest, re.M)   # next line starting at column 0
end = m.end() + (n.start() if n else len(rest))
body = s[:end].rstrip('\n') + '\n'
open(p, 'w').write(body + code + '\n\n' + s[end:])
