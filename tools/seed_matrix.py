#!/usr/bin/env python3
"""Apply every seeded change to /repo in turn, run the quick check of its property (and report which rules fire), undo.
Writes seeded/RESULTS.md.  /repo must be clean."""
import json, os, subprocess, sys
def sh(cmd, **kw): return subprocess.run(cmd, shell=True, text=True, stdout=subprocess.PIPE, stderr=subprocess.STDOUT, **kw)
assert not sh('git -C /repo status --short').stdout.strip(), '/repo is not clean'
rows = []
hist = json.load(open('/verif/seeded/HISTORY.json'))
only = sys.argv[1:]
for name in sorted(os.listdir('/verif/seeded')):
    d = '/verif/seeded/' + name
    if not os.path.isdir(d) or (only and name not in only): continue
    meta = json.load(open(d + '/meta.json'))
    prop = meta['property']
    r = sh('git -C /repo apply --check %s/patch.diff' % d)
    if r.returncode:
        rows.append((name, prop, 'PATCH-NO-LONGER-APPLIES', '', meta.get('summary', '')[:110])); print(name, prop, 'PATCH-NO-LONGER-APPLIES (rebase it)', flush=True); continue
    sh('git -C /repo apply %s/patch.diff' % d)
    try:
        r = sh('./check %s --tier quick' % prop, cwd='/verif')
        lines = r.stdout.splitlines()
        rules = sorted({l.split('rule=')[1].split(' at ')[0] for l in lines if l.strip().startswith('rule=')})
        verdict = 'DETECTED' if r.returncode == 1 else ('ANALYSIS-ERROR' if r.returncode == 2 else 'missed')
        if hist.get(name, {}).get('obsolete'):
            # a later fix: commit in /repo made this change harmless: its demo must pass with the patch applied, and the check must be silent
            dr = sh('PYTHONPATH=/repo /venv/bin/python %s/demo.py' % d)
            verdict = ('OBSOLETE-SILENT' if r.returncode == 0 else 'OBSOLETE-BUT-ALARM') if dr.returncode == 0 else verdict
    finally:
        sh('git -C /repo checkout -- .')
    rows.append((name, prop, verdict, ', '.join(rules), meta.get('summary', '')[:110]))
    print(name, prop, verdict, rules, flush=True)
with open('/verif/seeded/RESULTS.md' if not only else os.devnull, 'w') as f:      # a partial run (names given) does not replace the table
    f.write('# Seeded changes versus the checks\n\nEach row: a change to ponyorm/pony written by a fresh sub-agent that saw only the property text '
            '(confirmed: compiles, pinned suite passes, demo fails with it / passes without).  The verdict is what `./check <property> --tier quick` says with the patch applied to /repo '
            '(HEAD %s).  "first verdict" is what the checks said the first time the seed was tried (seeded/HISTORY.json, kept by hand): round 1 seeds were written '
            'while the rules were being built, so only rounds 2+ measure how the rules generalise; a MISSED seed led to the rule named in the last column.\n\n'
            '| seed | property | round | first verdict | verdict now | rules that fire now | rule added because of it | change |\n|---|---|---|---|---|---|---|---|\n' % sh('git -C /repo log --format=%h -1').stdout.strip())
    for row in rows:
        hh = hist.get(row[0], {})
        f.write('| %s | %s | %s | %s | %s | %s | %s | %s |\n' % tuple(str(x).replace('|', '/') for x in (row[0], row[1], hh.get('round', '?'), hh.get('first_verdict', '?'), row[2], row[3], hh.get('rule_added', ''), row[4])))
    for rnd in sorted({v['round'] for v in hist.values()}):
        ks = [k for k, v in hist.items() if v['round'] == rnd]
        if rnd > 1: f.write('\nRound %d: %d seeds, %d detected at first try, %d missed at first try.' % (rnd, len(ks), sum(1 for k in ks if hist[k]['first_verdict'] == 'DETECTED'), sum(1 for k in ks if hist[k]['first_verdict'] == 'MISSED')))
    f.write('\n')
    det = sum(1 for r in rows if r[2] == 'DETECTED')
    obs = [r[0] for r in rows if r[2].startswith('OBSOLETE')]
    f.write('\n%d of %d detected.\n' % (det, len(rows) - len(obs)))
    for o in obs: f.write('\n%s is no longer a breaking change (%s): its demo passes with the patch applied to the current tree, and the check is %s.\n' % (
        o, hist[o]['obsolete'], 'silent, as it must be' if [r for r in rows if r[0] == o][0][2] == 'OBSOLETE-SILENT' else 'NOT silent (false alarm)'))
sh('tools/runall.sh', cwd='/verif')   # evidence files must describe the clean tree again
print('%d of %d detected' % (sum(1 for r in rows if r[2] == 'DETECTED'), len([r for r in rows if not r[2].startswith('OBSOLETE')])))
