#!/usr/bin/env python3
"""Every seeded change is applied in its own scratch worktree of /repo (/tmp/sm/<name>, removed afterwards; 12 at a time), the quick check of its
property is run against that root (no evidence written) and the rules that fire are recorded.  Writes seeded/RESULTS.md (not when seed names are given)."""
import json, os, subprocess, sys
def sh(cmd, **kw): return subprocess.run(cmd, shell=True, text=True, stdout=subprocess.PIPE, stderr=subprocess.STDOUT, **kw)
rows = []
hist = json.load(open('/verif/seeded/HISTORY.json'))
only = sys.argv[1:]
PAR = '--serial' not in sys.argv
only = [a for a in only if not a.startswith('--')]
def one(name):
    """apply the seed in its own scratch worktree (/tmp/sm/<name>), run the quick check of its property against that root (no evidence written), remove it"""
    d = '/verif/seeded/' + name
    meta = json.load(open(d + '/meta.json')); prop = meta['property']
    wt = '/tmp/sm/' + name
    sh('git -C /repo worktree remove --force %s' % wt)
    if sh('git -C /repo worktree add -q --detach %s HEAD' % wt).returncode: return (name, prop, 'WORKTREE-FAILED', '', '')
    try:
        if sh('git -C %s apply %s/patch.diff' % (wt, d)).returncode:
            return (name, prop, 'PATCH-NO-LONGER-APPLIES', '', meta.get('summary', '')[:110])
        r = sh('./check %s --tier quick --root %s' % (prop, wt), cwd='/verif', env=dict(os.environ, VERIF_NO_EVIDENCE='1'))
        lines = r.stdout.splitlines()
        rules = sorted({l.split('rule=')[1].split(' at ')[0] for l in lines if l.strip().startswith('rule=')})
        verdict = 'DETECTED' if r.returncode == 1 else ('ANALYSIS-ERROR' if r.returncode == 2 else 'missed')
        if hist.get(name, {}).get('obsolete'):
            dr = sh('PYTHONPATH=%s /venv/bin/python %s/demo.py' % (wt, d))
            verdict = ('OBSOLETE-SILENT' if r.returncode == 0 else 'OBSOLETE-BUT-ALARM') if dr.returncode == 0 else verdict
        return (name, prop, verdict, ', '.join(rules), meta.get('summary', '')[:110])
    finally:
        sh('git -C /repo worktree remove --force %s' % wt)
names = [n for n in sorted(os.listdir('/verif/seeded')) if os.path.isdir('/verif/seeded/' + n) and (not only or n in only)]
os.makedirs('/tmp/sm', exist_ok=True)
from concurrent.futures import ThreadPoolExecutor
with ThreadPoolExecutor(max_workers=12 if PAR else 1) as ex:
    rows = list(ex.map(one, names))
for r_ in rows: print(r_[0], r_[1], r_[2] + (' (rebase it)' if r_[2].startswith('PATCH') else ''), r_[3].split(', ') if r_[3] else [], flush=True)
with open('/verif/seeded/RESULTS.md' if not only else os.devnull, 'w') as f:      # a partial run (names given) does not replace the table
    f.write('# Seeded changes versus the checks\n\nEach row: a change to ponyorm/pony written by a fresh sub-agent that saw only the property text '
            '(confirmed: compiles, pinned suite passes, demo fails with it / passes without).  The verdict is what `./check <property> --tier quick` says with the patch applied to /repo '
            '(HEAD %s).  "first verdict" is what the checks said the first time the seed was tried (seeded/HISTORY.json, kept by hand): round 1 seeds were written '
            'while the rules were being built, so only rounds 2+ measure how the rules generalise; a MISSED seed led to the rule named in the last column.\n\n'
            '| seed | property | round | first verdict | verdict now | rules that fire now | rule added because of it | change |\n|---|---|---|---|---|---|---|---|\n' % sh('git -C /repo log --format=%h -1').stdout.strip())
    for row in rows:
        hh = hist.get(row[0], {})
        f.write('| %s | %s | %s | %s | %s | %s | %s | %s |\n' % tuple(str(x).replace('|', '/') for x in (row[0], row[1], hh.get('round', '?'), hh.get('first_verdict', '?'), row[2], row[3], hh.get('rule_added', ''), row[4])))
    for rnd in sorted({v['round'] for v in hist.values()}):
        ks = [k for k, v in hist.items() if v['round'] == rnd]
        if rnd > 1: f.write('\nRound %d: %d seeds, %d detected at first try, %d missed at first try.' % (rnd, len(ks), sum(1 for k in ks if hist[k]['first_verdict'] == 'DETECTED'), sum(1 for k in ks if hist[k]['first_verdict'] == 'MISSED')))
    f.write('\n')
    det = sum(1 for r in rows if r[2] == 'DETECTED')
    obs = [r[0] for r in rows if r[2].startswith('OBSOLETE')]
    f.write('\n%d of %d detected.\n' % (det, len(rows) - len(obs)))
    for o in obs: f.write('\n%s is no longer a breaking change (%s): its demo passes with the patch applied to the current tree, and the check is %s.\n' % (
        o, hist[o]['obsolete'], 'silent, as it must be' if [r for r in rows if r[0] == o][0][2] == 'OBSOLETE-SILENT' else 'NOT silent (false alarm)'))
sh('tools/runall.sh', cwd='/verif')   # evidence files must describe the clean tree again
print('%d of %d detected' % (sum(1 for r in rows if r[2] == 'DETECTED'), len([r for r in rows if not r[2].startswith('OBSOLETE')])))
