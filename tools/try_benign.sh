#!/bin/sh
# try_benign.sh <name> <prop>...: apply benign/<name>/patch.diff to /repo, run the given quick checks (full output), undo
N=$1; shift
git -C /repo apply /verif/benign/$N/patch.diff || exit 9
cd /verif; for P in "$@"; do ./check $P | grep -v "^KNOWN-FINDING" | cut -c1-420; done
git -C /repo checkout -- .
