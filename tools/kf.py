#!/usr/bin/env python3
"""kf.py <property> <status known|fixed> <commit or -> <key> <what>  -- append an entry to known_findings.json (dev-time only)"""
import json, sys
prop, status, commit, key, what = sys.argv[1:6]
d = json.load(open('/verif/known_findings.json'))
e = {"property": prop, "rule": key.split('::')[0], "status": status, "key": key}
if commit != '-': e["commit"] = commit
e["what"] = ("fixed: property=%s %s %s" % (prop, commit, what)) if status == 'fixed' else what
d['findings'] = [x for x in d['findings'] if x['key'] != key] + [e]
json.dump(d, open('/verif/known_findings.json', 'w'), indent=1)
