#!/usr/bin/env python3
"""Parallel benign sweep: every behaviour-preserving patch under /verif/benign is applied in its own scratch worktree (/tmp/sw/<name>), every
quick check is run against that root (--root; no evidence is written), and the worktree is removed.  Prints the patches that are not silent."""
import glob, os, subprocess, sys
from concurrent.futures import ThreadPoolExecutor
def sh(cmd, **kw): return subprocess.run(cmd, shell=True, text=True, stdout=subprocess.PIPE, stderr=subprocess.STDOUT, **kw)
props = sorted(os.path.basename(f)[:-3] for f in glob.glob('/verif/sa/rules/C*.py'))
names = sorted(n for n in os.listdir('/verif/benign') if os.path.isdir('/verif/benign/' + n))
if len(sys.argv) > 1: names = [n for n in names if n in sys.argv[1:]]
os.makedirs('/tmp/sw', exist_ok=True)
def one(n):
    wt = '/tmp/sw/' + n
    sh('git -C /repo worktree remove --force %s' % wt)
    if sh('git -C /repo worktree add -q --detach %s HEAD' % wt).returncode: return n, 'WORKTREE FAILED'
    try:
        if sh('git -C %s apply /verif/benign/%s/patch.diff' % (wt, n)).returncode: return n, 'PATCH NO LONGER APPLIES'
        bad = []
        for p in props:
            r = sh('./check %s --root %s' % (p, wt), cwd='/verif', env=dict(os.environ, VERIF_NO_EVIDENCE='1'))
            if r.returncode != 0: bad.append('%s(exit %d)' % (p, r.returncode))
        return n, ' '.join(bad)
    finally:
        sh('git -C /repo worktree remove --force %s' % wt)
with ThreadPoolExecutor(max_workers=8) as ex:
    res = list(ex.map(one, names))
loud = [(n, r) for n, r in res if r]
for n, r in loud: print('%s: %s' % (n, r))
print('parallel benign sweep: %d patches, %d not silent' % (len(res), len(loud)))
sys.exit(1 if loud else 0)
