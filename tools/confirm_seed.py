#!/usr/bin/env python3
"""confirm_seed.py <seed-dir> <name>: confirm a seeded change in a fresh scratch worktree of /repo HEAD:
patch applies, pinned suite still passes (stable_pass), demo passes on clean tree and fails on patched tree.
On success copies patch.diff, demo.py, meta.json (augmented) to /verif/seeded/<name>/ and removes the worktree."""
import json, os, shutil, subprocess, sys, xml.etree.ElementTree as ET
sd, name = sys.argv[1], sys.argv[2]
wt = '/tmp/cw/' + name
def sh(cmd, **kw): return subprocess.run(cmd, shell=True, text=True, stdout=subprocess.PIPE, stderr=subprocess.STDOUT, **kw)
sh('git -C /repo worktree remove --force %s' % wt); os.makedirs('/tmp/cw', exist_ok=True)
r = sh('git -C /repo worktree add -q --detach %s HEAD' % wt); assert r.returncode == 0, r.stdout
res = {}
try:
    env = dict(os.environ, PYTHONPATH=wt)
    r = sh('/venv/bin/python %s/demo.py' % sd, cwd=wt, env=env); res['demo_clean_exit'] = r.returncode; res['demo_clean_tail'] = r.stdout.strip().splitlines()[-2:]
    r = sh('git apply %s/patch.diff' % sd, cwd=wt); res['apply'] = r.returncode
    if r.returncode: print(r.stdout)
    r = sh('/venv/bin/python -m compileall -q pony -x tests', cwd=wt); res['compiles'] = r.returncode == 0
    r = sh('/venv/bin/python %s/demo.py' % sd, cwd=wt, env=env); res['demo_patched_exit'] = r.returncode; res['demo_patched_tail'] = r.stdout.strip().splitlines()[-3:]
    junit = '/tmp/cw/%s.xml' % name
    r = sh('/venv/bin/python -m pytest -q -p no:cacheprovider --timeout=900 --continue-on-collection-errors -n 16 --junitxml=%s' % junit, cwd=wt, env=env)
    passed = set()
    for tc in ET.parse(junit).getroot().iter('testcase'):
        if not any(ch.tag in ('failure', 'error', 'skipped') for ch in tc): passed.add('%s::%s' % (tc.get('classname'), tc.get('name')))
    want = set(json.load(open('/root/.vp/BASELINE.json'))['stable_pass'])
    res['suite_missing'] = sorted(want - passed)[:10]; res['suite_tail'] = r.stdout.strip().splitlines()[-1]
    os.unlink(junit)
finally:
    sh('git -C /repo worktree remove --force %s' % wt)
ok = res.get('apply') == 0 and res.get('compiles') and res['demo_clean_exit'] == 0 and res['demo_patched_exit'] != 0 and not res['suite_missing']
print(json.dumps(res, indent=1)); print('CONFIRMED' if ok else 'NOT CONFIRMED')
if ok:
    dst = '/verif/seeded/' + name; os.makedirs(dst, exist_ok=True)
    for f in ('patch.diff', 'demo.py'): shutil.copy(os.path.join(sd, f), dst)
    meta = json.load(open(os.path.join(sd, 'meta.json')))
    meta['confirmed'] = {'how': 'tools/confirm_seed.py: fresh worktree of /repo HEAD; demo on clean tree exit 0; patch applied; '
                                'compileall ok; demo on patched tree exit != 0; pinned suite (-n 16) passes all 3874 stable tests',
                         'repo_head': sh('git -C /repo log --format=%h -1').stdout.strip(), 'result': res}
    json.dump(meta, open(os.path.join(dst, 'meta.json'), 'w'), indent=1)
sys.exit(0 if ok else 1)
