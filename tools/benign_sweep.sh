#!/bin/sh
# apply every benign patch in turn, run all quick checks, undo; print the patches that are not silent; then refresh the evidence on the clean tree
cd /verif
for d in benign/*/; do n=$(basename $d)
  git -C /repo apply /verif/benign/$n/patch.diff 2>/dev/null || { echo "$n: PATCH NO LONGER APPLIES"; continue; }
  r=$(tools/runall.sh | grep -v "exit=0 0 viol" | tr '\n' ';'); git -C /repo checkout -- .
  [ -n "$r" ] && echo "$n: $r"
done
tools/runall.sh | grep -v "exit=0 0 viol"
echo "benign sweep done (no lines above = every patch silent)"
