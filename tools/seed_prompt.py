#!/usr/bin/env python3
"""print the prompt for a seeding sub-agent: property text + scratch worktree only (nothing from /verif)."""
import json, sys
pid = sys.argv[1]; variant = sys.argv[2] if len(sys.argv) > 2 else ''
wt = '/tmp/wt/%s%s' % (pid, variant); out = '/tmp/seed/%s%s' % (pid, variant)
extra = ('- The statement has several sentences/clauses and the mechanism spans several functions (and often several files/dialects). Do NOT take the first, most obvious spot: '
         'survey the candidates first, then pick a less obvious one (a different clause of the statement, a secondary code path, a helper, an exception path, a sibling implementation).') if variant else ''
if variant >= 'c':
    extra += ('\n- To spread the choices: first write down AT LEAST TEN candidate spots (function + what you would change + which clause it breaks) in ' + out + '/candidates.md, '
              'covering at least three different files where the mechanism allows; then pick one with `python3 -c "import random; print(random.randrange(10))"` '
              '(re-draw if that candidate turns out not to be feasible). Prefer candidates outside the single most central function.')
if variant >= 'd':
    extra += ('\n- Do not simply delete a check, guard or call outright: prefer a change that alters a value, a condition, an ordering, a key, a default, '
              'or that moves a statement -- the kind of edit that still "looks complete" in review. Prefer a clause of the statement other than its first sentence.')
p = [json.loads(l) for l in open('/verif/properties.jsonl') if json.loads(l)['id'] == pid][0]
print(f"""You are helping to evaluate a verification tool. Your job: make ONE small, realistic change to the Python ORM "Pony" (ponyorm/pony) that BREAKS the property below, while the code still imports/compiles and the project's existing test suite still passes exactly as before.

PROPERTY ({pid}: {p['title']})
{p['statement']}
Quantifier: {p['quantifier']['text']}
Source files where the mechanism mostly lives: {', '.join(p['anchors']['files'])}

YOUR WORKSPACE
- A private git worktree of the repository: {wt}  (work ONLY there; never touch /repo or /verif, never read /verif).
- Run Python as: cd {wt} && PYTHONPATH={wt} /venv/bin/python ...   (PYTHONPATH is REQUIRED, otherwise the installed copy in /repo is imported; verify with `python -c "import pony; print(pony.__file__)"`).
- Existing test suite: cd {wt} && PYTHONPATH={wt} /venv/bin/python -m pytest -q -p no:cacheprovider -n 16 pony 2>&1 | tail -5
  On the unmodified tree this prints "2 failed, 3874 passed, 5 skipped ... 1 error" (those 2 failures + 1 error are pre-existing). After your change it must print exactly the same counts (same 3874 passing).
- Only SQLite (in-memory or temp file) is available; no network, no other DB servers, no flask/bottle installed.

WHAT KIND OF CHANGE
- A plausible bug a maintainer could introduce in a refactor/optimisation/"cleanup": 1-15 changed lines in pony/ (not in tests). It must look innocent.
- It must need something SPECIFIC to manifest: a particular multi-step sequence of operations, an unusual input/value, a fault or exception at a particular point, a particular interleaving of two threads/sessions, or two cooperating sites that each look fine alone. NOT something ordinary use (or the existing tests) would expose at once.
- It must really violate the property as stated (observable through Pony's public API), not just change internals.
- Prefer changing the core mechanism (not just an error message, not a test, not docs). Do not add new files to pony/.
{extra}

DELIVERABLES (write them into {out}/ ):
1. {out}/patch.diff  — output of `git -C {wt} diff` (unified diff, applies with `git apply` to the unmodified tree).
2. {out}/demo.py — a standalone script (uses in-memory or tempfile SQLite; run as `PYTHONPATH=<tree> /venv/bin/python demo.py`) that exits 0 and prints PASS on the UNMODIFIED tree and exits non-zero (assertion failure showing the property violation) on the PATCHED tree. Make it deterministic.
3. {out}/meta.json — {{"property": "{pid}", "summary": "<what the change does>", "needs": "<what specific sequence/input/fault/interleaving is needed to manifest>", "files": [...], "why_tests_pass": "<why the suite does not notice>"}}

PROCEDURE
1. Read the relevant code in {wt} to understand the mechanism.
2. Make the change; run the full suite (command above) and confirm identical counts. If any previously passing test fails, revise the change.
3. Write demo.py; verify: fails on patched tree; then save your change (`git -C {wt} diff > {out}/patch.diff`), revert it (`git -C {wt} checkout -- .`), verify the demo prints PASS and exits 0 on the clean tree, and re-apply (`git -C {wt} apply {out}/patch.diff`). Do NOT use `git stash` (the stash is shared between worktrees).
4. Write the three deliverables. Leave the worktree with your change applied.
Report back briefly: the diff, what is needed to manifest, and the exact outputs of the demo on both trees and of the test-suite tail.""")
