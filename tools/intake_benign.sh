#!/bin/sh
# intake_benign.sh <name>: apply /tmp/seed/<name>/patch.diff to a fresh worktree, run suite+demo, then apply to /repo and run ALL quick checks; any non-zero exit is a false alarm.
N=$1; cd /verif
WT=/tmp/cw/$N; git -C /repo worktree remove --force $WT 2>/dev/null; mkdir -p /tmp/cw; git -C /repo worktree add -q --detach $WT HEAD
( cd $WT && git apply /tmp/seed/$N/patch.diff && PYTHONPATH=$WT /venv/bin/python /tmp/seed/$N/demo.py | tail -1 && PYTHONPATH=$WT /venv/bin/python -m pytest -q -p no:cacheprovider -n 16 pony 2>&1 | tail -1 )
git -C /repo worktree remove --force $WT; git -C /repo worktree remove --force /tmp/wt/$N 2>/dev/null
mkdir -p benign/$N; cp /tmp/seed/$N/patch.diff /tmp/seed/$N/meta.json /tmp/seed/$N/demo.py benign/$N/
git -C /repo apply /verif/benign/$N/patch.diff || { echo "PATCH DOES NOT APPLY"; exit 1; }
tools/runall.sh | grep -v "exit=0 0 viol" | sed "s/^/  $N -> /"
git -C /repo checkout -- .
echo "$N done"
