#!/bin/sh
# intake.sh <name> [prop ...]: confirm /tmp/seed/<name> in a fresh worktree, remove the agent's worktree, try the seed against its property
# (and extra properties), and record the FIRST verdict in seeded/HISTORY.json (never overwritten).
N=$1; P=$(echo $N | cut -c1-3); shift
cd /verif
python3 tools/confirm_seed.py /tmp/seed/$N $N 2>&1 | tail -1
git -C /repo worktree remove --force /tmp/wt/$N 2>/dev/null
[ -d seeded/$N ] || exit 1
[ -f /tmp/seed/$N/candidates.md ] && cp /tmp/seed/$N/candidates.md seeded/$N/
D=$(tools/try_seed.sh seeded/$N $P | grep -c '^VIOLATION')
echo "$N vs $P: violations=$D"
for X in "$@"; do echo "$N vs $X: violations=$(tools/try_seed.sh seeded/$N $X | grep -c '^VIOLATION')"; done
python3 - "$N" "$D" <<'PY'
import json, sys
n, d = sys.argv[1], int(sys.argv[2])
h = json.load(open('/verif/seeded/HISTORY.json'))
if n not in h:
    h[n] = {'round': {'b': 2, 'c': 3, 'd': 4, 'e': 5, 'f': 6, 'g': 7}.get(n[3:4], 1), 'first_verdict': 'DETECTED' if d else 'MISSED', 'rule_added': ''}
    json.dump(h, open('/verif/seeded/HISTORY.json', 'w'), indent=1, sort_keys=True)
PY
