#!/bin/sh
# format-robustness test: rewrite every non-test module of /repo/pony with ast.unparse(ast.parse(src)) (all comments dropped, every statement
# re-laid-out), run every quick check, restore.  Every check must stay silent: rules key on the normalised AST, not on text or positions.
cd /repo || exit 9
[ -z "$(git status --short)" ] || { echo "/repo not clean"; exit 9; }
/venv/bin/python - <<'PY'
import ast, os
for root, dirs, files in os.walk('pony'):
    if 'tests' in root or 'thirdparty' in root: continue
    for f in files:
        if f.endswith('.py'):
            p = os.path.join(root, f); s = open(p).read()
            try: t = ast.parse(s)
            except SyntaxError: continue
            open(p, 'w').write(ast.unparse(t) + '\n')
PY
cd /verif && tools/runall.sh | grep -v "exit=0 0 viol"
git -C /repo checkout -- .
cd /verif && tools/runall.sh >/dev/null    # evidence must describe the real tree again
echo "reformat test done (no lines above = all checks silent)"
