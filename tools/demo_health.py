#!/usr/bin/env python3
"""Health check of the stored corpus against the current /repo HEAD (development aid; nothing here is a registered check):
  demos/*.py            pass (exit 0), the *_KNOWN.py ones fail (exit != 0) -- they show recorded, unrepaired findings
  seeded/<n>/demo.py    passes on the clean tree, fails with the seed applied (obsolete seeds: passes with it)
  benign/<n>/demo.py    passes on the clean tree and with the patch applied
Every patched run happens in a scratch worktree under /tmp/dh (removed afterwards)."""
import glob, json, os, subprocess, sys
from concurrent.futures import ThreadPoolExecutor
def sh(cmd, **kw): return subprocess.run(cmd, shell=True, text=True, stdout=subprocess.PIPE, stderr=subprocess.STDOUT, **kw)
hist = json.load(open('/verif/seeded/HISTORY.json'))
os.makedirs('/tmp/dh', exist_ok=True)
def run_demo(root, demo): return sh('PYTHONPATH=%s timeout 300 /venv/bin/python %s' % (root, demo)).returncode
def one(item):
    kind, name = item
    if kind == 'demo':
        rc = run_demo('/repo', name); known = name.endswith('_KNOWN.py') or '[KNOWN]' in open(name).read()    # two-part demos mark their unrepaired part with [KNOWN]
        return (name, '' if (rc != 0) == known else 'exit %d (%s expected)' % (rc, 'failure' if known else 'PASS'))
    d = '/verif/%s/%s' % (kind, name); wt = '/tmp/dh/%s_%s' % (kind, name)
    clean = run_demo('/repo', d + '/demo.py')
    sh('git -C /repo worktree remove --force %s' % wt)
    if sh('git -C /repo worktree add -q --detach %s HEAD' % wt).returncode: return (name, 'WORKTREE FAILED')
    try:
        if sh('git -C %s apply %s/patch.diff' % (wt, d)).returncode: return (name, 'PATCH NO LONGER APPLIES')
        patched = run_demo(wt, d + '/demo.py')
    finally: sh('git -C /repo worktree remove --force %s' % wt)
    if kind == 'benign': bad = clean != 0 or patched != 0
    elif hist.get(name, {}).get('obsolete'): bad = clean != 0 or patched != 0
    else: bad = clean != 0 or patched == 0
    return (name, '' if not bad else '%s: clean exit %d, patched exit %d' % (kind, clean, patched))
items = [('demo', f) for f in sorted(glob.glob('/verif/demos/*.py'))]
items += [('seeded', n) for n in sorted(os.listdir('/verif/seeded')) if os.path.isdir('/verif/seeded/' + n)]
items += [('benign', n) for n in sorted(os.listdir('/verif/benign')) if os.path.isdir('/verif/benign/' + n)]
with ThreadPoolExecutor(max_workers=12) as ex: res = list(ex.map(one, items))
bad = [(n, r) for n, r in res if r]
for n, r in bad: print(n, '->', r)
print('demo health: %d items, %d not as expected' % (len(res), len(bad)))
