#!/bin/sh
# run every claimed quick check; print one line per property
cd /verif
for f in sa/rules/C*.py; do p=$(basename $f .py); out=$(./check $p --tier ${1:-quick} 2>&1); code=$?; echo "$p exit=$code $(echo "$out" | grep -c '^VIOLATION') viol $(echo "$out" | grep -c '^KNOWN-FINDING') known $(echo "$out" | grep -c 'ANALYSIS-ERROR') err"; done
