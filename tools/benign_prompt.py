#!/usr/bin/env python3
"""prompt for a sub-agent that makes a BEHAVIOUR-PRESERVING change near the mechanism of a property (to test the checks for false alarms).
Only the property text and a scratch worktree are given -- nothing from /verif."""
import json, sys
pid = sys.argv[1]; variant = sys.argv[2] if len(sys.argv) > 2 else 'r'
wt = '/tmp/wt/%s%s' % (pid, variant); out = '/tmp/seed/%s%s' % (pid, variant)
p = [json.loads(l) for l in open('/verif/properties.jsonl') if json.loads(l)['id'] == pid][0]
print(f"""You are helping to evaluate a verification tool for the Python ORM "Pony" (ponyorm/pony). Your job: make a realistic, BEHAVIOUR-PRESERVING change (a refactoring / cleanup / small optimisation a maintainer might commit) to the code that implements the property below. The property must STILL HOLD after your change, for every input -- the point is to see whether the tool raises a false alarm on harmless edits.

PROPERTY ({pid}: {p['title']})
{p['statement']}
Source files where the mechanism mostly lives: {', '.join(p['anchors']['files'])}

YOUR WORKSPACE
- A private git worktree of the repository: {wt}  (work ONLY there; never touch /repo or /verif, never read /verif).
- Run Python as: cd {wt} && PYTHONPATH={wt} /venv/bin/python ...   (PYTHONPATH is REQUIRED).
- Test suite: cd {wt} && PYTHONPATH={wt} /venv/bin/python -m pytest -q -p no:cacheprovider -n 16 pony 2>&1 | tail -5
  Unmodified tree: "2 failed, 3874 passed, 5 skipped ... 1 error" (pre-existing). After your change: exactly the same counts.

WHAT KIND OF CHANGE
- 5-40 changed lines in pony/ (not tests), touching the functions that actually implement the property (read the code first and pick 2-4 of them): e.g. rename local variables, extract a small helper function or inline one, reorder independent statements, replace an if/else by an equivalent early return (or the reverse), replace a loop by an equivalent comprehension, hoist a repeated expression into a local, rewrite a condition into an equivalent form (De Morgan, `x is not None` <-> `not (x is None)`), switch between `d.get(k)` + test and `try: d[k]`, merge or split nested ifs CORRECTLY, move code between a method and a private helper, reformat long statements, add comments/assertions that cannot fail.
- It must be semantically equivalent on every path, including exception paths and ordering of side effects that matter. Do not change public behaviour, error types or messages.
- Spread the edits: at least three separate hunks, in at least two functions.

DELIVERABLES (write them into {out}/ ):
1. {out}/patch.diff  — `git -C {wt} diff`.
2. {out}/meta.json — {{"property": "{pid}", "kind": "benign", "summary": "<what you changed>", "why_equivalent": "<argument, hunk by hunk, that behaviour is unchanged>", "files": [...]}}
3. {out}/demo.py — a standalone script (SQLite in memory or temp file) exercising the touched code paths that prints PASS and exits 0 on BOTH the unmodified and the changed tree.

PROCEDURE: read the code; make the change; run the full suite (identical counts); write demo.py and run it on both trees (save the diff, `git -C {wt} checkout -- .`, run, `git -C {wt} apply {out}/patch.diff`; do NOT use git stash); write the deliverables; leave the change applied.
Report back briefly: the diff, the equivalence argument, the demo outputs on both trees and the test-suite tail.""")
