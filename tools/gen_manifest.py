#!/usr/bin/env python3
"""Regenerate /verif/MANIFEST.json from the rule modules present in sa/rules (dev-time tool)."""
import json, os, sys, importlib
V = '/verif'; sys.path.insert(0, V)
NA = {
 'C02': "equality of results across engines is a property of PostgreSQL/MySQL/SQLite evaluating the generated text; no server is available and no structural clause distinguishes dialect builders beyond what C01 and C06 decide",
 'C09': "quantifies over histories of sessions: the writes emitted depend on status/write bits and queue contents accumulated at run time; no path-local shape implies it (its undo, ordering and hook sub-claims are decided under C13/C16/C33)",
 'C12': "two-ended consistency after arbitrary operation sequences is an inductive invariant over heap state; a per-function pairing rule was considered and rejected as too idiom-dependent to be alarm-free",
 'C23': "equivalence of observations under different loading strategies is a relational property of two executions, not visible in the shape of the code",
 'C27': "class refinement depends on load order and discriminator values; the only structural candidate (discriminator criteria at every join) has legitimate exceptions that cannot be told apart statically",
}
ids = [json.loads(l)['id'] for l in open(V + '/properties.jsonl')]
checks, na, served = [], [], []
for pid in ids:
    path = '%s/sa/rules/%s.py' % (V, pid)
    if not os.path.exists(path):
        na.append({'property_id': pid, 'reason': NA.get(pid, 'static rule not built yet (see DESIGN.md section 4); not claimed')})
        continue
    mod = importlib.import_module('sa.rules.' + pid)
    served.append(pid)
    expl = ' '.join(mod.EXPLANATION.split())
    checks.append({
        'property_id': pid,
        'quick_cmd': './check %s --tier quick' % pid,
        'thorough_cmd': './check %s --tier thorough' % pid,
        'evidence_file': '/verif/evidence/%s.json' % pid,
        'replay_cmd_template': './check %s --replay {path}' % pid,
        'engine': 'sa',
        'level_claimed': {'category': 'other',
                          'text': 'Static analysis of /repo source on every run (no pony code executed). Decides structural necessary '
                                  'conditions of the property on all paths / call sites / table entries, not the behaviour itself. ' + expl[:1500],
                          'design_ref': 'DESIGN.md section 4, ' + pid},
        'level_note': 'Trusted: CPython ast parser; sa/loader.py (imports, MRO), sa/cfg.py (CFG with exception edges), sa/callgraph.py '
                      '(role-name receiver typing table); the exception tables in sa/rules/%s.py (printed in evidence). Not decided: %s'
                      % (pid, getattr(mod, 'NOT_DECIDED', '')),
        'technique': getattr(mod, 'TECHNIQUE', 'repo-specific AST/CFG rules: dominance, must-pass-through, sibling agreement, exhaustiveness tables'),
    })
m = {'version': 1,
     'setup_cmd': 'true',
     'hooks': {'guard': 'PONYORM_PONY_VERIF', 'enable': 'none needed: the checks are static and execute no repository code; no hook commits exist',
               'baseline_off_cmd': 'cd /repo && /venv/bin/python -m pytest -ra -q -p no:cacheprovider --timeout=900 --continue-on-collection-errors',
               'source_commits': [], 'add_only': True},
     'engines': [{'name': 'sa', 'path': '/verif/sa', 'serves_properties': served,
                  'kind_free_text': 'static analysis: stdlib ast + own CFG/dominance/dataflow/call graph; rules per property in sa/rules; '
                                    'thorough tier adds mutation self-validation of each rule on in-memory overlays of the current tree'}],
     'checks': checks,
     'notes': 'exit 0 = all obligations discharged (KNOWN-FINDING lines allowed), 1 = VIOLATION, 2 = ANALYSIS-ERROR (checker cannot analyse: '
              'vanished anchor, instance floor not reached, unknown idiom). fix: commits in /repo are listed in known_findings.json (status fixed).',
     'not_applicable': na}
json.dump(m, open(V + '/MANIFEST.json', 'w'), indent=1)
print('claimed', len(checks), 'n/a', len(na))
