"""Source loader for the static analyses: parses the pony package, builds module / class / function
tables, import resolution and C3 MRO.  Nothing from the analysed package is imported or executed."""
import ast, hashlib, os, sys

EXCLUDE_FROM_RULES = ('pony/orm/tests/', 'pony/thirdparty/', 'pony/orm/examples/', 'pony/utils/docstring')


class AnalysisError(Exception):
    """The checker cannot analyse the tree (vanished anchor, unknown idiom, floor not reached).
    Always exit code 2, never a VIOLATION."""


class Mod:
    def __init__(self, name, path, rel, src, tree):
        self.name, self.path, self.rel, self.src, self.tree = name, path, rel, src, tree
        self.lines = src.splitlines()
        self.imports = {}      # local name -> ('module', modname) | ('attr', modname, attr)
        self.star = []         # modules imported with *
        self.toplevel = {}     # name -> ast node (FunctionDef / ClassDef / Assign target)
        self.in_rules = not any(rel.startswith(e) for e in EXCLUDE_FROM_RULES)

    def seg(self, node):
        return ast.get_source_segment(self.src, node)


class Cls:
    def __init__(self, mod, node, qual, outer=None):
        self.mod, self.node, self.qual, self.outer = mod, node, qual, outer
        self.name = node.name
        self.full = mod.name + '.' + qual
        self.methods = {}      # name -> Fn   (own methods only)
        self.attrs = {}        # class-level assignments name -> value node
        self.bases = []        # resolved: Cls or ('ext', dotted)
        self._mro = None

    def __repr__(self): return '<Cls %s>' % self.full


class Fn:
    def __init__(self, mod, node, qual, cls=None, parent=None):
        self.mod, self.node, self.qual, self.cls, self.parent = mod, node, qual, cls, parent
        self.name = node.name
        self.full = mod.name + '.' + qual
        self.nested = {}       # name -> Fn
        a = node.args
        self.params = [x.arg for x in a.posonlyargs + a.args]
        self.kwonly = [x.arg for x in a.kwonlyargs]
        self.vararg = a.vararg.arg if a.vararg else None
        self.kwarg = a.kwarg.arg if a.kwarg else None
        self.decorators = [unparse(d) for d in node.decorator_list]

    @property
    def is_method(self): return self.cls is not None and self.parent is None
    @property
    def is_static(self): return any(d in ('staticmethod',) for d in self.decorators)
    @property
    def is_classmethod(self): return any(d in ('classmethod',) for d in self.decorators)
    @property
    def recv(self):
        """name of the receiver parameter (pony names it by role: cache/obj/attr/entity/...)"""
        if self.cls is None or self.parent is not None or self.is_static or not self.params: return None
        return self.params[0]
    @property
    def rel(self): return self.mod.rel
    @property
    def loc(self): return '%s:%d' % (self.mod.rel, self.node.lineno)
    def at(self, node): return '%s:%d' % (self.mod.rel, getattr(node, 'lineno', self.node.lineno))
    def __repr__(self): return '<Fn %s>' % self.full


def unparse(node):
    if node is None: return 'None'
    if isinstance(node, list): return '; '.join(unparse(n) for n in node)
    try: return ast.unparse(node)
    except Exception: return ast.dump(node)


def norm(node, limit=160):
    """normalised one-line text of a construct (keys of findings use this, not line numbers)"""
    s = ' '.join(unparse(node).split())
    return s if len(s) <= limit else s[:limit] + '...'


def head(node, limit=160):
    """normalised text of a statement's head only (bodies of compound statements dropped)"""
    if isinstance(node, (ast.If, ast.While)): s = '%s %s:' % (type(node).__name__.lower(), unparse(node.test))
    elif isinstance(node, (ast.For, ast.AsyncFor)): s = 'for %s in %s:' % (unparse(node.target), unparse(node.iter))
    elif isinstance(node, (ast.With, ast.AsyncWith)): s = 'with %s:' % ', '.join(unparse(i) for i in node.items)
    elif isinstance(node, ast.Try): s = 'try:'
    elif isinstance(node, (ast.FunctionDef, ast.AsyncFunctionDef)): s = 'def %s(...)' % node.name
    elif isinstance(node, ast.ClassDef): s = 'class %s' % node.name
    elif isinstance(node, ast.ExceptHandler): s = 'except %s:' % unparse(node.type)
    else: s = unparse(node)
    s = ' '.join(s.split())
    return s if len(s) <= limit else s[:limit] + '...'


class Repo:
    def __init__(self, root=None, pkg='pony', overlay=None, base=None):
        self.root = os.path.abspath(root or os.environ.get('PONY_SA_ROOT') or '/repo')
        self.pkg = pkg
        self.overlay = overlay or {}      # rel path -> replacement source text (self-test mutants; nothing is written)
        self.modules, self.classes, self.funcs = {}, {}, {}
        self.by_rel = {}
        self.consulted = set()
        self.parse_errors = []
        self._base = base                 # Repo of the same root: unmodified files reuse its parsed trees
        self.skipped_files = 0
        self._load()
        self._resolve_imports()
        self._resolve_bases()
        self._subs = None

    # ------------------------------------------------------------------ loading
    def _load(self):
        pkgdir = os.path.join(self.root, self.pkg)
        if not os.path.isdir(pkgdir): raise AnalysisError('package directory %s not found' % pkgdir)
        for dp, dns, fns in os.walk(pkgdir):
            dns.sort()
            for fn in sorted(fns):
                if not fn.endswith('.py'): continue
                path = os.path.join(dp, fn)
                rel = os.path.relpath(path, self.root)
                parts = rel[:-3].split(os.sep)
                if parts[-1] == '__init__': parts = parts[:-1]
                name = '.'.join(parts)
                if any(rel.startswith(x) for x in EXCLUDE_FROM_RULES):
                    self.skipped_files += 1; continue       # tests / vendored code: not subject to any rule
                try:
                    if rel in self.overlay: src = self.overlay[rel]; tree = ast.parse(src, filename=path)
                    elif self._base is not None and rel in self._base.by_rel:
                        src, tree = self._base.by_rel[rel].src, self._base.by_rel[rel].tree
                    else:
                        with open(path, encoding='utf-8') as f: src = f.read()
                        tree = ast.parse(src, filename=path)
                except (SyntaxError, UnicodeDecodeError) as e:
                    self.parse_errors.append((rel, str(e)))
                    if not any(rel.startswith(x) for x in EXCLUDE_FROM_RULES):
                        raise AnalysisError('cannot parse %s: %s' % (rel, e))
                    continue
                if os.environ.get('PONY_SA_RAW') != '1':
                    from .normalise import normalise_module
                    tree = normalise_module(name, tree)
                mod = Mod(name, path, rel, src, tree)
                mod.is_pkg = fn == '__init__.py'
                self.modules[name] = mod
                self.by_rel[rel] = mod
                self._index(mod)

    def _index(self, mod):
        def visit_body(body, prefix, cls, parent):
            for st in body:
                if isinstance(st, (ast.FunctionDef, ast.AsyncFunctionDef)):
                    qual = prefix + st.name
                    fn = Fn(mod, st, qual, cls=cls, parent=parent)
                    # later definitions with the same name win (as at run time)
                    self.funcs[mod.name + '.' + qual] = fn
                    if parent is not None: parent.nested[st.name] = fn
                    elif cls is not None: cls.methods[st.name] = fn
                    else: mod.toplevel[st.name] = st
                    visit_fn(fn)
                elif isinstance(st, ast.ClassDef):
                    qual = prefix + st.name
                    c = Cls(mod, st, qual, outer=cls)
                    self.classes[mod.name + '.' + qual] = c
                    if cls is None and parent is None: mod.toplevel[st.name] = st
                    visit_body(st.body, qual + '.', c, None)
                elif isinstance(st, (ast.Assign, ast.AnnAssign)):
                    tgts = st.targets if isinstance(st, ast.Assign) else [st.target]
                    for t in tgts:
                        for n in ast.walk(t):
                            if isinstance(n, ast.Name):
                                if cls is not None and parent is None: cls.attrs[n.id] = st.value
                                elif cls is None and parent is None: mod.toplevel[n.id] = st
                elif isinstance(st, (ast.If, ast.Try, ast.With, ast.For, ast.While)):
                    for fld in ('body', 'orelse', 'finalbody'):
                        visit_body(getattr(st, fld, []) or [], prefix, cls, parent)
                    for h in getattr(st, 'handlers', []) or []:
                        visit_body(h.body, prefix, cls, parent)
        def visit_fn(fn):
            def rec(body):
                for st in body:
                    if isinstance(st, (ast.FunctionDef, ast.AsyncFunctionDef)):
                        qual = fn.qual + '.<locals>.' + st.name
                        sub = Fn(mod, st, qual, cls=fn.cls, parent=fn)
                        self.funcs[mod.name + '.' + qual] = sub
                        fn.nested[st.name] = sub
                        visit_fn(sub)
                    elif isinstance(st, ast.ClassDef):
                        qual = fn.qual + '.<locals>.' + st.name
                        c = Cls(mod, st, qual)
                        self.classes[mod.name + '.' + qual] = c
                        visit_body(st.body, qual + '.', c, None)
                    else:
                        for fld in ('body', 'orelse', 'finalbody'):
                            sub = getattr(st, fld, None)
                            if isinstance(sub, list): rec(sub)
                        for h in getattr(st, 'handlers', []) or []: rec(h.body)
            rec(fn.node.body)
        visit_body(mod.tree.body, '', None, None)

    def _resolve_imports(self):
        for mod in self.modules.values():
            base_pkg = mod.name if mod.is_pkg else mod.name.rpartition('.')[0]
            for node in ast.walk(mod.tree):
                if isinstance(node, ast.Import):
                    for a in node.names:
                        if a.asname: mod.imports[a.asname] = ('module', a.name)
                        else: mod.imports[a.name.split('.')[0]] = ('module', a.name.split('.')[0])
                elif isinstance(node, ast.ImportFrom):
                    src = node.module or ''
                    if node.level:
                        parts = base_pkg.split('.')
                        parts = parts[:len(parts) - (node.level - 1)]
                        src = '.'.join(parts + ([src] if src else []))
                    for a in node.names:
                        if a.name == '*': mod.star.append(src); continue
                        local = a.asname or a.name
                        if src + '.' + a.name in self.modules: mod.imports[local] = ('module', src + '.' + a.name)
                        else: mod.imports[local] = ('attr', src, a.name)

    def resolve_name(self, mod, name, _seen=None):
        """-> ('func', Fn) | ('class', Cls) | ('module', modname) | ('var', Mod, node) | ('ext', dotted) | None"""
        _seen = _seen or set()
        if (mod.name, name) in _seen: return None
        _seen.add((mod.name, name))
        if name in mod.toplevel:
            node = mod.toplevel[name]
            if isinstance(node, (ast.FunctionDef, ast.AsyncFunctionDef)): return ('func', self.funcs[mod.name + '.' + name])
            if isinstance(node, ast.ClassDef): return ('class', self.classes[mod.name + '.' + name])
            return ('var', mod, node)
        if name in mod.imports:
            imp = mod.imports[name]
            if imp[0] == 'module':
                return ('module', imp[1]) if imp[1] in self.modules else ('ext', imp[1])
            _, src, attr = imp
            if src in self.modules: return self.resolve_name(self.modules[src], attr, _seen) or ('ext', src + '.' + attr)
            return ('ext', src + '.' + attr)
        for s in mod.star:
            if s in self.modules:
                r = self.resolve_name(self.modules[s], name, _seen)
                if r is not None: return r
        return None

    def _resolve_bases(self):
        for c in self.classes.values():
            for b in c.node.bases:
                r = None
                if isinstance(b, ast.Name):
                    r = self.resolve_name(c.mod, b.id)
                    if r is None and c.outer is None:
                        # class nested in function / class: try sibling lookup
                        pass
                elif isinstance(b, ast.Attribute) and isinstance(b.value, ast.Name):
                    m = self.resolve_name(c.mod, b.value.id)
                    if m and m[0] == 'module' and m[1] in self.modules:
                        r = self.resolve_name(self.modules[m[1]], b.attr)
                    elif m and m[0] in ('ext', 'module'): r = ('ext', m[1] + '.' + b.attr)
                if r and r[0] == 'class': c.bases.append(r[1])
                else: c.bases.append(('ext', unparse(b)))

    # ------------------------------------------------------------------ queries
    def mod(self, name):
        if name not in self.modules: raise AnalysisError('anchor module %s not found' % name)
        self.consulted.add(name)
        return self.modules[name]

    def cls(self, modname, qual):
        self.mod(modname)
        c = self.classes.get(modname + '.' + qual)
        if c is None: raise AnalysisError('anchor class %s.%s not found' % (modname, qual))
        return c

    def fn(self, modname, qual):
        self.mod(modname)
        f = self.funcs.get(modname + '.' + qual)
        if f is None: raise AnalysisError('anchor function %s.%s not found' % (modname, qual))
        return f

    def fn_opt(self, modname, qual):
        return self.funcs.get(modname + '.' + qual)

    def mro(self, c):
        if c._mro is not None: return c._mro
        seqs = []
        for b in c.bases:
            if isinstance(b, Cls): seqs.append(list(self.mro(b)))
        seqs.append([b for b in c.bases if isinstance(b, Cls)])
        res = [c]
        seqs = [s for s in seqs if s]
        while seqs:
            for s in seqs:
                cand = s[0]
                if not any(cand in t[1:] for t in seqs): break
            else:
                raise AnalysisError('inconsistent MRO for %s' % c.full)
            res.append(cand)
            seqs = [[x for x in s if x is not cand] for s in seqs]
            seqs = [s for s in seqs if s]
        c._mro = res
        return res

    def ext_bases(self, c):
        out = []
        for k in self.mro(c):
            out += [b[1] for b in k.bases if not isinstance(b, Cls)]
        return out

    def lookup(self, c, name):
        """method `name` as seen from class c (MRO order) -> Fn or None"""
        for k in self.mro(c):
            if name in k.methods: return k.methods[name]
        return None

    def lookup_attr(self, c, name):
        for k in self.mro(c):
            if name in k.attrs: return k, k.attrs[name]
        return None, None

    def subclasses(self, c, strict=False):
        if self._subs is None:
            self._subs = {}
            for k in self.classes.values():
                for a in self.mro(k)[1:]:
                    self._subs.setdefault(a.full, []).append(k)
        out = list(self._subs.get(c.full, []))
        return out if strict else [c] + out

    def dispatch(self, c, name):
        """all functions a call recv.name() may reach when recv is an instance of c or a subclass"""
        out = []
        for k in self.subclasses(c):
            f = self.lookup(k, name)
            if f is not None and f not in out: out.append(f)
        return out

    def rule_modules(self):
        return [m for m in self.modules.values() if m.in_rules]

    def rule_funcs(self):
        # new private helpers whose every call was inlined into the callers (sa/normalise.py) are transparent: rules see their statements
        # in the callers, not a separate function
        return [f for f in self.funcs.values() if f.mod.in_rules and not (f.parent is None and f.name in getattr(f.mod.tree, '_sa_inlined_helpers', ()))]

    def digest(self, modnames=None):
        h = hashlib.sha256()
        for n in sorted(modnames or self.consulted):
            if n in self.modules: h.update(n.encode()); h.update(self.modules[n].src.encode())
        return h.hexdigest()[:16]

    def stats(self):
        rm = self.rule_modules()
        return {'files_parsed': len(self.modules), 'files_skipped_tests_vendored': self.skipped_files, 'files_in_rules': len(rm),
                'classes': sum(1 for c in self.classes.values() if c.mod.in_rules),
                'functions': len(self.rule_funcs())}


# ---------------------------------------------------------------------- AST helpers
def chain(node):
    """a.b.c -> ['a','b','c'];  a.b().c -> None;  name -> ['name']"""
    out = []
    while isinstance(node, ast.Attribute):
        out.append(node.attr); node = node.value
    if isinstance(node, ast.Name):
        out.append(node.id); return out[::-1]
    return None


def dotted(node):
    c = chain(node)
    return '.'.join(c) if c else None


def call_name(call):
    """dotted callee name of a Call or None"""
    return dotted(call.func) if isinstance(call, ast.Call) else None


def callee_attr(call):
    """last component of callee: f() -> 'f';  x.y.f() -> 'f';  g()() -> None"""
    f = call.func
    if isinstance(f, ast.Name): return f.id
    if isinstance(f, ast.Attribute): return f.attr
    return None


def walk_no_nested(node, include_self=True):
    """ast.walk that does not descend into nested function / class / lambda definitions"""
    stack = [node]
    first = True
    while stack:
        n = stack.pop()
        if not first and isinstance(n, (ast.FunctionDef, ast.AsyncFunctionDef, ast.ClassDef, ast.Lambda)):
            continue
        if include_self or not first: yield n
        first = False
        stack.extend(reversed(list(ast.iter_child_nodes(n))))


def calls_in(node, nested=False):
    it = ast.walk(node) if nested else walk_no_nested(node)
    return [n for n in it if isinstance(n, ast.Call)]


def names_in(node):
    return {n.id for n in ast.walk(node) if isinstance(n, ast.Name)}


def parents(root):
    pm = {}
    for n in ast.walk(root):
        for ch in ast.iter_child_nodes(n): pm[ch] = n
    return pm


def stmts_of(fn_node, nested=False):
    """all statements in a function body in source order (not descending into nested defs unless asked)"""
    out = []
    def rec(body):
        for st in body:
            out.append(st)
            if isinstance(st, (ast.FunctionDef, ast.AsyncFunctionDef, ast.ClassDef)):
                if nested: rec(st.body)
                continue
            for fld in ('body', 'orelse', 'finalbody'):
                sub = getattr(st, fld, None)
                if isinstance(sub, list): rec(sub)
            for h in getattr(st, 'handlers', []) or []: rec(h.body)
            for c in getattr(st, 'cases', []) or []: rec(c.body)
    rec(fn_node.body)
    return out


def const(node):
    return node.value if isinstance(node, ast.Constant) else None
