"""Shared AST / CFG query helpers used by the rule modules."""
import ast
from .loader import chain, dotted, call_name, callee_attr, walk_no_nested, parents, norm, head, unparse, AnalysisError


def is_call_to(call, recv, meth):
    """call is `recv.meth(...)` (recv: name, dotted string, or None = any receiver)"""
    if not isinstance(call, ast.Call) or not isinstance(call.func, ast.Attribute): return False
    if call.func.attr != meth: return False
    return recv is None or dotted(call.func.value) == recv


def nodes_calling(g, pred):
    """CFG nodes that evaluate a call satisfying pred(call)"""
    return [n for n in g.nodes if n.ast is not None and any(pred(c) for c in n.calls())]


def nodes_with(g, pred):
    return [n for n in g.nodes if n.ast is not None and any(pred(x) for x in n.walk())]


def classify_attr_uses(fn_node, attrname):
    """every `X.<attrname>` in the function -> list of (node, recv dotted, kind, outer node)
    kind: init (rebinding the attribute), clear (.clear()), fill (X.attr[k] = v / setdefault / update),
          del (del X.attr[k] / pop), read (everything else)"""
    pm = parents(fn_node)
    out = []
    for n in walk_no_nested(fn_node):
        if isinstance(n, ast.Attribute) and n.attr == attrname:
            par = pm.get(n); gp = pm.get(par) if par is not None else None
            kind = 'read'; outer = n
            if isinstance(n.ctx, (ast.Store, ast.Del)): kind = 'init'
            elif isinstance(par, ast.Attribute) and isinstance(gp, ast.Call) and gp.func is par:
                outer = gp
                if par.attr == 'clear': kind = 'clear'
                elif par.attr in ('setdefault', 'update', '__setitem__'): kind = 'fill'
                elif par.attr in ('pop', 'popitem', '__delitem__'): kind = 'del'
                else: kind = 'read'
            elif isinstance(par, ast.Subscript) and par.value is n:
                outer = par
                if isinstance(par.ctx, ast.Store): kind = 'fill'
                elif isinstance(par.ctx, ast.Del): kind = 'del'
            out.append((n, dotted(n.value), kind, outer))
    return out


def cfg_node_of(g, astnode, fn_node=None):
    """CFG nodes whose evaluated parts contain astnode"""
    res = []
    for n in g.nodes:
        if n.ast is None: continue
        for x in n.walk():
            if x is astnode: res.append(n); break
    return res


def stmt_assigns(st):
    """names (dotted) assigned by a simple statement"""
    out = []
    tgts = []
    if isinstance(st, ast.Assign): tgts = st.targets
    elif isinstance(st, (ast.AugAssign, ast.AnnAssign)): tgts = [st.target]
    elif isinstance(st, (ast.For, ast.AsyncFor)): tgts = [st.target]
    for t in tgts:
        for n in ast.walk(t):
            if isinstance(n, (ast.Name, ast.Attribute)) and isinstance(n.ctx, ast.Store):
                d = dotted(n)
                if d: out.append(d)
    return out


def ends_in_raise(g, body_entry_nodes):
    pass


def all_paths_raise(cg, fn):
    g = cg.cfg(fn)
    return g.exit.id not in g.reachable_nodes()


def is_throw_call(call, names=('throw',)):
    return isinstance(call, ast.Call) and isinstance(call.func, ast.Name) and call.func.id in names


def test_mentions(test, dotted_name):
    return any(dotted(n) == dotted_name for n in ast.walk(test) if isinstance(n, (ast.Attribute, ast.Name)))


def alias_map(fn_node):
    """local names that are plain aliases of an attribute read or another name: assigned exactly once in the function, from an expression
    without calls (`min_val = converter.min_val`, `py_check = attr.py_check`) -> {name: dotted source}"""
    import ast as _ast
    from .loader import dotted as _dotted
    defs = {}
    for st in _ast.walk(fn_node):
        if isinstance(st, _ast.Assign):
            for t in st.targets:
                if isinstance(t, _ast.Name): defs.setdefault(t.id, []).append(st.value)
                else:
                    for x in _ast.walk(t):
                        if isinstance(x, _ast.Name) and isinstance(x.ctx, _ast.Store): defs.setdefault(x.id, []).append(None)
        elif isinstance(st, (_ast.AugAssign, _ast.AnnAssign)) and isinstance(st.target, _ast.Name): defs.setdefault(st.target.id, []).append(None)
        elif isinstance(st, (_ast.For, _ast.AsyncFor, _ast.comprehension)):
            for x in _ast.walk(st.target):
                if isinstance(x, _ast.Name): defs.setdefault(x.id, []).append(None)
    out = {}
    for n, vs in defs.items():
        if len(vs) == 1 and vs[0] is not None and isinstance(vs[0], (_ast.Attribute, _ast.Name)) and _dotted(vs[0]): out[n] = _dotted(vs[0])
    return out


def deref(fn_node, expr, amap=None):
    """dotted text of `expr` with a leading local alias replaced by what it stands for"""
    from .loader import dotted as _dotted
    d = _dotted(expr)
    if not d: return d
    amap = alias_map(fn_node) if amap is None else amap
    head, _, rest = d.partition('.')
    seen = set()
    while head in amap and head not in seen:
        seen.add(head); d = amap[head] + (('.' + rest) if rest else ''); head, _, rest = d.partition('.')
    return d


def assign_pairs(stmt):
    """(target, value) pairs of an assignment statement; `a, b = x, y` is unpacked into (a, x), (b, y); a chained `a = b = v` gives (a, v), (b, v).
    Targets whose value cannot be paired (starred, unequal length, non-tuple value) are paired with None."""
    import ast as _ast
    out = []
    if isinstance(stmt, _ast.Assign):
        for t in stmt.targets:
            if isinstance(t, (_ast.Tuple, _ast.List)):
                v = stmt.value
                if isinstance(v, (_ast.Tuple, _ast.List)) and len(v.elts) == len(t.elts) and not any(isinstance(e, _ast.Starred) for e in list(t.elts) + list(v.elts)):
                    out.extend(zip(t.elts, v.elts))
                else:
                    out.extend((e, None) for e in t.elts)
            else:
                out.append((t, stmt.value))
    elif isinstance(stmt, _ast.AnnAssign) and stmt.value is not None:
        out.append((stmt.target, stmt.value))
    return out


def const_sets(mod):
    """module-level names bound to constant sets of strings (`del_statuses = {...}`, `x = {'created'} | del_statuses`) -> {name: frozenset}"""
    import ast as _ast
    out = {}
    def ev(e):
        if isinstance(e, (_ast.Set, _ast.Tuple, _ast.List)) and all(isinstance(x, _ast.Constant) for x in e.elts): return frozenset(x.value for x in e.elts)
        if isinstance(e, _ast.Name) and e.id in out: return out[e.id]
        if isinstance(e, _ast.BinOp) and isinstance(e.op, (_ast.BitOr, _ast.Sub, _ast.BitAnd)):
            l, r = ev(e.left), ev(e.right)
            if l is None or r is None: return None
            return l | r if isinstance(e.op, _ast.BitOr) else (l - r if isinstance(e.op, _ast.Sub) else l & r)
        if isinstance(e, _ast.Call) and isinstance(e.func, _ast.Name) and e.func.id in ('frozenset', 'set', 'tuple') and len(e.args) == 1: return ev(e.args[0])
        return None
    for st in mod.tree.body:
        if isinstance(st, _ast.Assign) and len(st.targets) == 1 and isinstance(st.targets[0], _ast.Name):
            v = ev(st.value)
            if v is not None: out[st.targets[0].id] = v
    return out


def value_atom(fn_node, subject, value, sets=None, other=None):
    """atom for typestate.eval_test: the expression whose alias-resolved dotted text is `subject` (e.g. 'obj._status_') has the concrete
    string `value`; decides `S == 'c'`, `S != 'c'`, `S in (...)`, `S not in NAME` (NAME from `sets`), `S is None`; everything else -> other(text, node)"""
    import ast as _ast
    amap = alias_map(fn_node)
    sets = sets or {}
    def is_subj(e): return deref(fn_node, e, amap) == subject
    def members(e):
        if isinstance(e, (_ast.Set, _ast.Tuple, _ast.List)) and all(isinstance(x, _ast.Constant) for x in e.elts): return frozenset(x.value for x in e.elts)
        if isinstance(e, _ast.Name) and e.id in sets: return sets[e.id]
        return None
    def atom(text, node):
        if isinstance(node, _ast.Compare) and len(node.ops) == 1:
            l, op, r = node.left, node.ops[0], node.comparators[0]
            if isinstance(op, (_ast.Eq, _ast.NotEq)):
                if is_subj(r) and isinstance(l, _ast.Constant): l, r = r, l
                if is_subj(l) and isinstance(r, _ast.Constant): return (value == r.value) == isinstance(op, _ast.Eq)
            if isinstance(op, (_ast.In, _ast.NotIn)) and is_subj(l):
                m = members(r)
                if m is not None: return (value in m) == isinstance(op, _ast.In)
            if isinstance(op, (_ast.Is, _ast.IsNot)) and is_subj(l) and isinstance(r, _ast.Constant) and r.value is None:
                # eval_test asks for the reading named in `text` (`X is None` first, for either operator) and negates itself
                return (value is not None) if text.endswith(' is not None') else (value is None)
        return other(text, node) if other else None
    return atom


def reaching_defs(g, at, name, with_params=False, with_aug=True, edge_ok=None):
    """CFG nodes whose statement binds the local `name` (plain or tuple assignment) and from which `at` can be reached without passing another
    binding of `name`: the definitions that can supply the value `name` has at `at`"""
    import ast as _ast
    defs = []
    for n in g.nodes:
        if n.kind == 'stmt' and isinstance(n.ast, (_ast.Assign, _ast.AnnAssign)):
            if any(isinstance(t, _ast.Name) and t.id == name for t, _v in assign_pairs(n.ast)): defs.append(n)
        elif with_aug and n.kind == 'stmt' and isinstance(n.ast, _ast.AugAssign) and isinstance(n.ast.target, _ast.Name) and n.ast.target.id == name: defs.append(n)
        elif n.kind == 'iter' and isinstance(n.ast, (_ast.For, _ast.AsyncFor)) and any(isinstance(x, _ast.Name) and x.id == name for x in _ast.walk(n.ast.target)): defs.append(n)
    fn_node = getattr(g, 'fn_node', None)
    if with_params and fn_node is not None and name in [a.arg for a in fn_node.args.args + fn_node.args.kwonlyargs + fn_node.args.posonlyargs] + \
            [a.arg for a in (fn_node.args.vararg, fn_node.args.kwarg) if a is not None]:
        defs.append(g.entry)
    out = []
    for d in defs:
        others = [x for x in defs if x is not d]
        if at.id in g.reach([d], avoid=others, include_src=False, edge_ok=edge_ok) and (edge_ok is None or d.id in g.reach([g.entry], edge_ok=edge_ok)): out.append(d)
    return out


def value_of_def(defnode, name):
    """the expression assigned to `name` by the assignment at CFG node `defnode` (None when it cannot be paired)"""
    import ast as _ast
    if defnode.ast is None or not isinstance(defnode.ast, (_ast.Assign, _ast.AnnAssign)) or defnode.kind != 'stmt': return None
    for t, v in assign_pairs(defnode.ast):
        if getattr(t, 'id', None) == name: return v
    return None


class Unknown(Exception):
    """concrete_eval met a construct it does not interpret"""


_SAFE = {'isinstance': isinstance, 'repr': repr, 'str': str, 'type': type, 'int': int, 'float': float, 'complex': complex, 'bool': bool, 'len': len, 'abs': abs,
         'list': list, 'dict': dict, 'tuple': tuple, 'set': set, 'None': None, 'True': True, 'False': False}


def concrete_eval(e, env):
    """evaluate a small side-effect-free expression taken from the analysed source on concrete values (env: name -> value): constants, names,
    attribute reads of ast nodes, tuples, and/or/not, comparisons, isinstance/type/repr/str/len/abs, str.startswith/endswith.  Anything else
    raises Unknown.  Used to ask "what does this guard decide for value v?" without running any code of the repository."""
    import ast as _ast
    ev = lambda x: concrete_eval(x, env)
    if isinstance(e, _ast.Constant): return e.value
    if isinstance(e, _ast.Name):
        if e.id in env: return env[e.id]
        if e.id in _SAFE: return _SAFE[e.id]
        raise Unknown
    if isinstance(e, _ast.Attribute):
        b = ev(e.value)
        if isinstance(b, _ast.AST) and e.attr in type(b)._fields: return getattr(b, e.attr)
        if type(b).__name__ == 'code' and e.attr.startswith('co_'): return getattr(b, e.attr)          # data attributes of a sample code object
        raise Unknown
    if isinstance(e, (_ast.Tuple, _ast.List)): return tuple(ev(x) for x in e.elts)
    if isinstance(e, _ast.BoolOp):
        r = None
        for v in e.values:
            r = ev(v)
            if isinstance(e.op, _ast.And) and not r: return r
            if isinstance(e.op, _ast.Or) and r: return r
        return r
    if isinstance(e, _ast.UnaryOp) and isinstance(e.op, _ast.Not): return not ev(e.operand)
    if isinstance(e, _ast.IfExp): return ev(e.body) if ev(e.test) else ev(e.orelse)
    if isinstance(e, _ast.Compare) and len(e.ops) == 1:
        l, r = ev(e.left), ev(e.comparators[0]); op = e.ops[0]
        try:
            if isinstance(op, _ast.Lt): return l < r
            if isinstance(op, _ast.LtE): return l <= r
            if isinstance(op, _ast.Gt): return l > r
            if isinstance(op, _ast.GtE): return l >= r
            if isinstance(op, _ast.Eq): return l == r
            if isinstance(op, _ast.NotEq): return l != r
            if isinstance(op, _ast.Is): return l is r
            if isinstance(op, _ast.IsNot): return l is not r
            if isinstance(op, _ast.In): return l in r
            if isinstance(op, _ast.NotIn): return l not in r
        except TypeError: raise Unknown
    if isinstance(e, _ast.BinOp) and isinstance(e.op, (_ast.Add, _ast.Sub, _ast.Mult)):
        l, r = ev(e.left), ev(e.right)
        try: return l + r if isinstance(e.op, _ast.Add) else (l - r if isinstance(e.op, _ast.Sub) else l * r)
        except TypeError: raise Unknown
    if isinstance(e, _ast.Subscript) and not isinstance(e.slice, _ast.Slice):
        b, k = ev(e.value), ev(e.slice)
        if isinstance(b, (tuple, list, str, dict)):
            try: return b[k]
            except (IndexError, KeyError, TypeError): raise Unknown
        raise Unknown
    if isinstance(e, (_ast.GeneratorExp, _ast.ListComp)) and len(e.generators) == 1 and isinstance(e.generators[0].target, _ast.Name):
        gen = e.generators[0]; out = []
        for item in ev(gen.iter):
            env2 = dict(env); env2[gen.target.id] = item
            if all(concrete_eval(c, env2) for c in gen.ifs): out.append(concrete_eval(e.elt, env2))
        return out if isinstance(e, _ast.ListComp) else iter(out)
    if isinstance(e, _ast.Call) and not e.keywords:
        if isinstance(e.func, _ast.Name) and e.func.id in _SAFE and callable(_SAFE[e.func.id]): return _SAFE[e.func.id](*[ev(a) for a in e.args])
        if isinstance(e.func, _ast.Attribute) and e.func.attr in ('startswith', 'endswith'):
            b = ev(e.func.value)
            if isinstance(b, str): return getattr(b, e.func.attr)(*[ev(a) for a in e.args])
    raise Unknown


def resolve_local(fn_node, e, depth=3):
    """`e`, with a local name that is bound exactly once in the function (plain assignment, not a parameter, not a loop target) replaced by the
    expression it was given -- `items = [..]; return ','.join(items)` reads like `return ','.join([..])`"""
    import ast as _ast
    while depth > 0 and isinstance(e, _ast.Name):
        def _targets(st):
            if isinstance(st, _ast.Assign): return st.targets
            if isinstance(st, _ast.With): return [i.optional_vars for i in st.items if i.optional_vars is not None]
            return [st.target]
        binds = [st for st in _ast.walk(fn_node) if isinstance(st, (_ast.Assign, _ast.AugAssign, _ast.AnnAssign, _ast.For, _ast.comprehension, _ast.With, _ast.NamedExpr))
                 and any(isinstance(x, _ast.Name) and x.id == e.id and isinstance(x.ctx, _ast.Store) for t_ in _targets(st) for x in _ast.walk(t_))]
        params = {a.arg for a in fn_node.args.args + fn_node.args.kwonlyargs + fn_node.args.posonlyargs} if hasattr(fn_node, 'args') else set()
        if e.id in params or len(binds) != 1 or not isinstance(binds[0], _ast.Assign) or len(binds[0].targets) != 1 or not isinstance(binds[0].targets[0], _ast.Name): return e
        e = binds[0].value; depth -= 1
    return e


def resolve_names(fn_node, e):
    """copy of expression `e` in which every local that is bound exactly once (see resolve_local) is replaced by the expression it was given"""
    import ast as _ast, copy as _copy
    class R(_ast.NodeTransformer):
        def visit_Name(self, node):
            if isinstance(node.ctx, _ast.Load):
                r = resolve_local(fn_node, node)
                if r is not node: return _copy.deepcopy(r)
            return node
    return R().visit(_copy.deepcopy(e))


def resolve_attr_aliases(fn_node, e):
    """like resolve_names, but only locals that merely name an attribute read (`db_session = cache.db_session`) are replaced -- a local holding the
    result of a call (`cursor = database._exec_sql(..)`) stays a name"""
    import ast as _ast, copy as _copy
    class R(_ast.NodeTransformer):
        def visit_Name(self, node):
            if isinstance(node.ctx, _ast.Load):
                r = resolve_local(fn_node, node, depth=1)
                if r is not node and dotted(r) and isinstance(r, _ast.Attribute): return _copy.deepcopy(r)
            return node
    return R().visit(_copy.deepcopy(e))


# ---------------------------------------------------------------------------------------------------------------- isinstance dispatch
BUILTIN_SUBCLASS = {'bool': {'int'}, 'datetime': {'date'}, 'datetime.datetime': {'datetime.date', 'date'}, 'OrderedDict': {'dict'}, 'defaultdict': {'dict'},
                    'TrackedDict': {'dict', 'TrackedValue'}, 'TrackedList': {'list', 'TrackedValue'}, 'TrackedArray': {'list', 'TrackedList', 'TrackedValue'}}


def _type_names(e):
    """names of the classes in the second argument of isinstance()"""
    if isinstance(e, (ast.Tuple, ast.List)): return [n for x in e.elts for n in _type_names(x)]
    d = dotted(e)
    return [d] if d else []


def _is_subclass_name(repo, mod, sub, sup):
    if sub == sup or sub.split('.')[-1] == sup.split('.')[-1] and ('.' in sub) != ('.' in sup): return True
    if sup in BUILTIN_SUBCLASS.get(sub, ()) or sup.split('.')[-1] in BUILTIN_SUBCLASS.get(sub.split('.')[-1], ()): return True
    c1 = repo.resolve_name(mod, sub.split('.')[0]) if repo is not None and '.' not in sub else None
    c2 = repo.resolve_name(mod, sup.split('.')[0]) if repo is not None and '.' not in sup else None
    if c1 is not None and c2 is not None and hasattr(c1, 'methods') and hasattr(c2, 'methods'):
        try: return c2 in repo.mro(c1)
        except Exception: return False
    return False


def shadowed_isinstance_tests(repo, mod, g, fn_node):
    """[(test node, text of the earlier test)]: an `isinstance(x, T2)` test whose true-branch cannot be taken for an instance of T2 because every path to
    it has already answered `isinstance(x, T1)` with T2 a subclass of T1 (datetime after date, bool after int, a subclass after its base): the
    branch written for the more specific type is dead and the value is handled as the general one"""
    from .typestate import scenario_edges
    out = []
    assigned = {}
    for s in ast.walk(fn_node):
        if isinstance(s, (ast.Assign, ast.AugAssign, ast.AnnAssign, ast.For, ast.With, ast.NamedExpr)):
            for t in (s.targets if isinstance(s, ast.Assign) else [getattr(s, 'target', None)]):
                for n in ast.walk(t) if t is not None else ():
                    if isinstance(n, ast.Name): assigned[n.id] = assigned.get(n.id, 0) + 1
    tests = []
    for n in g.nodes:
        if n.kind != 'test' or n.ast is None: continue
        t = n.ast
        if isinstance(t, ast.Call) and dotted(t.func) == 'isinstance' and len(t.args) == 2 and isinstance(t.args[0], ast.Name) and assigned.get(t.args[0].id, 0) <= 1:
            names = _type_names(t.args[1])
            if names: tests.append((n, t.args[0].id, names))
    for n, subj, names in tests:
        for target in names:
            def atom(text, node, subj=subj, target=target):
                if isinstance(node, ast.Call) and dotted(node.func) == 'isinstance' and len(node.args) == 2 and isinstance(node.args[0], ast.Name) and node.args[0].id == subj:
                    if any(_is_subclass_name(repo, mod, target, sup) for sup in _type_names(node.args[1])): return True
                return None
            eo = scenario_edges(g, fn_node, atom, resolve=False, aliases=False)
            live = g.reach([g.entry], edge_ok=eo)
            if n.id not in live:
                earlier = [norm(m.ast) for m, s2, nm in tests if m is not n and s2 == subj and any(_is_subclass_name(repo, mod, target, sup) for sup in nm)]
                out.append((n, target, earlier[0] if earlier else '?'))
    return out
