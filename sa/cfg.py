"""Statement-level control-flow graph for one Python function, with exception edges, finally
duplication per continuation kind, and must-pass-through / forward-dataflow queries."""
import ast
from .loader import AnalysisError, walk_no_nested, unparse, head

BASE_NORETURN = frozenset()        # extended by callgraph.compute_noreturn (throw, reraise, ...)


class N:
    __slots__ = ('id', 'kind', 'ast', 'stmt', 'copy', 'lineno')
    def __init__(self, id, kind, node=None, stmt=None, copy=''):
        self.id, self.kind, self.ast, self.stmt, self.copy = id, kind, node, stmt if stmt is not None else node, copy
        self.lineno = getattr(node, 'lineno', 0) if node is not None else 0
    def parts(self):
        """the AST sub-trees evaluated at this CFG node (bodies of compound statements excluded)"""
        a = self.ast
        if a is None: return []
        if self.kind == 'iter': return [a.iter, a.target]
        if self.kind == 'with': return [i.context_expr for i in a.items] + [i.optional_vars for i in a.items if i.optional_vars is not None]
        if self.kind == 'handler': return [a.type] if a.type is not None else []
        if isinstance(a, (ast.FunctionDef, ast.AsyncFunctionDef, ast.ClassDef)): return list(a.decorator_list)
        return [a]
    def walk(self):
        for p in self.parts():
            yield from walk_no_nested(p)
    def calls(self):
        return [n for n in self.walk() if isinstance(n, ast.Call)]
    def __repr__(self):
        return '<%d %s %s%s>' % (self.id, self.kind, head(self.ast, 60) if self.ast is not None else '', ('@' + self.copy) if self.copy else '')


def with_exit_stmt(w):
    call = ast.Call(func=ast.Name(id='__with_exit__', ctx=ast.Load()),
                    args=[i.context_expr for i in w.items], keywords=[])
    st = ast.Expr(value=call)
    ast.copy_location(st, w); ast.copy_location(call, w); ast.copy_location(call.func, w)
    st.end_lineno = w.lineno
    return st


def may_raise(node):
    for n in walk_no_nested(node):
        if isinstance(n, (ast.Call, ast.Subscript, ast.Raise, ast.Assert, ast.Delete, ast.Await, ast.Yield,
                          ast.YieldFrom, ast.Import, ast.ImportFrom)): return True
    return False


def is_const_true(e):
    return isinstance(e, ast.Constant) and bool(e.value) is True


def is_const_false(e):
    return isinstance(e, ast.Constant) and not e.value


class _Ctx:
    def __init__(self, g, parent): self.g, self.parent = g, parent
    def on_exc(self, preds, copy): self.parent.on_exc(preds, copy)
    def on_return(self, preds, copy): self.parent.on_return(preds, copy)
    def on_break(self, preds, copy): self.parent.on_break(preds, copy)
    def on_continue(self, preds, copy): self.parent.on_continue(preds, copy)


class _Root(_Ctx):
    def on_exc(self, preds, copy): self.g.connect(preds, self.g.raise_)
    def on_return(self, preds, copy): self.g.connect(preds, self.g.exit)
    def on_break(self, preds, copy): raise AnalysisError('break outside loop')
    def on_continue(self, preds, copy): raise AnalysisError('continue outside loop')


class _Loop(_Ctx):
    def __init__(self, g, parent, headnode):
        super().__init__(g, parent); self.headnode = headnode; self.breaks = []
    def on_break(self, preds, copy): self.breaks += preds
    def on_continue(self, preds, copy): self.g.connect(preds, self.headnode)


class _Finally(_Ctx):
    """routes every abrupt continuation through a private copy of the finally body"""
    def __init__(self, g, parent, finalbody, tag):
        super().__init__(g, parent); self.finalbody, self.tag = finalbody, tag; self.joins = {}
    def _route(self, kind, preds, copy):
        key = (kind, copy)
        if key not in self.joins:
            j = self.g.new('join', None, copy=(copy + '/' if copy else '') + 'finally-%s@%d' % (kind, self.tag))
            self.joins[key] = j
            outs = self.g.seq(self.finalbody, [(j.id, None)], self.parent, j.copy)
            getattr(self.parent, 'on_' + kind)(outs, copy)
        self.g.connect(preds, self.joins[key])
    def on_exc(self, preds, copy): self._route('exc', preds, copy)
    def on_return(self, preds, copy): self._route('return', preds, copy)
    def on_break(self, preds, copy): self._route('break', preds, copy)
    def on_continue(self, preds, copy): self._route('continue', preds, copy)


class _TryBody(_Ctx):
    def __init__(self, g, parent, dispatch):
        super().__init__(g, parent); self.dispatch = dispatch
    def on_exc(self, preds, copy):
        self.g.connect([(p, 'exc') for p, _ in preds], self.dispatch)


CATCH_ALL = ('BaseException',)


class CFG:
    def __init__(self, fn_node, noreturn=BASE_NORETURN, name=None):
        self.fn_node = fn_node
        self.name = name or getattr(fn_node, 'name', '?')
        self.noreturn = noreturn
        self.nodes = []
        self.succ, self.pred = {}, {}
        self.entry = self.new('entry'); self.exit = self.new('exit'); self.raise_ = self.new('raise')
        root = _Root(self, None)
        outs = self.seq(fn_node.body, [(self.entry.id, None)], root, '')
        self.connect(outs, self.exit)
        self._by_stmt = {}
        for n in self.nodes:
            if n.stmt is not None: self._by_stmt.setdefault(id(n.stmt), []).append(n)

    # -------------------------------------------------------------- construction
    def new(self, kind, node=None, stmt=None, copy=''):
        n = N(len(self.nodes), kind, node, stmt, copy)
        self.nodes.append(n); self.succ[n.id] = []; self.pred[n.id] = []
        return n

    def connect(self, preds, node):
        for p, lab in preds:
            if (node.id, lab) not in self.succ[p]:
                self.succ[p].append((node.id, lab)); self.pred[node.id].append((p, lab))

    def is_noreturn_stmt(self, st):
        if isinstance(st, ast.Raise): return True
        if isinstance(st, ast.Assert) and is_const_false(st.test): return True
        if isinstance(st, ast.Expr) and isinstance(st.value, ast.Call):
            f = st.value.func
            nm = f.id if isinstance(f, ast.Name) else None
            if nm and nm in self.noreturn: return True
        return False

    def seq(self, stmts, preds, ctx, copy):
        for st in stmts:
            if not preds: break            # unreachable code after a terminator
            preds = self.stmt(st, preds, ctx, copy)
        return preds

    def stmt(self, st, preds, ctx, copy):
        g = self
        if isinstance(st, ast.If):
            t = g.new('test', st.test, st, copy); g.connect(preds, t)
            if may_raise(st.test): ctx.on_exc([(t.id, 'exc')], copy)
            tp = [] if is_const_false(st.test) else [(t.id, 'T')]
            fp = [] if is_const_true(st.test) else [(t.id, 'F')]
            outs = g.seq(st.body, tp, ctx, copy) if tp else []
            outs += g.seq(st.orelse, fp, ctx, copy) if st.orelse else fp
            return outs
        if isinstance(st, ast.While):
            t = g.new('test', st.test, st, copy); g.connect(preds, t)
            if may_raise(st.test): ctx.on_exc([(t.id, 'exc')], copy)
            lp = _Loop(g, ctx, t)
            outs = g.seq(st.body, [(t.id, 'T')], lp, copy)
            g.connect(outs, t)
            fp = [] if is_const_true(st.test) else [(t.id, 'F')]
            after = g.seq(st.orelse, fp, ctx, copy) if st.orelse else fp
            return after + lp.breaks
        if isinstance(st, ast.For) and isinstance(st.target, ast.Name) and st.target.id == '__once':
            # one-trip loop produced by the helper inliner (early returns of the helper became `break`): the body runs exactly once
            j = g.new('join', None, st, copy); g.connect(preds, j)
            lp = _Loop(g, ctx, j)
            outs = g.seq(st.body, [(j.id, None)], lp, copy)
            return outs + lp.breaks
        if isinstance(st, (ast.For, ast.AsyncFor)):
            it = g.new('iter', st, st, copy); g.connect(preds, it)
            ctx.on_exc([(it.id, 'exc')], copy)
            lp = _Loop(g, ctx, it)
            outs = g.seq(st.body, [(it.id, 'loop')], lp, copy)
            g.connect(outs, it)
            fp = [(it.id, 'exhaust')]
            after = g.seq(st.orelse, fp, ctx, copy) if st.orelse else fp
            return after + lp.breaks
        if isinstance(st, (ast.With, ast.AsyncWith)):
            w = g.new('with', st, st, copy); g.connect(preds, w)
            ctx.on_exc([(w.id, 'exc')], copy)
            fin = _Finally(g, ctx, [with_exit_stmt(st)], w.id)
            outs = g.seq(st.body, [(w.id, None)], fin, copy)
            return g.seq(fin.finalbody, outs, ctx, copy)
        if isinstance(st, ast.Try) or type(st).__name__ == 'TryStar':
            tnode = g.new('try', None, st, copy); g.connect(preds, tnode)
            outer = _Finally(g, ctx, st.finalbody, tnode.id) if st.finalbody else ctx
            if st.handlers:
                d = g.new('dispatch', None, st, copy)
                body_ctx = _TryBody(g, outer, d)
            else:
                d = None; body_ctx = outer
            outs = g.seq(st.body, [(tnode.id, None)], body_ctx, copy)
            outs = g.seq(st.orelse, outs, outer, copy) if st.orelse else outs
            if d is not None:
                catch_all = False
                for h in st.handlers:
                    hn = g.new('handler', h, h, copy); g.connect([(d.id, 'exc')], hn)
                    outs += g.seq(h.body, [(hn.id, None)], outer, copy)
                    if h.type is None or (isinstance(h.type, ast.Name) and h.type.id in CATCH_ALL): catch_all = True
                if not catch_all: outer.on_exc([(d.id, 'unmatched')], copy)
            if st.finalbody: outs = g.seq(st.finalbody, outs, ctx, copy)
            return outs
        if isinstance(st, ast.Match):
            m = g.new('test', st.subject, st, copy); g.connect(preds, m)
            outs = [(m.id, 'nomatch')]
            for c in st.cases: outs += g.seq(c.body, [(m.id, 'case')], ctx, copy)
            return outs
        # ---- simple statements
        n = g.new('stmt', st, st, copy); g.connect(preds, n)
        if isinstance(st, ast.Return):
            if st.value is not None and may_raise(st.value): ctx.on_exc([(n.id, 'exc')], copy)
            ctx.on_return([(n.id, None)], copy); return []
        if isinstance(st, ast.Break): ctx.on_break([(n.id, None)], copy); return []
        if isinstance(st, ast.Continue): ctx.on_continue([(n.id, None)], copy); return []
        if self.is_noreturn_stmt(st):
            ctx.on_exc([(n.id, 'exc')], copy); return []
        if isinstance(st, (ast.FunctionDef, ast.AsyncFunctionDef, ast.ClassDef, ast.Pass, ast.Global, ast.Nonlocal)):
            return [(n.id, None)]
        if may_raise(st): ctx.on_exc([(n.id, 'exc')], copy)
        return [(n.id, None)]

    # -------------------------------------------------------------- queries
    def nodes_of(self, stmt):
        """all CFG nodes (incl. finally copies) built for an AST statement"""
        return self._by_stmt.get(id(stmt), [])

    def where(self, pred):
        return [n for n in self.nodes if n.ast is not None and pred(n)]

    def reach(self, srcs, avoid=(), backward=False, edge_ok=None, include_src=True):
        avoid = {n.id if isinstance(n, N) else n for n in avoid}
        adj = self.pred if backward else self.succ
        seen = set(); stack = []
        for s in srcs:
            s = s.id if isinstance(s, N) else s
            if include_src:
                if s in avoid: continue
                seen.add(s)
            stack.append(s)
        first = {s for s in stack}
        while stack:
            x = stack.pop()
            for y, lab in adj[x]:
                if y in seen or y in avoid: continue
                if edge_ok is not None and not edge_ok(x, y, lab): continue
                seen.add(y); stack.append(y)
        return seen

    def reachable_nodes(self):
        return self.reach([self.entry])

    def dominated(self, target, guards, edge_ok=None):
        """True iff every entry->target path passes through a guard node"""
        t = target.id if isinstance(target, N) else target
        return t not in self.reach([self.entry], avoid=guards, edge_ok=edge_ok)

    def must_pass_after(self, src, guards, exits=None, edge_ok=None):
        """True iff every path from src (exclusive) to any of exits passes through a guard node"""
        exits = exits if exits is not None else [self.exit]
        r = self.reach([src], avoid=guards, edge_ok=edge_ok, include_src=False)
        return not any((e.id if isinstance(e, N) else e) in r for e in exits)

    def path(self, src, dst, avoid=(), edge_ok=None):
        """one shortest path src->dst avoiding nodes, as list of N (for reports) or None"""
        avoid = {n.id if isinstance(n, N) else n for n in avoid}
        s = src.id if isinstance(src, N) else src; d = dst.id if isinstance(dst, N) else dst
        prev = {s: None}; q = [s]
        while q:
            nq = []
            for x in q:
                if x == d:
                    out = []
                    while x is not None: out.append(self.nodes[x]); x = prev[x]
                    return out[::-1]
                for y, lab in self.succ[x]:
                    if y in prev or y in avoid: continue
                    if edge_ok is not None and not edge_ok(x, y, lab): continue
                    prev[y] = x; nq.append(y)
            q = nq
        return None

    def fmt_path(self, p, limit=12):
        items = [('%d:%s' % (n.lineno, head(n.ast, 50)) if n.ast is not None else n.kind) for n in p
                 if n.kind not in ('join', 'try', 'dispatch')]
        if len(items) > limit: items = items[:limit // 2] + ['...'] + items[-limit // 2:]
        return ' -> '.join(items)

    def forward(self, init, transfer, max_iter=200000, start=None):
        """powerset forward dataflow.  state = frozenset of facts.
        transfer(node, state, label) -> state flowing along an out-edge with that label (or None = edge infeasible)"""
        s0 = self.entry.id if start is None else (start.id if isinstance(start, N) else start)
        IN = {s0: frozenset(init)}
        work = [s0]; it = 0
        while work:
            it += 1
            if it > max_iter: raise AnalysisError('dataflow did not converge in %s' % self.name)
            x = work.pop()
            st = IN[x]
            for y, lab in self.succ[x]:
                out = transfer(self.nodes[x], st, lab)
                if out is None: continue
                old = IN.get(y)
                new = out if old is None else (old | out)
                if new != old:
                    IN[y] = new; work.append(y)
        return IN


def build(fn, noreturn=BASE_NORETURN):
    return CFG(fn.node, noreturn, fn.full)
