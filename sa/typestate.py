"""Small finite-state abstract interpreter over a CFG (concrete-state powerset: every tracked variable always has a
definite value; unknown inputs are enumerated at entry).  Used for lock / connection / flag typestate rules."""
import ast, re
from .loader import norm, dotted, AnalysisError


def eval_test(e, atom):
    """three-valued evaluation of a boolean test. atom(text, node) -> True/False/None"""
    if isinstance(e, ast.BoolOp):
        vals = [eval_test(v, atom) for v in e.values]
        if isinstance(e.op, ast.And):
            if any(v is False for v in vals): return False
            return True if all(v is True for v in vals) else None
        if any(v is True for v in vals): return True
        return False if all(v is False for v in vals) else None
    if isinstance(e, ast.UnaryOp) and isinstance(e.op, ast.Not):
        v = eval_test(e.operand, atom)
        return None if v is None else (not v)
    if isinstance(e, ast.Constant): return bool(e.value)
    if isinstance(e, ast.Compare) and len(e.ops) == 1 and isinstance(e.ops[0], (ast.Eq, ast.NotEq)) and \
            all(isinstance(x, (ast.Compare, ast.BoolOp)) or (isinstance(x, ast.UnaryOp) and isinstance(x.op, ast.Not)) for x in (e.left, e.comparators[0])):
        # (a >= 0) == (b >= 0): equality of two conditions
        l, r = eval_test(e.left, atom), eval_test(e.comparators[0], atom)
        if l is None or r is None: return None
        return (l == r) if isinstance(e.ops[0], ast.Eq) else (l != r)
    if isinstance(e, ast.Compare) and len(e.ops) == 1 and isinstance(e.comparators[0], ast.Constant) and e.comparators[0].value is None:
        v = atom(norm(e.left) + ' is None', e)
        if v is None:
            v2 = atom(norm(e.left) + ' is not None', e)
            v = None if v2 is None else (not v2)
        if v is None: return None
        return v if isinstance(e.ops[0], ast.Is) else (not v)
    return atom(norm(e), e)


def canon_test(e):
    """canonical spelling of a test: `not (a in b)` -> `a not in b`, `not (a == b)` -> `a != b`, `not (a is b)` -> `a is not b`, double negation removed
    (copy; the operands are untouched)"""
    import copy
    NEG = {ast.In: ast.NotIn, ast.NotIn: ast.In, ast.Eq: ast.NotEq, ast.NotEq: ast.Eq, ast.Is: ast.IsNot, ast.IsNot: ast.Is}
    def rec(x):
        if isinstance(x, ast.UnaryOp) and isinstance(x.op, ast.Not):
            inner = rec(x.operand)
            if isinstance(inner, ast.UnaryOp) and isinstance(inner.op, ast.Not): return inner.operand
            if isinstance(inner, ast.Compare) and len(inner.ops) == 1 and type(inner.ops[0]) in NEG:
                y = copy.copy(inner); y.ops = [NEG[type(inner.ops[0])]()]; return y
            y = copy.copy(x); y.operand = inner; return y
        if isinstance(x, ast.BoolOp):
            y = copy.copy(x); y.values = [rec(v) for v in x.values]; return y
        return x
    return rec(e)


def resolve_flags(fn_node, test, depth=2, attrs=False):
    """copy of `test` in which local flag names are replaced by their (only) defining expression when that is a condition"""
    import copy
    defs = {}
    for st in ast.walk(fn_node):
        if isinstance(st, ast.Assign) and len(st.targets) == 1 and isinstance(st.targets[0], ast.Name):
            defs.setdefault(st.targets[0].id, []).append(st.value)
    augmented = {st.target.id for st in ast.walk(fn_node) if isinstance(st, ast.AugAssign) and isinstance(st.target, ast.Name)}
    def rec(e, d):
        if isinstance(e, ast.Name) and d > 0 and len(defs.get(e.id, ())) == 1 and (isinstance(defs[e.id][0], (ast.Compare, ast.BoolOp, ast.UnaryOp, ast.Call, ast.Constant)) or
                (isinstance(defs[e.id][0], ast.BinOp) and isinstance(defs[e.id][0].op, ast.BitAnd))) and e.id not in augmented:
            return rec(copy.deepcopy(defs[e.id][0]), d - 1)
        if attrs and isinstance(e, ast.Name) and len(defs.get(e.id, ())) == 1 and isinstance(defs[e.id][0], ast.Attribute):
            return copy.deepcopy(defs[e.id][0])          # local alias of an attribute read: `status = obj._status_`
        if attrs and isinstance(e, ast.Compare):
            e.left = rec(e.left, d); e.comparators = [rec(c, d) for c in e.comparators]
        if isinstance(e, ast.UnaryOp) and isinstance(e.op, ast.Not): e.operand = rec(e.operand, d)
        elif isinstance(e, ast.BoolOp): e.values = [rec(v, d) for v in e.values]
        return e
    return rec(copy.deepcopy(test), depth)


def equivalent_to_atom(fn_node, test, atom_text):
    """True iff `test` (flags resolved) is true exactly when the atom `atom_text` (e.g. 'undo_funcs is None') is true and false when it is
    false, whatever else holds -- decided by three-valued evaluation, so `not (x is not None)`, `x is None`, `not flag` with
    `flag = x is not None` are all accepted and `not x`, `bool(x)` are not"""
    t = resolve_flags(fn_node, test)
    def mk(val):
        def atom(text, node):
            if text == atom_text: return val
            return None
        return atom
    return eval_test(t, mk(True)) is True and eval_test(t, mk(False)) is False


def scenario_edges(g, fn_node, atom, resolve=True, aliases=True):
    """edge filter for CFG.reach: a branch edge is kept unless the test (local flags resolved) evaluates, three-valued under `atom`, to the
    opposite outcome"""
    cache = {}
    def eo(x, y, lab):
        n_ = g.nodes[x]
        if n_.kind != 'test' or lab not in ('T', 'F'): return True
        if x not in cache:
            t = resolve_flags(fn_node, n_.ast) if resolve else n_.ast
            # within a scenario every atom has one truth value for the whole run, so a local that merely names an attribute read
            # (`is_volatile = attr.is_volatile`, bound once) can be replaced by what it stands for
            if aliases: t = resolve_flags(fn_node, t, depth=0, attrs=True)
            cache[x] = eval_test(t, atom)
        v = cache[x]
        return v is None or v == (lab == 'T')
    return eo


class Machine:
    """vars: ordered names.  A state is a tuple of values.
    effect(node, env) -> None (no effect) or dict with optional keys:
        'normal': list of {var: value} updates (nondeterministic alternatives) applied on non-exceptional out-edges
        'exc':    list of updates applied on the exceptional out-edge (default: unchanged)
    atom(text, env) -> True/False/None for test atoms"""
    def __init__(self, g, vars_, effect, atom, resolve=False, snap=None):
        # resolve=True: local flags in tests are replaced by the condition they were assigned (only sound when the flag's operands cannot change
        # between the assignment and the test -- not for snapshots such as SQLiteProvider.commit's `in_transaction`)
        # snap={dotted attribute text: tracked variable}: a local assigned from such an attribute (`immediate = cache.immediate`) is tracked as a
        # snapshot -- it keeps the value the attribute had at the assignment; atoms that mention the local are evaluated as the attribute's atom
        # in an environment where the tracked variable has the snapshot value
        self.g, self.vars, self.effect, self.atom, self.resolve = g, list(vars_), effect, atom, resolve
        self.snap = dict(snap or {}); self.snap_locals = {}
        if self.snap:
            for n in g.nodes:
                if n.kind == 'stmt' and isinstance(n.ast, ast.Assign):
                    for t in n.ast.targets:
                        pairs = list(zip(t.elts, n.ast.value.elts)) if isinstance(t, ast.Tuple) and isinstance(n.ast.value, ast.Tuple) and len(t.elts) == len(n.ast.value.elts) else [(t, n.ast.value)]
                        for t_, v_ in pairs:
                            if isinstance(t_, ast.Name) and dotted(v_) in self.snap: self.snap_locals.setdefault(t_.id, set()).add(dotted(v_))
            # a local bound from two different attributes, or also bound otherwise, is not a snapshot the machine can follow
            other = set()
            for n in g.nodes:
                if n.ast is None: continue
                for x in ast.walk(n.ast):
                    if isinstance(x, ast.Name) and isinstance(x.ctx, ast.Store) and x.id in self.snap_locals:
                        if not (n.kind == 'stmt' and isinstance(n.ast, ast.Assign) and self._snap_pairs(n.ast, x.id)): other.add(x.id)
            self.snap_locals = {k: next(iter(v)) for k, v in self.snap_locals.items() if len(v) == 1 and k not in other}
            self.vars += ['L:' + k for k in sorted(self.snap_locals)]
            user_atom = atom
            def atom2(text, env):
                names = [k for k in self.snap_locals if re.search(r'(?<![\w.])%s(?![\w(])' % re.escape(k), text)]
                if not names: return user_atom(text, env)
                env2 = dict(env); t2 = text
                for k in names:
                    if env['L:' + k] == 'unset': return None
                    env2[self.snap[self.snap_locals[k]]] = env['L:' + k]
                    t2 = re.sub(r'(?<![\w.])%s(?![\w(])' % re.escape(k), self.snap_locals[k], t2)
                return user_atom(t2, env2)
            self.atom = atom2

    def _snap_pairs(self, a, name):
        for t in a.targets:
            pairs = list(zip(t.elts, a.value.elts)) if isinstance(t, ast.Tuple) and isinstance(a.value, ast.Tuple) and len(t.elts) == len(a.value.elts) else [(t, a.value)]
            for t_, v_ in pairs:
                if isinstance(t_, ast.Name) and t_.id == name and dotted(v_) in self.snap: return dotted(v_)
        return None

    def env(self, st): return dict(zip(self.vars, st))
    def st(self, env): return tuple(env[v] for v in self.vars)

    def run(self, init_envs, start=None):
        g = self.g
        resolved = {}
        def transfer(n, states, lab):
            out = set()
            for s in states:
                env = self.env(s)
                if n.kind == 'test' and lab in ('T', 'F'):
                    if n.id not in resolved:
                        # flags that are not tracked variables of this machine are replaced by the condition they were assigned
                        t_ = resolve_flags(g.fn_node, n.ast) if self.resolve and getattr(g, 'fn_node', None) is not None else n.ast
                        if any(isinstance(x, ast.Name) and x.id in self.vars for x in ast.walk(n.ast)): t_ = n.ast
                        resolved[n.id] = t_
                    v = eval_test(resolved[n.id], lambda t, node: self.atom(t, env))
                    if v is not None and v != (lab == 'T'): continue
                    out.add(s); continue
                if n.kind == 'stmt' and isinstance(n.ast, ast.Assert) and lab != 'exc':
                    v = eval_test(n.ast.test, lambda t, node: self.atom(t, env))
                    if v is False: continue
                eff = self.effect(n, env) if n.ast is not None else None
                if self.snap_locals and n.kind == 'stmt' and isinstance(n.ast, ast.Assign) and lab not in ('exc', 'unmatched'):
                    su = {}
                    for k in self.snap_locals:
                        src = self._snap_pairs(n.ast, k)
                        if src: su['L:' + k] = env[self.snap[src]]
                    if su:
                        alts = (eff or {}).get('normal') or [{}]
                        eff = dict(eff or {}); eff['normal'] = [dict(a, **su) for a in alts]
                if eff is None: out.add(s); continue
                key = 'exc' if lab in ('exc', 'unmatched') else 'normal'
                alts = eff.get(key)
                if alts is None: out.add(s); continue
                for upd in alts:
                    e2 = dict(env); e2.update(upd); out.add(self.st(e2))
            return frozenset(out) if out else None
        init_envs = [dict({'L:' + k: 'unset' for k in self.snap_locals}, **e) for e in init_envs]
        IN = g.forward([self.st(e) for e in init_envs], transfer, start=start)
        return IN

    def states_at(self, IN, node):
        return [self.env(s) for s in IN.get(node.id, ())]
