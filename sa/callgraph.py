"""Resolved intra-package call graph for pony (receiver typing by role name + MRO dispatch)."""
import ast
from .loader import AnalysisError, Cls, Fn, walk_no_nested, chain, calls_in
from . import cfg as cfgmod

# role name of a variable / parameter -> (module, class).  Confirmed by reading: pony names values by role
# consistently (the survey printed by `tools/survey_receivers.py` shows every method receiver of that name
# belongs to the class hierarchy listed here).
NAME_TYPES = {
    'cache': ('pony.orm.core', 'SessionCache'),
    'database': ('pony.orm.core', 'Database'), 'db': ('pony.orm.core', 'Database'),
    'provider': ('pony.orm.dbapiprovider', 'DBAPIProvider'),
    'pool': ('pony.orm.dbapiprovider', 'Pool'),
    'obj': ('pony.orm.core', 'Entity'), 'entity': ('pony.orm.core', 'EntityMeta'),
    'attr': ('pony.orm.core', 'Attribute'), 'reverse': ('pony.orm.core', 'Attribute'),
    'wrapper': ('pony.orm.core', 'SetInstance'), 'query': ('pony.orm.core', 'Query'),
    'translator': ('pony.orm.sqltranslation', 'SQLTranslator'),
    'builder': ('pony.orm.sqlbuilding', 'SQLBuilder'),
    'monad': ('pony.orm.sqltranslation', 'Monad'),
    'converter': ('pony.orm.dbapiprovider', 'Converter'),
    'schema': ('pony.orm.dbschema', 'DBSchema'), 'table': ('pony.orm.dbschema', 'Table'),
    'db_session': ('pony.orm.core', 'DBSessionContextManager'),
    'decompiler': ('pony.orm.decompiling', 'Decompiler'),
    'multiset': ('pony.orm.core', 'Multiset'), 'bag': ('pony.orm.serialization', 'Bag'),
    'setdata': ('pony.orm.core', 'SetData'),
}
# attribute name -> class of the value (when read from any typed or untyped receiver)
ATTR_TYPES = {
    '_database_': ('pony.orm.core', 'Database'), 'database': ('pony.orm.core', 'Database'),
    'provider': ('pony.orm.dbapiprovider', 'DBAPIProvider'),
    '_session_cache_': ('pony.orm.core', 'SessionCache'), '_cache': ('pony.orm.core', 'SessionCache'),
    'reverse': ('pony.orm.core', 'Attribute'), 'entity': ('pony.orm.core', 'EntityMeta'),
    '__class__': None, 'pool': ('pony.orm.dbapiprovider', 'Pool'),
    '_obj_': ('pony.orm.core', 'Entity'), '_attr_': ('pony.orm.core', 'Set'),
    'translator': ('pony.orm.sqltranslation', 'SQLTranslator'),
    'root_translator': ('pony.orm.sqltranslation', 'SQLTranslator'),
    '_translator': ('pony.orm.sqltranslation', 'SQLTranslator'),
}
# names too generic to resolve by name alone (builtin container / string methods)
GENERIC = set(dir(list)) | set(dir(dict)) | set(dir(set)) | set(dir(str)) | set(dir(tuple)) | {
    'next', 'send', 'close', 'execute', 'executemany', 'fetchone', 'fetchall', 'fetchmany', 'cursor', 'commit',
    'rollback', 'connect', 'release', 'acquire', 'search', 'match', 'group', 'sub', 'write', 'read', 'items'}
# commit/rollback/connect/release/close are in GENERIC only for *untyped* receivers (DB-API connection objects)


class CallGraph:
    def __init__(self, repo):
        self.repo = repo
        self._types = {}
        for k, (m, c) in NAME_TYPES.items():
            self._types[k] = repo.classes.get(m + '.' + c)
        self._attr_types = {k: (repo.classes.get(v[0] + '.' + v[1]) if v else None) for k, v in ATTR_TYPES.items()}
        self.by_name = {}
        for f in repo.rule_funcs():
            if f.cls is not None and f.parent is None: self.by_name.setdefault(f.name, []).append(f)
        self.edges = {}     # Fn.full -> list of (call node, [Fn], kind)
        self.noreturn = self._compute_noreturn()
        self._cfgs = {}

    # ------------------------------------------------------------ typing
    def type_of(self, fn, expr):
        """-> Cls or None for a receiver expression inside fn"""
        if isinstance(expr, ast.Name):
            if fn is not None:
                f = fn
                while f is not None:
                    if expr.id == f.recv:
                        return f.cls if not f.is_classmethod else None
                    f = f.parent
            if expr.id == 'self' and fn is not None and fn.cls is not None: return fn.cls
            return self._types.get(expr.id)
        if isinstance(expr, ast.Attribute):
            if expr.attr in self._attr_types and self._attr_types[expr.attr] is not None:
                return self._attr_types[expr.attr]
            if expr.attr == '__class__':
                t = self.type_of(fn, expr.value)
                if t is not None and t.name == 'Entity': return self.repo.classes.get('pony.orm.core.EntityMeta')
            return None
        if isinstance(expr, ast.Call):
            # constructor call
            if isinstance(expr.func, ast.Name) and fn is not None:
                r = self.repo.resolve_name(fn.mod, expr.func.id)
                if r and r[0] == 'class': return r[1]
            if isinstance(expr.func, ast.Attribute) and expr.func.attr == '_get_cache':
                return self.repo.classes.get('pony.orm.core.SessionCache')
        return None

    # ------------------------------------------------------------ resolution
    def resolve(self, fn, call):
        """-> (targets:[Fn], kind) kind in exact|dispatch|super|byname|ctor|ext|unknown"""
        repo = self.repo
        f = call.func
        if isinstance(f, ast.Name):
            # nested function in an enclosing scope?
            g = fn
            while g is not None:
                if f.id in g.nested: return [g.nested[f.id]], 'exact'
                g = g.parent
            r = repo.resolve_name(fn.mod, f.id)
            if r is None: return [], 'unknown'
            if r[0] == 'func': return [r[1]], 'exact'
            if r[0] == 'class':
                init = repo.lookup(r[1], '__init__')
                return ([init] if init else []), 'ctor'
            return [], 'ext' if r[0] == 'ext' else 'unknown'
        if isinstance(f, ast.Attribute):
            name = f.attr
            # super().m() / Base.m(self, ...)
            if isinstance(f.value, ast.Call) and isinstance(f.value.func, ast.Name) and f.value.func.id == 'super' and fn.cls:
                for k in repo.mro(fn.cls)[1:]:
                    if name in k.methods: return [k.methods[name]], 'super'
                return [], 'ext'
            if isinstance(f.value, ast.Name):
                r = repo.resolve_name(fn.mod, f.value.id)
                is_local = f.value.id in fn.params or f.value.id == fn.recv
                if r and not is_local:
                    if r[0] == 'class':
                        m = repo.lookup(r[1], name)
                        return ([m] if m else []), 'exact'
                    if r[0] == 'module':
                        r2 = repo.resolve_name(repo.modules[r[1]], name)
                        if r2 and r2[0] == 'func': return [r2[1]], 'exact'
                        if r2 and r2[0] == 'class':
                            init = repo.lookup(r2[1], '__init__'); return ([init] if init else []), 'ctor'
                        return [], 'unknown'
                    if r[0] == 'ext': return [], 'ext'
            t = self.type_of(fn, f.value)
            if t is not None:
                ts = repo.dispatch(t, name)
                # EntityMeta methods are reachable through Entity instances' class, and Entity classmethod-like access
                if ts: return ts, 'dispatch'
                if t.name == 'Entity':
                    ts = repo.dispatch(repo.classes['pony.orm.core.EntityMeta'], name)
                    if ts: return ts, 'dispatch'
                return [], 'unknown'
            if name in GENERIC: return [], 'generic'
            cands = self.by_name.get(name, [])
            if cands: return list(cands), 'byname'
            return [], 'unknown'
        return [], 'unknown'

    def callees(self, fn):
        if fn.full in self.edges: return self.edges[fn.full]
        out = []
        for c in calls_in(fn.node):
            ts, kind = self.resolve(fn, c)
            out.append((c, ts, kind))
        self.edges[fn.full] = out
        return out

    def reaches(self, start, is_target, follow_nested=True, kinds=('exact', 'dispatch', 'super', 'ctor', 'byname'),
                stop=None, max_depth=40):
        """does `start` reach a function satisfying is_target?  -> call chain [Fn...] or None (BFS, shortest)"""
        seen = {start.full}; q = [(start, [start])]
        while q:
            nq = []
            for fn, pth in q:
                if is_target(fn) and fn is not start: return pth
                if len(pth) > max_depth: continue
                nxt = []
                for c, ts, kind in self.callees(fn):
                    if kind in kinds: nxt += ts
                if follow_nested: nxt += list(fn.nested.values())
                for t in nxt:
                    if t.full in seen or (stop and stop(t)): continue
                    seen.add(t.full); nq.append((t, pth + [t]))
            q = nq
        return None

    def callers_of(self, pred):
        """all (caller Fn, call node, targets, kind) where some target satisfies pred"""
        out = []
        for fn in self.repo.rule_funcs():
            for c, ts, kind in self.callees(fn):
                if any(pred(t) for t in ts): out.append((fn, c, ts, kind))
        return out

    # ------------------------------------------------------------ noreturn + cfg cache
    def _compute_noreturn(self):
        """module-level functions that never return normally (throw, reraise, throw_db_session_is_over, ...)"""
        cands = [f for f in self.repo.rule_funcs() if f.cls is None and f.parent is None]
        nr = set()
        for _ in range(6):
            changed = False
            for f in cands:
                if f.name in nr: continue
                # cheap pre-filter: last statement must be raise / try / if / call
                g = cfgmod.CFG(f.node, frozenset(nr), f.full)
                if g.exit.id not in g.reachable_nodes():
                    # generators are not noreturn callables
                    if any(isinstance(n, (ast.Yield, ast.YieldFrom)) for n in walk_no_nested(f.node)): continue
                    nr.add(f.name); changed = True
            if not changed: break
        return frozenset(nr)

    def cfg(self, fn):
        g = self._cfgs.get(fn.full)
        if g is None:
            g = self._cfgs[fn.full] = cfgmod.CFG(fn.node, self.noreturn, fn.full)
        return g
