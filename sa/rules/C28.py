"""C28  In-place changes to Json and array values are persisted."""
import ast, types
from ..loader import dotted, walk_no_nested, norm, calls_in, Cls
from ..q import nodes_calling

EXPLANATION = """
Static clauses decided (necessary conditions of C28):
 EXH     exhaustiveness against CPython itself: every in-place mutator of list (names in dir(list) absent from
         dir(tuple)) and of dict (names in dir(dict) absent from dir(types.MappingProxyType)), minus a listed handful of
         non-mutators, is *defined inside pony's tracked container classes* (found along the MRO before the builtin)
         and reaches TrackedValue._changed_: either `name = tracked_method(<builtin>.<same name>)` or a def that calls a
         tracked method / _changed_ on every normal path.  A mutator inherited from the builtin changes the stored value
         without marking the object modified, so the change is never written.
 ONLY    conversely every name wrapped with tracked_method is a mutator (or a private helper): reads never mark
         the object modified.
 WRAP    tracked_method's wrapper calls self._changed_() after the wrapped call on every normal path; _changed_
         forwards to obj._attr_changed_(attr); _attr_changed_ sets the write bit and queues the object.
 ARRAY   every item-inserting mutator of TrackedList is overridden in TrackedArray by a def that calls validate_item
         and then the tracked parent method.
 CONV    JsonConverter.validate/dbval2val and ArrayConverter.validate/dbval2val return a tracked container whenever an
         owner object is given (every return is a Tracked* construction, or is guarded by `obj is None`, an
         already-tracked test, or a scalar test).
 OWNERARG every database value that becomes an attribute value of an object is converted with the owner given: each call of
         converter.dbval2val in core.py (Attribute.db_set for lazy attributes, Entity._db_set_ for fetched rows) passes the object
         as second argument -- without it the Json/array converters hand back a plain dict/list and later in-place changes are
         not tracked.
 BITS    the write bit that marks an attribute as changed is taken from the entity's `_bits_` table, which has a bit for every
         column-backed attribute.  `_bits_except_volatile_` (the table used for READ tracking, where volatile attributes have
         bit 0) must never feed `_wbits_`: a volatile Json/array attribute changed in place would get write bit 0, the object
         would not be queued and the change would never be written.  Checked for every statement in core.py that adds bits to
         an object's _wbits_ (Attribute.__set__, Entity.set, Entity._attr_changed_).
 BITS+   after a write bit is added, under each persistent status (loaded / inserted / updated) every normal path reaches
         objects_to_save.append(obj).
 WRAP+   tracked_method adopts positional and keyword arguments together (reaching definitions at the wrapped call).
"""
NOT_DECIDED = "that the value written at commit equals the in-memory value; aliasing between two attributes"

NON_MUTATORS_LIST = {'copy': 'returns a new list', '__reversed__': 'iterator only', '__class_getitem__': 'typing',
                     '__init__': 'constructor (re-initialising in place is not an API pony exposes)', '__hash__': 'None marker'}
NON_MUTATORS_DICT = {'fromkeys': 'classmethod building a new dict', '__init__': 'constructor', '__class_getitem__': 'typing',
                     '__hash__': 'None marker'}
ITEM_ADDING = ('append', 'extend', 'insert', '__setitem__', '__iadd__')


def reference_sets():
    import operator
    inplace = {n for n in dir(operator) if n.startswith('__i') and ('__' + n[3:]) in dir(operator)}   # __iadd__, __ior__, ...
    lm = ((set(dir(list)) - set(dir(tuple))) | (set(dir(list)) & inplace)) - set(NON_MUTATORS_LIST)
    # MappingProxyType defines __ior__ only to refuse it, so in-place operators are added from the operator module
    dm = ((set(dir(dict)) - set(dir(types.MappingProxyType))) | (set(dir(dict)) & inplace)) - set(NON_MUTATORS_DICT)
    return lm, dm


def find_def(repo, cls, name):
    """first pony class along the MRO defining name -> ('assign', Cls, value) | ('def', Cls, Fn) | None"""
    for k in repo.mro(cls):
        if name in k.methods: return 'def', k, k.methods[name]
        if name in k.attrs: return 'assign', k, k.attrs[name]
    return None


def bits_rule(ctx, P='C28-BITS'):
    # ---------------------------------------------------------------- BITS
    nb = nq = 0
    for fn in ctx.repo.rule_funcs():
        if fn.mod.name != 'pony.orm.core': continue
        stmts = list(walk_no_nested(fn.node))
        carriers = {dotted(a.value) for a in stmts if isinstance(a, ast.Assign) and any(isinstance(t, ast.Attribute) and t.attr == '_wbits_' for t in a.targets)
                    and isinstance(a.value, ast.Name)}
        adds = []
        for a in stmts:
            if isinstance(a, ast.AugAssign) and isinstance(a.op, ast.BitOr) and (
                    (isinstance(a.target, ast.Attribute) and a.target.attr == '_wbits_') or (isinstance(a.target, ast.Name) and a.target.id in carriers)):
                adds.append((a, a.value))
            elif isinstance(a, ast.Assign) and any(isinstance(t, ast.Attribute) and t.attr == '_wbits_' for t in a.targets) and isinstance(a.value, ast.BinOp) \
                    and isinstance(a.value.op, ast.BitOr):
                adds.append((a, a.value.right))
        for a, e in adds:
            nb += 1
            # follow local names back to what they were given (`bits = obj._bits_; ... bits[attr]`, `bit = obj._bits_[attr]`), three levels
            srcs = [e]; seen = set(); frontier = [e]
            for _ in range(3):
                nxt = []
                for v in frontier:
                    for nm in [x.id for x in ast.walk(v) if isinstance(x, ast.Name) and isinstance(x.ctx, ast.Load)]:
                        if nm in seen: continue
                        seen.add(nm)
                        nxt += [x.value for x in stmts if isinstance(x, ast.Assign) and any(dotted(t) == nm for t in x.targets)]
                srcs += nxt; frontier = nxt
            tabs = {y.attr for v in srcs for y in ast.walk(v) if isinstance(y, ast.Attribute) and y.attr.startswith('_bits') or isinstance(y, ast.Attribute) and y.attr.startswith('_all_bits')}
            ok = bool(srcs) and tabs == {'_bits_'}
            ctx.ob(P + '.write-bit-taken-from-the-full-bit-table', fn, a, ok,
                   '' if ok else 'the bit added to _wbits_ here comes from %s: for a volatile attribute that table holds 0, so an in-place change of a volatile Json/array '
                   'value does not mark the object modified and is never written' % (sorted(tabs) or 'an unrecognised source'), node=a, expected='obj._bits_[attr]')
            # ... and the object is then queued for saving whatever persistent status it has: under each scenario status = loaded / inserted / updated
            # (wbits is not None, the bit is not 0) every normal path from here to the exit passes `objects_to_save.append(obj)` -- an object that
            # was already written once in this session ('updated') and is changed again must be written again
            from ..typestate import scenario_edges
            from ..q import value_atom, const_sets, cfg_node_of
            g = ctx.cg.cfg(fn)
            here = cfg_node_of(g, a, fn.node)
            queues = nodes_calling(g, lambda c: isinstance(c.func, ast.Attribute) and c.func.attr == 'append' and 'objects_to_save' in norm(c.func.value))
            if not here or not queues: continue
            subj = None
            for st in stmts:
                if isinstance(st, ast.Assign) and isinstance(st.value, ast.Attribute) and st.value.attr == '_status_' and len(st.targets) == 1 and isinstance(st.targets[0], ast.Name):
                    subj = dotted(st.value)
            if subj is None: continue
            sets = const_sets(fn.mod)
            for val in ('loaded', 'inserted', 'updated'):
                def other(text, node):
                    if 'wbits' in text and text.endswith(' is None'): return False
                    if 'wbits' in text and text.endswith(' is not None'): return True
                    if isinstance(node, ast.Name) and node.id.startswith('bit'): return True
                    return None
                eo = scenario_edges(g, fn.node, value_atom(fn.node, subj, val, sets, other), resolve=False)
                def eo_normal(x, y, lab, eo=eo): return lab != 'exc' and eo(x, y, lab)
                esc = g.reach(here, avoid=queues, edge_ok=eo_normal)
                ok = g.exit.id not in esc
                nq += 1
                ctx.ob(P + '.object-is-queued-after-a-write-bit-from-every-persistent-status', fn, a, ok,
                       '' if ok else 'for an object whose status is %r a write bit is added here but a path reaches the end of %s without `objects_to_save.append(obj)`: the '
                       'change stays in memory, no flush sees it and it is not written at commit' % (val, fn.name), node=a).key += '::' + val
    ctx.floor(P, nb, 3, 'statements adding bits to _wbits_')
    ctx.floor(P, nq, 9, '(write-bit statement, persistent status) pairs')


def run(ctx):
    repo, cg = ctx.repo, ctx.cg
    M = 'pony.orm.ormtypes'
    TD, TL, TA = repo.cls(M, 'TrackedDict'), repo.cls(M, 'TrackedList'), repo.cls(M, 'TrackedArray')
    TV = repo.cls(M, 'TrackedValue')
    lm, dm = reference_sets()
    ctx.need(len(lm) >= 12 and len(dm) >= 8, 'C28: reference mutator sets too small: %s %s' % (sorted(lm), sorted(dm)))
    ctx.count('list mutators (from CPython)', len(lm)); ctx.count('dict mutators (from CPython)', len(dm))
    for cls, builtin, muts in ((TD, 'dict', dm), (TL, 'list', lm), (TA, 'list', lm)):
        ctx.need(builtin in repo.ext_bases(cls), 'C28: %s no longer derives from %s' % (cls.name, builtin))
        for name in sorted(muts):
            d = find_def(repo, cls, name)
            fnkey = '%s::%s' % (cls.mod.rel, cls.qual)
            if d is None:
                ctx.ob('C28-EXH.mutator-is-tracked', fnkey, '%s.%s' % (cls.name, name), False,
                       '%s.%s is inherited from the builtin %s: it changes the stored value without calling _changed_, '
                       'so the owner object is not marked modified' % (cls.name, name, builtin), node=cls.node,
                       expected='%s = tracked_method(%s.%s) or a def reaching _changed_' % (name, builtin, name))
                continue
            kind, k, v = d
            if kind == 'assign':
                ok = isinstance(v, ast.Call) and dotted(v.func) == 'tracked_method' and len(v.args) == 1 \
                    and dotted(v.args[0]) == '%s.%s' % (builtin, name)
                ctx.ob('C28-EXH.mutator-is-tracked', fnkey, '%s.%s' % (cls.name, name), ok,
                       '' if ok else '%s.%s is bound to %s, not tracked_method(%s.%s)' % (k.name, name, norm(v), builtin, name), node=v)
            else:
                ok, why = def_reaches_changed(ctx, cls, v, muts)
                ctx.ob('C28-EXH.mutator-is-tracked', v, '%s.%s' % (cls.name, name), ok, why, node=v.node)
    # ---------------------------------------------------------------- ONLY
    for cls, builtin, muts in ((TD, 'dict', dm), (TL, 'list', lm), (TA, 'list', lm)):
        for name, v in cls.attrs.items():
            if isinstance(v, ast.Call) and dotted(v.func) == 'tracked_method':
                target = dotted(v.args[0]) if v.args else ''
                tname = target.split('.')[-1]
                ok = (name in muts or name.startswith('_') and not name.startswith('__')) and tname in muts
                ctx.ob('C28-ONLY.only-mutators-are-wrapped', '%s::%s' % (cls.mod.rel, cls.qual), '%s = %s' % (name, norm(v)), ok,
                       '' if ok else '%s wraps %s which is not an in-place mutator: reading would mark the object modified' % (name, target), node=v)
    # ---------------------------------------------------------------- WRAP
    tm = repo.fn(M, 'tracked_method')
    nf = tm.nested.get('new_func')
    ctx.need(nf is not None, 'C28: tracked_method.new_func not found')
    g = cg.cfg(nf)
    ch = nodes_calling(g, lambda c: dotted(c.func) == '%s._changed_' % nf.params[0])
    wrapped = nodes_calling(g, lambda c: dotted(c.func) == 'func')
    ok = bool(ch) and bool(wrapped) and g.must_pass_after(g.entry, ch) and all(g.dominated(c, wrapped) for c in ch)
    ctx.ob('C28-WRAP.wrapper-calls-_changed_', nf, nf.node, ok,
           '' if ok else 'tracked_method wrapper can return without self._changed_() after the wrapped call')
    # every container handed to the wrapped mutator is adopted first -- positional *and* keyword arguments, together: with a live owner, non-empty
    # args and non-empty kwargs, whatever reaches `func(self, *args, **kwargs)` was produced by TrackedValue.make (d.update({...}, key=[...]))
    from ..typestate import scenario_edges as _sce
    from ..q import reaching_defs as _rd, value_of_def as _vod
    owner_names = {t.id for st_ in walk_no_nested(nf.node) if isinstance(st_, ast.Assign) and isinstance(st_.value, ast.Call) and isinstance(st_.value.func, ast.Attribute)
                   and st_.value.func.attr == 'obj_ref' for t in st_.targets if isinstance(t, ast.Name)}
    def _given(text, node):
        t_ = text.replace(' ', '')
        if any(t_ == o + 'isNone' for o in owner_names): return False
        if any(t_ == o + 'isnotNone' for o in owner_names): return True
        if isinstance(node, ast.Name) and node.id in (getattr(nf.node.args.vararg, 'arg', None), getattr(nf.node.args.kwarg, 'arg', None)): return True
        return None
    eo_w = _sce(g, nf.node, _given, resolve=False)
    nwr = 0
    make_names = {t.id for st_ in walk_no_nested(nf.node) if isinstance(st_, ast.Assign) and isinstance(st_.value, ast.Attribute) and st_.value.attr == 'make' for t in st_.targets if isinstance(t, ast.Name)}
    for wn in wrapped:
        for c in wn.calls():
            if dotted(c.func) != 'func': continue
            passed = [a.value for a in c.args if isinstance(a, ast.Starred)] + [k.value for k in c.keywords if k.arg is None]
            for e in passed:
                if not isinstance(e, ast.Name): continue
                nwr += 1
                ds = _rd(g, wn, e.id, with_params=True, edge_ok=eo_w)
                bad = [d for d in ds if d is g.entry or _vod(d, e.id) is None or not any(isinstance(k, ast.Call) and (isinstance(k.func, ast.Attribute) and k.func.attr == 'make' or isinstance(k.func, ast.Name) and k.func.id in make_names)
                                                                                         for k in ast.walk(_vod(d, e.id)))]
                ok = bool(ds) and not bad
                ctx.ob('C28-WRAP.wrapper-adopts-positional-and-keyword-arguments', nf, c, ok,
                       '' if ok else 'with a live owner and both positional and keyword arguments given, `%s` reaches the wrapped mutator as it came in (%s): a dict / list passed '
                       'that way is stored untracked, later in-place changes of it are not written' % (e.id, 'parameter' if any(d is g.entry for d in bad) else norm(bad[0].ast)[:60] if bad else 'no definition'),
                       node=wn.ast).key += '::' + e.id
    ctx.floor('C28-WRAP', nwr, 2, 'starred arguments handed to the wrapped mutator')
    rets = [s for s in walk_no_nested(tm.node) if isinstance(s, ast.Return)]
    ok = len(rets) == 1 and dotted(rets[0].value) == 'new_func'
    ctx.ob('C28-WRAP.decorator-returns-wrapper', tm, rets[0] if rets else tm.node, ok, '' if ok else 'tracked_method does not return new_func')
    chg = repo.fn(M, 'TrackedValue._changed_')
    g = cg.cfg(chg)
    fw = nodes_calling(g, lambda c: isinstance(c.func, ast.Attribute) and c.func.attr == '_attr_changed_')
    # with a live owner (`obj is None` false, whatever way the test is written) no normal return is reachable without the forwarding call
    from ..typestate import eval_test
    def alive_atom(text, node):
        t_ = text.replace(' ', '')
        if t_ == 'objisNone': return False
        if t_ == 'objisnotNone': return True
        return None
    def alive_edge(x, y, lab):
        n_ = g.nodes[x]
        if n_.kind != 'test' or lab not in ('T', 'F'): return True
        v = eval_test(n_.ast, alive_atom)
        return v is None or v == (lab == 'T')
    rr = g.reach([g.entry], avoid=fw, edge_ok=alive_edge)
    ok = bool(fw) and g.exit.id not in rr
    ctx.ob('C28-WRAP._changed_-forwards', chg, fw[0].ast if fw else chg.node, ok,
           '' if ok else '_changed_ can return without obj._attr_changed_(attr) although the owner is alive')
    ac = repo.fn('pony.orm.core', 'Entity._attr_changed_')
    g = cg.cfg(ac)
    # write bit added (|= or `= wbits | bit`), status set to 'modified', object queued: for an object that is loaded/inserted/updated (status not
    # 'modified', wbits not None, bit non-zero) every path to a normal return passes all three
    def adds_wbit(n):
        a = n.ast
        if n.kind != 'stmt': return False
        if isinstance(a, ast.AugAssign) and dotted(a.target) == '%s._wbits_' % ac.recv and isinstance(a.op, ast.BitOr): return True
        return isinstance(a, ast.Assign) and any(dotted(t) == '%s._wbits_' % ac.recv for t in a.targets) and isinstance(a.value, ast.BinOp) and isinstance(a.value.op, ast.BitOr)
    wb = [n for n in g.nodes if adds_wbit(n)]
    ap = nodes_calling(g, lambda c: isinstance(c.func, ast.Attribute) and c.func.attr == 'append' and 'objects_to_save' in norm(c.func.value))
    st = [n for n in g.nodes if n.kind == 'stmt' and isinstance(n.ast, ast.Assign) and any(dotted(t) == '%s._status_' % ac.recv for t in n.ast.targets)
          and norm(n.ast.value) == "'modified'"]
    from ..typestate import eval_test as _ev
    from ..q import alias_map
    am_ac = alias_map(ac.node)
    st_names = {'%s._status_' % ac.recv} | {n_ for n_, src in am_ac.items() if src == '%s._status_' % ac.recv}
    wb_names = {'%s._wbits_' % ac.recv} | {n_ for n_, src in am_ac.items() if src == '%s._wbits_' % ac.recv}
    def scen_atom(text, node):
        t_ = text
        for sn in st_names:
            if t_ == sn + " != 'modified'": return True
            if t_ == sn + " == 'modified'": return False
            if t_.startswith(sn + ' in del_statuses'): return False
            if t_.startswith(sn + ' in ('): return True            # the assert on ('loaded', 'inserted', 'updated')
        for wn in wb_names:
            if t_ == wn + ' is None': return False
            if t_ == wn + ' is not None': return True
        if t_ == 'bit': return True
        if '.is_alive' in t_ or t_.endswith(' is None') and 'cache' in t_: return None
        return None
    def scen_edge(x, y, lab):
        n_ = g.nodes[x]
        if n_.kind != 'test' or lab not in ('T', 'F'): return True
        v = _ev(n_.ast, scen_atom)
        return v is None or v == (lab == 'T')
    ok = bool(wb) and bool(ap) and bool(st)
    if ok:
        for need in (wb, st, ap):
            if g.exit.id in g.reach([g.entry], avoid=need, edge_ok=scen_edge): ok = False
    ctx.ob('C28-WRAP._attr_changed_-marks-and-queues', ac, wb[0].ast if wb else ac.node, ok,
           '' if ok else '_attr_changed_ does not set the write bit / status / save queue')
    # ... and for an object that is *already* queued as modified (through another attribute) the write bit of this attribute is still added: the
    # in-place change has happened, without the bit the column is left out of the UPDATE.  Scenario status == 'modified'.
    from ..q import value_atom as _va, const_sets as _cs
    subj_ = '%s._status_' % ac.recv
    def other_(text, node):
        if any(text == wn + ' is None' for wn in wb_names): return False
        if any(text == wn + ' is not None' for wn in wb_names): return True
        if isinstance(node, ast.Name) and node.id.startswith('bit'): return True
        return None
    from ..typestate import scenario_edges as _se2
    eo_m = _se2(g, ac.node, _va(ac.node, subj_, 'modified', _cs(ac.mod), other_), resolve=True)
    okm = bool(wb) and g.exit.id not in g.reach([g.entry], avoid=wb, edge_ok=lambda x, y, lab: lab != 'exc' and eo_m(x, y, lab))
    ctx.ob('C28-WRAP._attr_changed_-adds-the-write-bit-for-an-object-that-is-modified-already', ac, wb[0].ast if wb else ac.node, okm,
           '' if okm else 'for an object whose status is already \'modified\' _attr_changed_ can return without adding the attribute\'s write bit: an in-place change of a Json / array '
           'value made after another attribute was assigned is left out of the UPDATE')
    # ---------------------------------------------------------------- STORE
    # whatever Entity._db_set_ stores as the Python-side value of a non-relation attribute came out of the converter's dbval2val(.., obj) -- on a
    # load and on unpickling alike.  A value stored as it arrived (tracked containers pickle as plain dict / list) is not tracked: in-place
    # changes of it never reach _attr_changed_.
    from ..q import reaching_defs as _rdf, value_of_def as _vof
    ds_ = repo.fn('pony.orm.core', 'Entity._db_set_'); gd_ = cg.cfg(ds_)
    uses = [x for x in gd_.nodes if x.kind == 'iter' and any(isinstance(n_, ast.Name) and n_.id == 'new_vals' for n_ in ast.walk(x.ast.iter))]
    uses += [x for x in gd_.nodes if x.kind == 'stmt' and x.ast is not None and any(isinstance(c.func, ast.Attribute) and c.func.attr == 'update' and c.args and dotted(c.args[0]) == 'new_vals' for c in x.calls())]
    ctx.need(uses, 'C28-STORE: the places where Entity._db_set_ consumes new_vals were not found')
    nst = 0
    for u in uses:
        for d in _rdf(gd_, u, 'new_vals'):
            v = _vof(d, 'new_vals')
            nst += 1
            ok = v is not None and any(isinstance(c, ast.Call) and isinstance(c.func, ast.Attribute) and c.func.attr == 'dbval2val' and len(c.args) >= 2 for c in ast.walk(v))
            ctx.ob('C28-STORE.values-stored-by-_db_set_-come-out-of-the-converter', ds_, d.ast, ok,
                   '' if ok else '`%s`: values reach obj._vals_ as they arrived, without dbval2val(.., obj): an unpickled Json / array value is a plain dict / list, in-place changes of it '
                   'are not tracked and are lost at commit' % norm(d.ast)[:70], node=d.ast).key += '::%d' % nst
    ctx.floor('C28-STORE', nst, 2, 'definitions of the values _db_set_ stores')
    # ---------------------------------------------------------------- OWNER
    # a value that is already tracked may be handed back unchanged only if it is tracked for *this* object and attribute:
    # all instances of an entity share the attribute object, so an attr-only test keeps the value bound to another owner
    n_owner = 0
    for f in [repo.fn(M, 'TrackedValue.make'), repo.fn('pony.orm.dbapiprovider', 'JsonConverter.validate'),
              repo.fn('pony.orm.dbapiprovider', 'ArrayConverter.validate')]:
        g = cg.cfg(f)
        for rn in [x for x in g.nodes if x.kind == 'stmt' and isinstance(x.ast, ast.Return) and isinstance(x.ast.value, ast.Name)]:
            v = rn.ast.value.id
            if v not in f.params: continue
            full = {t.id for t in g.nodes if t.kind == 'test' and ('%s.obj_ref() is' % v) in norm(t.ast) and ('%s.attr is' % v) in norm(t.ast)}
            noowner = {t.id for t in g.nodes if t.kind == 'test' and ' is None' in norm(t.ast) and 'obj' in norm(t.ast)}
            cont = {t.id for t in g.nodes if t.kind == 'test' and norm(t.ast) in ('isinstance(%s, dict)' % v, 'isinstance(%s, list)' % v)}
            # paths to this return that (a) did not pass the full owner test's true edge, (b) did not establish "no owner",
            r1 = g.reach([g.entry], edge_ok=lambda x, y, lab: not ((x in full or x in noowner) and lab == 'T'))
            if rn.id not in r1:
                n_owner += 1
                ctx.ob('C28-OWNER.tracked-value-reused-only-for-same-owner', f, rn.ast, True, node=rn.ast); continue
            # (c) ... must have excluded containers: both isinstance(dict) and isinstance(list) left through F
            p = g.path(g.entry, rn, edge_ok=lambda x, y, lab: not ((x in full or x in noowner) and lab == 'T') and not (x in cont and lab == 'T'))
            tests_on = [n for n in (p or []) if n.id in cont]
            ok = p is not None and len({norm(n.ast) for n in tests_on}) == 2 and not any(
                n.kind == 'test' and 'TrackedValue' in norm(n.ast) for n in p)
            n_owner += 1
            ctx.ob('C28-OWNER.tracked-value-reused-only-for-same-owner', f, rn.ast, ok,
                   '' if ok else '`return %s` hands back a value that may already be tracked for another object (the test on this path '
                   'does not compare both %s.obj_ref() and %s.attr)' % (v, v, v), node=rn.ast)
    ctx.floor('C28-OWNER', n_owner, 4, 'returns of the incoming value in make/validate')
    # ---------------------------------------------------------------- ARRAY
    vi = repo.fn(M, 'validate_item')
    for name in ITEM_ADDING:
        if name not in lm: continue
        f = TA.methods.get(name)
        if f is None:
            base = find_def(repo, TA, name)
            ctx.ob('C28-ARRAY.validating-override', '%s::%s' % (TA.mod.rel, TA.qual), 'TrackedArray.%s' % name, base is None and False,
                   'TrackedArray inherits %s without item validation' % name, node=TA.node,
                   expected='def %s(...) calling validate_item then the tracked parent method' % name)
            continue
        def validates(fn, depth=0):
            for c in calls_in(fn.node):
                if norm(c.func) == 'validate_item': return True
                if depth < 2 and isinstance(c.func, ast.Attribute) and dotted(c.func.value) == fn.params[0] \
                        and c.func.attr in TA.methods and TA.methods[c.func.attr] is not fn \
                        and validates(TA.methods[c.func.attr], depth + 1): return True
            return False
        ok = validates(f)
        ok2, why = def_reaches_changed(ctx, TA, f, lm)
        ctx.ob('C28-ARRAY.validating-override', f, 'TrackedArray.%s' % name, ok and ok2,
               '' if ok and ok2 else ('no validate_item call' if not ok else why), node=f.node)
    # ---------------------------------------------------------------- CONV
    P = 'pony.orm.dbapiprovider'
    n = 0
    for qual in ('JsonConverter.validate', 'JsonConverter.dbval2val', 'ArrayConverter.validate', 'ArrayConverter.dbval2val'):
        f = repo.fn(P, qual)
        g = cg.cfg(f)
        objp = f.params[2] if len(f.params) > 2 else 'obj'
        valp = f.params[1]
        # scenario: an owner is given (and the converter belongs to an attribute), the incoming value is a container that is not tracked yet
        # (no scalar, not NULL): every path to a normal return passes the wrapping call for this owner
        from ..typestate import scenario_edges
        recv = f.params[0]
        def cv_atom(text, node, objp=objp, valp=valp, recv=recv):
            if text in (objp + ' is None', recv + '.attr is None', valp + ' is None'): return False
            if text in (objp + ' is not None', recv + '.attr is not None', valp + ' is not None'): return True
            if isinstance(node, ast.Call) and dotted(node.func) == 'isinstance' and len(node.args) == 2 and dotted(node.args[0]) == valp:
                what = norm(node.args[1])
                if 'TrackedValue' in what: return False            # not tracked yet
                if what.startswith('(') and 'int' in what: return False          # not a scalar
            return None
        eo = scenario_edges(g, f.node, cv_atom, resolve=False)
        wraps = [x for x in g.nodes if x.kind == 'stmt' and x.ast is not None and any(
            dotted(c.func) in ('TrackedValue.make', 'TrackedArray', 'TrackedList', 'TrackedDict') and c.args and dotted(c.args[0]) == objp for c in x.calls())]
        n += 1
        ok = bool(wraps) and g.must_pass_after(g.entry, wraps, exits=[g.exit], edge_ok=eo)
        ctx.ob('C28-CONV.returns-tracked-when-owner-given', f, wraps[0].ast if wraps else f.node, ok,
               '' if ok else '%s can return an untracked container although an owner object is given: in-place changes of it are lost' % qual)
    ctx.floor('C28-CONV', n, 4, 'Json/Array converter functions that hand values to an owner')
    # ---------------------------------------------------------------- OWNERARG
    nown = 0
    for fn in ctx.repo.rule_funcs():
        if fn.mod.name != 'pony.orm.core': continue
        for c in calls_in(fn.node):
            if not (isinstance(c.func, ast.Attribute) and c.func.attr == 'dbval2val'): continue
            nown += 1
            ok = len(c.args) >= 2 or any(k.arg == 'obj' for k in c.keywords)
            if ok:
                a = c.args[1] if len(c.args) >= 2 else [k.value for k in c.keywords if k.arg == 'obj'][0]
                ok = not (isinstance(a, ast.Constant) and a.value is None)
            ctx.ob('C28-OWNERARG.database-value-converted-with-its-owner', fn, c, ok,
                   '' if ok else '%s converts a database value with `%s`, without the owner object: for Json/array attributes the session gets a plain container and in-place '
                   'changes made to it are never written' % (fn.qual, norm(c)), node=c, expected='converter.dbval2val(dbval, obj)')
    ctx.floor('C28-OWNERARG', nown, 2, 'dbval2val call sites in core.py')
    bits_rule(ctx)
    # ---------------------------------------------------------------- LOADWRAP
    # a Json / array value loaded from the database for an object (obj given) is handed out wrapped, whatever it contains: an empty {} or []
    # loaded untracked can be filled in place without the session noticing.  Scenario: obj is not None, the stored value is a container
    # (not a scalar, not NULL) -- every return passes TrackedValue.make(...) / TrackedArray(...).
    from ..typestate import scenario_edges
    nlw = 0
    for cls in repo.subclasses(repo.cls('pony.orm.dbapiprovider', 'Converter')):
        f = cls.methods.get('dbval2val')
        if f is None or cls.name not in ('JsonConverter', 'ArrayConverter') and not any(k.name in ('JsonConverter', 'ArrayConverter') for k in repo.mro(cls)): continue
        g = cg.cfg(f); dbv, ob_ = f.params[1], f.params[2]
        decoded = any(dotted(c.func) in ('json.loads', 'loads') and c.args and dotted(c.args[0]) == dbv for c in calls_in(f.node))
        def lw_atom(text, node, dbv=dbv, ob_=ob_, decoded=decoded):
            if text == ob_ + ' is None': return False
            if text == ob_ + ' is not None': return True
            if text == dbv + ' is None': return False
            if text == dbv + ' is not None': return True
            if text == dbv and decoded: return True      # the stored form is JSON text (decoded below) and present; what it decodes to is left open
            if isinstance(node, ast.Call) and dotted(node.func) == 'isinstance' and dotted(node.args[0]) == dbv: return False      # not a scalar
            return None
        eo = scenario_edges(g, f.node, lw_atom, resolve=False)
        wraps = [x for x in g.nodes if x.kind == 'stmt' and x.ast is not None and any(dotted(c.func) in ('TrackedValue.make', 'TrackedArray', 'TrackedDict', 'TrackedList') for c in x.calls())]
        nlw += 1
        ok = bool(wraps) and g.must_pass_after(g.entry, wraps, exits=[g.exit], edge_ok=eo)
        ctx.ob('C28-LOADWRAP.loaded-container-is-tracked-whatever-it-holds', f, wraps[0].ast if wraps else f.node, ok,
               '' if ok else '%s.dbval2val can return a container loaded for an object without wrapping it (e.g. when it is empty): in-place changes of that value never '
               'reach _attr_changed_ and are not written' % cls.name)
    ctx.floor('C28-LOADWRAP', nlw, 2, 'dbval2val functions of Json/array converters')
    # TrackedDict.update normalises its positional arguments to dicts before handing them to the tracked _update (which wraps nested containers through
    # __setitem__ / make): the normalising expression is evaluated (q.concrete_eval) on sample arguments -- a dict, a list of pairs, a tuple of pairs -- and must
    # give a dict each time.  A list of (key, value) tuples passed through as it is would be wrapped as a TrackedList of tuples, its nested values untracked.
    from ..q import concrete_eval, Unknown
    up = TD.methods.get('update')
    ctx.need(up is not None, 'C28: TrackedDict.update not found')
    comps = [c for c in ast.walk(up.node) if isinstance(c, (ast.ListComp, ast.GeneratorExp)) and len(c.generators) == 1 and isinstance(c.generators[0].target, ast.Name)]
    ctx.need(comps, 'C28: TrackedDict.update no longer normalises its arguments in a comprehension')
    for c in comps[:1]:
        var = c.generators[0].target.id
        wrong = []
        for sample in ({'k': {'n': 1}}, [('k', {'n': 1})], (('k', [1]),)):
            try: out = concrete_eval(c.elt, {var: sample})
            except Unknown: out = Unknown
            if not isinstance(out, dict): wrong.append('%s -> %s' % (type(sample).__name__, 'unreadable' if out is Unknown else type(out).__name__))
        ctx.ob('C28-WRAP.update-arguments-become-dicts', up, c, not wrong,
               '' if not wrong else 'TrackedDict.update hands a non-dict argument on unchanged (%s): the values of a list of (key, value) pairs enter the document as plain containers '
               'and later in-place changes of them are lost' % ', '.join(wrong), node=c)


def def_reaches_changed(ctx, cls, f, muts):
    """a def-style mutator must, on every normal path, call a tracked sibling (self.<m>() / Parent.<m>(self, ..)) or _changed_"""
    repo, cg = ctx.repo, ctx.cg
    g = cg.cfg(f)
    me = f.params[0]
    def good(c):
        fn = c.func
        if not isinstance(fn, ast.Attribute): return False
        if fn.attr == '_changed_' and dotted(fn.value) == me: return True
        # self.m(...) where m resolves to a tracked definition
        if dotted(fn.value) == me:
            d = find_def(repo, cls, fn.attr)
        elif isinstance(fn.value, ast.Name) and c.args and dotted(c.args[0]) == me:
            r = repo.resolve_name(f.mod, fn.value.id)
            d = find_def(repo, r[1], fn.attr) if r and r[0] == 'class' else None
        else: return False
        if d is None: return False
        kind, k, v = d
        if kind == 'assign': return isinstance(v, ast.Call) and dotted(v.func) == 'tracked_method'
        if v is f: return False
        return def_reaches_changed(ctx, k, v, muts)[0]
    nodes = nodes_calling(g, good)
    if not nodes: return False, '%s.%s never reaches a tracked method or _changed_' % (cls.name, f.name)
    if not g.must_pass_after(g.entry, nodes): return False, '%s.%s can return without reaching _changed_' % (cls.name, f.name)
    return True, ''


MUTANTS = [
    dict(id='C28-lw', file='pony/orm/dbapiprovider.py', fn='ArrayConverter.dbval2val', old="        if obj is None or dbval is None:\n            return dbval", new="        if obj is None or not dbval:\n            return dbval", expect='C28-LOADWRAP'),
    dict(id='C28-oa1', file='pony/orm/core.py', fn='Attribute.db_set', old="attr.converters[0].dbval2val(new_dbval, obj)", new="attr.converters[0].dbval2val(new_dbval)", expect='C28-OWNERARG'),
    dict(id='C28-kw1', file='pony/orm/ormtypes.py', fn='tracked_method', old="            if kwargs: kwargs =", new="            if kwargs and not args: kwargs =", expect='C28-WRAP.wrapper-adopts'),
    dict(id='C28-kw2', file='pony/orm/ormtypes.py', fn='tracked_method', old="            if kwargs: kwargs = {key: TrackedValue.make(obj, attr, value) for key, value in kwargs.items()}", new="            kwargs = {key: TrackedValue.make(obj, attr, value) for key, value in kwargs.items()}", benign=True),
    dict(id='C28-store1', file='pony/orm/core.py', fn='Entity._db_set_', old="            new_vals = {attr: attr.converters[0].dbval2val(new_dbvals[attr], obj) if not attr.reverse else val\n                              for attr, val in avdict.items()}\n        else:", new="            new_vals = avdict\n        else:", expect='C28-STORE'),
    dict(id='C28-mod1', file='pony/orm/core.py', fn='Entity._attr_changed_', old="            obj._wbits_ |= bit\n            if status != 'modified':\n                assert status in ('loaded', 'inserted', 'updated')\n                assert obj._save_pos_ is None\n                obj._status_ = 'modified'\n",
         new="            if status != 'modified':\n                assert status in ('loaded', 'inserted', 'updated')\n                assert obj._save_pos_ is None\n                obj._status_ = 'modified'\n                obj._wbits_ = wbits | bit\n", expect='C28-WRAP._attr_changed_-adds'),
    dict(id='C28-q1', file='pony/orm/core.py', fn='Entity._attr_changed_', old="            if status != 'modified':\n                assert status in ('loaded', 'inserted', 'updated')\n", new="            if status in ('loaded', 'inserted'):\n", expect='C28-BITS.object-is-queued'),
    dict(id='C28-q2', file='pony/orm/core.py', fn='Attribute.__set__', old="                if status != 'modified':\n                    assert status in ('loaded', 'inserted', 'updated')\n", new="                if status == 'loaded' or status == 'updated':\n", expect='C28-BITS.object-is-queued'),
    dict(id='C28-q3', file='pony/orm/core.py', fn='Entity._attr_changed_', old="            if status != 'modified':\n                assert status in ('loaded', 'inserted', 'updated')\n", new="            if status in ('loaded', 'inserted', 'updated'):\n", benign=True),
    dict(id='C28-b1', file='pony/orm/core.py', fn='Entity._attr_changed_', old="        bit = obj._bits_[attr]", new="        bit = obj._bits_except_volatile_[attr]", expect='C28-BITS'),
    dict(id='C28-m1', file='pony/orm/ormtypes.py', old='    popitem = tracked_method(dict.popitem)\n', new='', expect='TrackedDict.popitem'),
    dict(id='C28-m2', file='pony/orm/ormtypes.py', old='    sort = tracked_method(list.sort)\n', new='', expect='TrackedList.sort'),
    dict(id='C28-m3', file='pony/orm/ormtypes.py', old='    reverse = tracked_method(list.reverse)', new='    reverse = list.reverse', expect='TrackedList.reverse'),
    dict(id='C28-m4', file='pony/orm/ormtypes.py', fn='tracked_method', old='        self._changed_()\n', new='', expect='C28-WRAP.wrapper'),
    dict(id='C28-m5', file='pony/orm/ormtypes.py', fn='TrackedArray.append', old='TrackedList.append(self, item)', new='list.append(self, item)', expect='TrackedArray.append'),
    dict(id='C28-m6', file='pony/orm/ormtypes.py', fn='TrackedDict.update', old='return self._update(*args, **kwargs)', new='return dict.update(self, *args, **kwargs)', expect='TrackedDict.update'),
    dict(id='C28-m7', file='pony/orm/dbapiprovider.py', fn='ArrayConverter.dbval2val', old='return TrackedArray(obj, converter.attr, dbval)', new='return list(dbval)', expect='C28-CONV'),
    dict(id='C28-m8', file='pony/orm/dbapiprovider.py', fn='JsonConverter.dbval2val', old='return TrackedValue.make(obj, converter.attr, val)', new='return val', expect='C28-CONV'),
    dict(id='C28-m9', file='pony/orm/ormtypes.py', old='    clear = tracked_method(dict.clear)\n', new='    clear = tracked_method(dict.clear)\n    get = tracked_method(dict.get)\n', expect='C28-ONLY'),
    dict(id='C28-m10', file='pony/orm/core.py', fn='Entity._attr_changed_', old='                objects_to_save.append(obj)\n', new='', expect='C28-WRAP._attr_changed_'),
    dict(id='C28-m11', file='pony/orm/ormtypes.py', fn='TrackedArray.insert', old='        item = validate_item(self.item_type, item)\n        TrackedList.insert', new='        TrackedList.insert', expect='C28-ARRAY'),
    dict(id='C28-m13', file='pony/orm/ormtypes.py', fn='TrackedValue.make',
         old='        if isinstance(value, dict):', new='        if isinstance(value, TrackedValue) and value.attr is attr:\n            return value\n        if isinstance(value, dict):',
         expect='C28-OWNER'),
    dict(id='C28-m14', file='pony/orm/dbapiprovider.py', fn='JsonConverter.validate',
         old='if isinstance(val, TrackedValue) and val.obj_ref() is obj and val.attr is converter.attr:', new='if isinstance(val, TrackedValue) and val.attr is converter.attr:',
         expect='C28-OWNER'),
    dict(id='C28-m12', file='pony/orm/ormtypes.py', fn='TrackedValue._changed_', old='obj._attr_changed_(self.attr)', new='pass', expect='C28-WRAP._changed_'),
]
