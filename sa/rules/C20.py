"""C20  Optimistic concurrency control prevents lost updates."""
import ast
from ..loader import dotted, walk_no_nested, norm, head, calls_in, names_in
from ..q import reaching_defs, value_of_def, nodes_calling

EXPLANATION = """
Static clauses decided (necessary conditions of C20):
 READ    Attribute.__get__ records the read bit unless that attribute itself was written: the statement
         `obj._rbits_ |= bit` is guarded by `wbits is not None and not (wbits & bit)` -- a *bitwise* test of this
         attribute's bit taken from _bits_except_volatile_ (a boolean `wbits and bit` would stop recording reads as soon as
         any attribute has a pending write).  Set.copy and EntityMeta._set_rbits use the same bitwise form.
 CRIT    _construct_optimistic_criteria_ ranges over the attributes whose read bit is set (_attrs_with_bit_(..., _rbits_)),
         skips exactly those whose `attr.optimistic` (or converter default) is false, and compares with the value read
         (_dbvals_), using IS_NULL for None.
 FLOW    in _save_updated_ the criteria reach the statement: on the optimistic path optimistic_columns/ops flow into
         populate_criteria_list(where_list, ...), where_list into the UPDATE ast, optimistic_values into the bound values,
         and both into the SQL cache key; the only exemption is `not optimistic session or obj in cache.for_update`.
 CHECK   after executing the UPDATE, `cursor.rowcount == 0` in an optimistic session throws OptimisticCheckError.
 ABORT   "the later session fails with an error and commits none of its changes": the module-level commit() flushes every database of the
         session (that is where OptimisticCheckError is raised) before it commits any (rules shared with C17-ABORT).
 LOCKSET (round 8, shared with C35) the exemption `obj in cache.for_update` stands for "the object was locked for update"; the row lock ends
         with the transaction, so every normal path through a SessionCache method that calls provider.commit empties the set -- whatever
         `cache.modified` / `cache.in_transaction` are.  A set that survives an intermediate commit() lets a later UPDATE of the same session
         go out without the optimistic WHERE criteria although another session may have changed the row in between: a lost update.
 OWNBITS the bit recorded for an attribute of object X is looked up in X's OWN bit table (X._bits_except_volatile_ -- per
         concrete class): attributes declared in a subclass have no bit in the base entity's table, so a mask computed from the
         entity a query iterates over silently drops them, and a value the session selected on is left out of the optimistic
         check.  Checked for every statement in core.py that adds bits to `<X>._rbits_`.
"""
# an attribute value can only be checked at UPDATE time if its read was recorded: the clauses of C21 about recording observations (plain access, collections,
# serialising readers such as to_dict(), read marks that only grow) are necessary conditions of C20 as well
INCLUDES = ('C21',)

NOT_DECIDED = "interleavings; what the database does with the WHERE clause; deletes (pony performs no optimistic check on DELETE)"

CORE = 'pony.orm.core'


def is_bitwise_guard(test, wvar, bitvar):
    """`<w> is not None and not (<w> & <bit>)`  or  `not <w> & <bit>` -> True if the conjunct testing the bit is bitwise"""
    conj = test.values if isinstance(test, ast.BoolOp) and isinstance(test.op, ast.And) else [test]
    for c in conj:
        if isinstance(c, ast.UnaryOp) and isinstance(c.op, ast.Not):
            o = c.operand
            if isinstance(o, ast.BinOp) and isinstance(o.op, ast.BitAnd) and {norm(o.left), norm(o.right)} == {wvar, bitvar}: return True
    return False


def ownbits_rule(ctx, P='C20-OWNBITS'):
    repo = ctx.repo
    # ---------------------------------------------------------------- OWNBITS
    nown = nwb = 0
    for fn in repo.rule_funcs():
        if fn.mod.name != 'pony.orm.core': continue
        stmts = list(walk_no_nested(fn.node))
        for a in stmts:
            if not (isinstance(a, ast.AugAssign) and isinstance(a.op, ast.BitOr) and isinstance(a.target, ast.Attribute) and a.target.attr == '_rbits_'): continue
            owner = norm(a.target.value)
            # follow local names back to the definitions that reach this statement (a local such as `bit` may be bound more than once)
            g_ = ctx.cg.cfg(fn)
            at = [x for x in g_.nodes if x.kind == 'stmt' and x.ast is a]
            exprs = [a.value]
            if at:
                work = [(a.value, at[0], 0)]; seen = set()
                while work:
                    e, where, depth = work.pop()
                    if depth >= 3: continue
                    for nm in [x.id for x in ast.walk(e) if isinstance(x, ast.Name)]:
                        for d in reaching_defs(g_, where, nm):
                            if (d.id, nm) in seen: continue
                            seen.add((d.id, nm))
                            v = value_of_def(d, nm)
                            if v is not None: exprs.append(v); work.append((v, d, depth + 1))
            recvs = {norm(y.value) for e in exprs for y in ast.walk(e) if isinstance(y, ast.Attribute) and y.attr in ('_bits_except_volatile_', '_bits_', '_all_bits_except_volatile_')}
            if not recvs: continue      # bits copied from the object's own _wbits_ etc.
            nown += 1
            ok = recvs <= {owner, owner + '.__class__'}
            ctx.ob(P + '.read-bit-from-the-objects-own-table', fn, a, ok,
                   '' if ok else 'the bits added to %s._rbits_ are computed from the bit table of %s, not of %s: attributes declared in a subclass have no bit there, '
                   'their reads are not recorded and they are left out of the optimistic check' % (owner, sorted(recvs - {owner}), owner), node=a,
                   expected='%s._bits_except_volatile_' % owner)
            # ... and the test that suppresses the mark ("this session wrote the attribute itself": `not W & bit`) looks at the write bits of the
            # same object -- bit numbers of two entities are unrelated, another object's write bits answer a different question
            from ..loader import parents as _parents
            pm_ = _parents(fn.node)
            y = a
            while y in pm_ and y is not fn.node:
                p_ = pm_[y]
                if isinstance(p_, (ast.If, ast.IfExp)) and y is not p_.test and (y in getattr(p_, 'body', []) or y is getattr(p_, 'body', None)):
                    for bo in [x for x in ast.walk(p_.test) if isinstance(x, ast.BinOp) and isinstance(x.op, ast.BitAnd)]:
                        for side in (bo.left, bo.right):
                            srcs = None
                            if isinstance(side, ast.Attribute) and side.attr == '_wbits_': srcs = {norm(side.value)}
                            elif isinstance(side, ast.Name):
                                tn = [x for x in g_.nodes if x.kind == 'test' and any(z is side for z in x.walk())]
                                if tn:
                                    vals = [value_of_def(d, side.id) for d in reaching_defs(g_, tn[0], side.id)]
                                    if vals and all(v is not None and isinstance(v, ast.Attribute) and v.attr == '_wbits_' for v in vals): srcs = {norm(v.value) for v in vals}
                            if srcs is None: continue
                            nwb += 1
                            okw = srcs == {owner}
                            ctx.ob(P + '.written-by-this-session-is-asked-of-the-same-object', fn, a, okw,
                                   '' if okw else 'the read mark on %s is suppressed by the write bits of %s: whether the read is recorded depends on an unrelated pending change '
                                   'of another object, and an attribute that was read can be left out of the optimistic / repeatable-read check' % (owner, sorted(srcs)), node=p_.test).key += '::' + owner
                y = p_
    ctx.floor(P, nown, 4, 'statements adding bits to _rbits_')
    ctx.floor(P, nwb, 3, 'write-bit guards of read marks')


def run(ctx):
    repo, cg = ctx.repo, ctx.cg
    # ---------------------------------------------------------------- READ
    n = 0
    for fn in repo.rule_funcs():
        if fn.mod.name != CORE: continue
        for st in walk_no_nested(fn.node):
            if isinstance(st, ast.AugAssign) and isinstance(st.op, ast.BitOr) and isinstance(st.target, ast.Attribute) and st.target.attr == '_rbits_':
                bitvar = norm(st.value)
                if not isinstance(st.value, ast.Name): continue
                # bit must come from _bits_except_volatile_ (volatile attributes are never checked)
                defs = [s for s in walk_no_nested(fn.node) if isinstance(s, ast.Assign) and any(dotted(t) == bitvar for t in s.targets)]
                src_ok = bool(defs) and all('_bits_except_volatile_' in norm(s.value) for s in defs)
                # governing test
                gov = None
                for s in walk_no_nested(fn.node):
                    if isinstance(s, ast.If) and st in s.body: gov = s
                if gov is None: continue
                n += 1
                owner = norm(st.target.value)
                cands = [wv for wv in (owner + '._wbits_', 'wbits') if is_bitwise_guard(gov.test, wv, bitvar)]
                ok = bool(cands) and src_ok
                ctx.ob('C20-READ.read-bit-recorded-unless-this-attribute-was-written', fn, gov, ok,
                       '' if ok else ('the read bit is recorded under `%s`, which is not the bitwise test `not (wbits & %s)` of this attribute\'s own bit%s: '
                                      'once any attribute of the object has a pending write, later reads of other attributes are no longer recorded and '
                                      'are left out of the optimistic WHERE clause' % (norm(gov.test), bitvar, '' if src_ok else ' (bit not taken from _bits_except_volatile_)')),
                       node=gov, expected='if wbits is not None and not wbits & bit: obj._rbits_ |= bit')
    ctx.floor('C20-READ', n, 2, 'sites recording a read bit')
    ownbits_rule(ctx)
    # ---------------------------------------------------------------- ABORT (shared with C17): a failed check commits nothing, in any database of the session
    from . import C17
    C17.global_commit_rules(ctx, P='C20-ABORT')
    C17.abort_rules(ctx, P='C20-ABORT')
    # ---------------------------------------------------------------- LOCKSET (shared with C35): the exemption `obj in cache.for_update` is the clause
    # 'unless the object was locked for update'; the lock ends with the transaction, so the set is emptied on every normal path through a commit
    from . import C35
    C35.lockset_commit_rule(ctx, P='C20-LOCKSET')
    # ---------------------------------------------------------------- CRIT
    cc = repo.fn(CORE, 'Entity._construct_optimistic_criteria_')
    loops = [s for s in walk_no_nested(cc.node) if isinstance(s, ast.For)]
    ok = len(loops) == 1 and '_attrs_with_bit_' in norm(loops[0].iter) and norm(loops[0].iter).endswith('%s._rbits_)' % cc.recv)
    ctx.ob('C20-CRIT.ranges-over-read-attributes', cc, loops[0] if loops else cc.node, ok, '' if ok else 'optimistic criteria are not built from the attributes with a read bit')
    txt = [norm(s) for s in walk_no_nested(cc.node) if isinstance(s, ast.stmt)]
    # the flag that skips an attribute: attr.optimistic when it is given, the converter's default otherwise (evaluated for both cases)
    from ..typestate import eval_test
    def flag_under(given):
        env = {}
        def atom(text, node):
            t = text.replace(' ', '')
            if t == 'attr.optimisticisNone': return not given
            if t == 'attr.optimisticisnotNone': return given
            return None
        def run(stmts):
            for st in stmts:
                if isinstance(st, ast.Assign) and len(st.targets) == 1 and isinstance(st.targets[0], ast.Name): env[st.targets[0].id] = norm(st.value)
                elif isinstance(st, ast.If):
                    v = eval_test(st.test, atom)
                    if v is True: run(st.body)
                    elif v is False: run(st.orelse)
        run(loops[0].body if loops else [])
        return env
    skips = [st for st in (loops[0].body if loops else []) if isinstance(st, ast.If) and any(isinstance(x, ast.Continue) for x in st.body) and isinstance(st.test, ast.UnaryOp)
             and isinstance(st.test.op, ast.Not) and isinstance(st.test.operand, ast.Name)]
    ok = len(skips) == 1
    if ok:
        flag = skips[0].test.operand.id
        ok = flag_under(True).get(flag) == 'attr.optimistic' and flag_under(False).get(flag) in ('converters[0].optimistic', 'attr.converters[0].optimistic')
    ok = any(t == 'dbval = %s._dbvals_[attr]' % cc.recv for t in txt) and any("'IS_NULL' if dbval is None else" in t for t in txt)
    ctx.ob('C20-CRIT.compares-with-value-read', cc, cc.node, ok, '' if ok else 'criteria do not compare with obj._dbvals_[attr] / NULL handled without IS_NULL')
    # ---------------------------------------------------------------- FLOW
    su = repo.fn(CORE, 'Entity._save_updated_')
    g = cg.cfg(su)
    callc = nodes_calling(g, lambda c: isinstance(c.func, ast.Attribute) and c.func.attr == '_construct_optimistic_criteria_')
    ctx.need(callc, 'C20: _save_updated_ no longer calls _construct_optimistic_criteria_')
    # the optimistic criteria are built exactly when (no db_session or an optimistic one) and the object is not locked: for each of the 2x2x2
    # combinations of the three atoms the call of _construct_optimistic_criteria_ is reachable iff that holds -- decided on the CFG with
    # three-valued tests and local flags/aliases resolved, so the shape of the branch (if/else order, De Morgan, hoisted locals) does not matter
    from ..typestate import eval_test, resolve_flags
    from ..q import alias_map
    am_su = alias_map(su.node)
    sess_names = {'cache.db_session'} | {n_ for n_, src_ in am_su.items() if src_ == 'cache.db_session'}
    ok = True; witness = ''
    for none_ in (True, False):
        for opt in (True, False):
            for locked in (True, False):
                def atom(text, node, none_=none_, opt=opt, locked=locked):
                    x = text.replace(' ', '')
                    for sn in sess_names:
                        if x == sn + 'isNone': return none_
                        if x == sn + 'isnotNone': return not none_
                        if x == sn + '.optimistic': return opt
                    if x == '%snotincache.for_update' % su.recv: return not locked
                    if x == '%sincache.for_update' % su.recv: return locked
                    return None
                def eo(x, y, lab):
                    n_ = g.nodes[x]
                    if n_.kind != 'test' or lab not in ('T', 'F'): return True
                    v = eval_test(resolve_flags(su.node, n_.ast), atom)
                    return v is None or v == (lab == 'T')
                got = callc[0].id in g.reach([g.entry], edge_ok=eo)
                want = (none_ or opt) and not locked
                if got is not want:
                    ok = False; witness = 'db_session %s, optimistic=%s, object %s: criteria %s' % ('absent' if none_ else 'present', opt, 'locked' if locked else 'not locked', 'built' if got else 'skipped')
    gov = callc[0].ast
    ctx.ob('C20-FLOW.exemption-is-exactly-nonoptimistic-or-locked', su, '_construct_optimistic_criteria_ call', ok,
           '' if ok else 'the optimistic criteria are not built exactly for optimistic sessions and unlocked objects (%s)' % witness, node=gov,
           expected='if optimistic_session and obj not in cache.for_update')
    src = norm(callc[0].ast)
    names = [x.id for x in ast.walk(callc[0].ast.targets[0]) if isinstance(x, ast.Name)] if isinstance(callc[0].ast, ast.Assign) else []
    ctx.need(len(names) == 4, 'C20: unexpected unpacking of the optimistic criteria: %s' % src)
    ops, cols, convs, vals = names
    body_txt = norm(su.node, limit=100000)
    uses = {
        'values reach the bound arguments': any(isinstance(c.func, ast.Attribute) and c.func.attr == 'extend' and dotted(c.func.value) == 'values'
                                                and c.args and dotted(c.args[0]) == vals for c in calls_in(su.node)),
        'columns and operations reach the WHERE list': any(dotted(c.func) == 'populate_criteria_list' and len(c.args) >= 4 and dotted(c.args[0]) == 'where_list'
                                                          and dotted(c.args[1]) == cols and dotted(c.args[3]) == ops for c in calls_in(su.node)),
        'WHERE list is part of the UPDATE ast': any(isinstance(s, ast.Assign) and isinstance(s.value, ast.List) and s.value.elts and isinstance(s.value.elts[0], ast.Constant)
                                                    and s.value.elts[0].value == 'UPDATE' and any(dotted(e) == 'where_list' for e in s.value.elts) for s in walk_no_nested(su.node)),
        'criteria are part of the SQL cache key': any(isinstance(s, ast.Assign) and any(dotted(x) == 'query_key' for x in s.targets) and cols in names_in(s.value) and ops in names_in(s.value)
                                                      for s in walk_no_nested(su.node)),
        'adapter receives the values': any(dotted(c.func) == 'adapter' and c.args and dotted(c.args[0]) == 'values' for c in calls_in(su.node)),
    }
    for what, ok in uses.items():
        ctx.ob('C20-FLOW.criteria-reach-the-statement', su, what, ok, '' if ok else 'in _save_updated_: not true that ' + what)
    # ---------------------------------------------------------------- CHECK
    ex = nodes_calling(g, lambda c: isinstance(c.func, ast.Attribute) and c.func.attr == '_exec_sql')
    rc = [x for x in g.nodes if x.kind == 'test' and 'cursor.rowcount == 0' in norm(x.ast)]
    ok = bool(ex) and bool(rc)
    if ok:
        ok = all(g.must_pass_after(e, rc, exits=[g.exit]) for e in ex)
        for x in rc:
            ts = [y for y, lab in g.succ[x.id] if lab == 'T']
            thr = [n2 for n2 in g.nodes if n2.kind == 'stmt' and isinstance(n2.ast, ast.Expr) and isinstance(n2.ast.value, ast.Call) and dotted(n2.ast.value.func) == 'throw'
                   and n2.ast.value.args and dotted(n2.ast.value.args[0]) == 'OptimisticCheckError']
            if not thr or g.exit.id in g.reach(ts): ok = False
            from ..q import resolve_attr_aliases as _rn
            t_ = _rn(su.node, x.ast)                      # `db_session = cache.db_session` read into a local reads like the attribute
            conj = [norm(v) for v in t_.values] if isinstance(t_, ast.BoolOp) else [norm(t_)]
            conj0 = [norm(v) for v in x.ast.values] if isinstance(x.ast, ast.BoolOp) else [norm(x.ast)]
            want = sorted(['cursor.rowcount == 0', 'cache.db_session.optimistic'])
            if sorted(conj) != want and sorted(conj0) != want: ok = False
    ctx.ob('C20-CHECK.zero-rows-updated-raises', su, rc[0].stmt if rc else su.node, ok,
           '' if ok else 'an UPDATE that matched no row in an optimistic session does not raise OptimisticCheckError on every path')

    # ---------------------------------------------------------------- EXCLUDED
    # "unless the attribute is excluded from optimistic checks": besides the two options a user can write (optimistic=False, volatile=True) the only
    # source of an exclusion is the converter's class-level `optimistic` flag.  The set of converter classes that say False is a closed table with a
    # reason each; no other class sets the flag to False, and none computes it per instance (an attribute would drop out of the check silently).
    NON_OPTIMISTIC = {'RealConverter': 'float columns: the value read back differs from the value sent in the last bits on some databases, `col = ?` would never match',
                      'OraJsonConverter': 'CLOBs cannot be compared with strings in Oracle'}
    nconv = 0
    base = repo.cls('pony.orm.dbapiprovider', 'Converter')
    for cls_ in [base] + list(repo.subclasses(base, strict=True)):
        nconv += 1
        v = cls_.attrs.get('optimistic')
        if v is not None:
            is_false = isinstance(v, ast.Constant) and v.value is False
            is_true = isinstance(v, ast.Constant) and v.value is True
            ok = is_true or (is_false and cls_.name in NON_OPTIMISTIC)
            if is_false and cls_.name in NON_OPTIMISTIC: ctx.exception('C20-EXCLUDED', cls_.name, NON_OPTIMISTIC[cls_.name])
            ctx.ob('C20-EXCLUDED.converter-level-exclusions-are-the-listed-ones', '%s::%s' % (cls_.mod.rel, cls_.qual), '%s.optimistic = %s' % (cls_.name, norm(v)), ok,
                   '' if ok else 'converter class %s sets optimistic = %s: attributes of that type silently drop out of the optimistic check although the user excluded nothing'
                   % (cls_.name, norm(v)), node=v)
        for m_ in cls_.methods.values():
            for st in ast.walk(m_.node):
                if isinstance(st, (ast.Assign, ast.AugAssign)):
                    tg = st.targets if isinstance(st, ast.Assign) else [st.target]
                    for t in tg:
                        for t_ in ast.walk(t):
                            if isinstance(t_, ast.Attribute) and t_.attr == 'optimistic' and isinstance(t_.ctx, ast.Store):
                                ctx.ob('C20-EXCLUDED.converter-level-exclusions-are-the-listed-ones', m_, st, False,
                                       '%s.%s assigns `%s`: the exclusion of an attribute from the optimistic check is computed per converter instance; an attribute '
                                       'the user did not exclude can drop out of the check (e.g. every FloatArray)' % (cls_.name, m_.name, norm(st)[:70]), node=st)
    ctx.floor('C20-EXCLUDED', nconv, 20, 'converter classes examined')


MUTANTS = [
    dict(id='C20-l1', file='pony/orm/core.py', fn='SessionCache.commit', old='            cache.for_update.clear()\n', new='            if cache.in_transaction: cache.for_update.clear()\n', expect='C20-LOCKSET.emptied-on-every-path-through-commit'),
    dict(id='C20-wb1', file='pony/orm/core.py', fn='Attribute.__get__', old="            wbits = value._wbits_\n", new="", expect='C20-OWNBITS.written-by-this-session'),
    dict(id='C20-excl1', file='pony/orm/dbapiprovider.py', fn='ArrayConverter.__init__', old="        converter.item_converter = converter.array_types[converter.py_type.item_type][1]", new="        converter.item_converter = item_converter = converter.array_types[converter.py_type.item_type][1]\n        converter.optimistic = item_converter.optimistic", expect='C20-EXCLUDED'),
    dict(id='C20-excl2', file='pony/orm/dbapiprovider.py', fn=None, old="class JsonConverter(Converter):\n", new="class JsonConverter(Converter):\n    optimistic = False\n", expect='C20-EXCLUDED'),
    dict(id='C20-o1', file='pony/orm/core.py', fn='EntityMeta._set_rbits', old="rbits = builtins.sum(obj._bits_except_volatile_.get(attr, 0) for attr in attrs)", new="rbits = builtins.sum(entity._bits_except_volatile_.get(attr, 0) for attr in attrs)", expect='C20-OWNBITS'),
    dict(id='C20-m1', file='pony/orm/core.py', fn='Attribute.__get__', old='if wbits is not None and not wbits & bit: obj._rbits_ |= bit', new='if wbits is not None and not (wbits and bit): obj._rbits_ |= bit', expect='C20-READ'),
    dict(id='C20-m2', file='pony/orm/core.py', fn='Attribute.__get__', old='bit = obj._bits_except_volatile_[attr]', new='bit = obj._bits_[attr]', expect='C20-READ'),
    dict(id='C20-m3', file='pony/orm/core.py', fn='Entity._save_updated_', old='            if optimistic_session and obj not in cache.for_update:', new='            if optimistic_session and not cache.for_update:', expect='C20-FLOW.exemption'),
    dict(id='C20-m4', file='pony/orm/core.py', fn='Entity._save_updated_', old='                values.extend(optimistic_values)\n', new='', expect='C20-FLOW.criteria'),
    dict(id='C20-m5', file='pony/orm/core.py', fn='Entity._save_updated_', old='            if cursor.rowcount == 0 and cache.db_session.optimistic:', new='            if cursor.rowcount == 0 and cache.db_session.optimistic and False:', expect='C20-CHECK'),
    dict(id='C20-m6', file='pony/orm/core.py', fn='Entity._construct_optimistic_criteria_', old='obj._attrs_with_bit_(obj._attrs_with_columns_, obj._rbits_)', new='obj._attrs_with_bit_(obj._attrs_with_columns_, obj._wbits_)', expect='C20-CRIT.ranges'),
    dict(id='C20-m7', file='pony/orm/core.py', fn='Entity._construct_optimistic_criteria_', old='            dbval = obj._dbvals_[attr]', new='            dbval = obj._vals_[attr]', expect='C20-CRIT.compares'),
    dict(id='C20-m8', file='pony/orm/core.py', fn='Attribute.__get__', old='if wbits is not None and not wbits & bit: obj._rbits_ |= bit', new='if wbits is not None and not (bit & wbits): obj._rbits_ |= bit', benign=True),
]
