"""C15  Deletion honours cascade rules and leaves no dangling references."""
import ast
from ..loader import dotted, walk_no_nested, norm, head, calls_in
from ..q import nodes_calling
from . import C13

EXPLANATION = """
Static clauses decided (necessary conditions of C15):
 TABLE   the case analysis of Entity._delete_ (and of Attribute.update_reverse for a replaced one-to-one partner) is total
         and agrees with the documented decision table, evaluated symbolically for every combination of
         (cascade_delete, reverse required): cascade -> recursive _delete_; not cascade and not required -> unlink (__set__
         to None / empty); not cascade and required -> throw(ConstraintError); no combination falls through silently;
         unsupported relationship kinds end in throw(NotImplementedError).
 DDL     the ON DELETE clause chosen in Database.generate_mapping agrees with the same table: reverse.cascade_delete ->
         CASCADE; Optional and nullable -> SET NULL; otherwise none (the database itself refuses); many-to-many link tables
         -> CASCADE.
 ATOMIC  a refused delete changes nothing: all clauses of the undo protocol (C13) hold for Entity._delete_ (closure
         registered before the first failure point, nested-call flag is the None-ness of the list, every mutation covered,
         reverse replay).
 LOAD    the cascade ranges over the COMPLETE collection, not over the items that happen to be cached: the loop of
         Entity._delete_ that deletes the dependents of a Set attribute iterates the SetInstance wrapper obtained from
         attr.__get__(obj) (iteration loads the collection) and never the raw cached SetData (obj._vals_[attr]); dependents
         that were not loaded yet would otherwise be skipped together with their own refuse/cascade rules.
 FKON    every SQLite connection switches foreign-key enforcement on when it is opened (condition: library version only).
 FKSTATE a ddl session switches the database's foreign-key enforcement off and the provider's release() switches it back on iff the
         state it saved was "on".  A session may begin several transactions (commit() in the middle): the saved state must be
         recorded once per session -- the store `cache.saved_fk_state = bool(fk)` in set_transaction_mode is guarded by a test of
         the saved state (or combines with it); an unconditional store records "off" on the second transaction, enforcement is
         never restored on that connection, and later bulk deletes leave dangling references (SQLite and MySQL providers).
 BULK    Query.delete(bulk=False) deletes through obj._delete_() (cascade rules apply); the bulk branch is an explicit
         opt-in parameter defaulting to None/False.
 POS     as C13-POS (the undo of a refused delete puts the object back into slot 0 as into any other slot).
"""
NOT_DECIDED = "recursion with pending changes on the dependents; bulk deletes versus session state (documented as bypassing the session)"

CORE = 'pony.orm.core'


def chains_with(fn_node, needle):
    """top-most if/elif chains whose tests mention `needle` -> list of [(test or None, body), ...]"""
    out = []
    seen = set()
    for s in walk_no_nested(fn_node):
        if isinstance(s, ast.If) and id(s) not in seen:
            chain = []; cur = s
            while True:
                seen.add(id(cur)); chain.append((cur.test, cur.body))
                if len(cur.orelse) == 1 and isinstance(cur.orelse[0], ast.If): cur = cur.orelse[0]
                else:
                    chain.append((None, cur.orelse)); break
            if any(t is not None and needle in norm(t) for t, _ in chain): out.append(chain)
    return out


def ev(test, env):
    """three-valued evaluation with atoms from env (substring match on attribute tails)"""
    if isinstance(test, ast.BoolOp):
        vals = [ev(v, env) for v in test.values]
        if isinstance(test.op, ast.And):
            if any(v is False for v in vals): return False
            return True if all(v is True for v in vals) else None
        if any(v is True for v in vals): return True
        return False if all(v is False for v in vals) else None
    if isinstance(test, ast.UnaryOp) and isinstance(test.op, ast.Not):
        v = ev(test.operand, env); return None if v is None else not v
    t = norm(test)
    for k, v in env.items():
        if t.endswith(k): return v
    return None


def classify(body):
    txt = ' ; '.join(norm(s) for s in body)
    calls = [c for s in body for c in calls_in(s)]
    if any(isinstance(c.func, ast.Attribute) and c.func.attr == '_delete_' for c in calls): return 'cascade'
    if any(dotted(c.func) == 'throw' and c.args and dotted(c.args[0]) == 'ConstraintError' for c in calls): return 'refuse'
    if any(dotted(c.func) == 'throw' and c.args and dotted(c.args[0]) == 'NotImplementedError' for c in calls): return 'unsupported'
    if any(isinstance(c.func, ast.Attribute) and c.func.attr in ('__set__', 'reverse_remove') for c in calls): return 'unlink'
    if not body or all(isinstance(s, (ast.Pass, ast.Continue)) for s in body): return 'skip'
    return 'other: ' + txt[:60]


EXPECT = {(True, True): 'cascade', (True, False): 'cascade', (False, False): 'unlink', (False, True): 'refuse'}


def run(ctx):
    repo, cg = ctx.repo, ctx.cg
    n = 0
    for qual in ('Entity._delete_', 'Attribute.update_reverse'):
        f = repo.fn(CORE, qual)
        for chain in chains_with(f.node, 'cascade_delete'):
            for (casc, req), want in EXPECT.items():
                env = {'cascade_delete': casc, 'is_required': req}
                taken = None
                for test, body in chain:
                    v = True if test is None else ev(test, env)
                    if v is None: v = False          # guards such as "collection is empty" / "value is None": assume a dependent exists
                    if v: taken = body; break
                got = classify(taken or [])
                n += 1
                ob = ctx.ob('C15-TABLE.cascade-decision', f, chain[0][0], got == want,
                            '' if got == want else 'for cascade_delete=%s, reverse required=%s the branch taken does `%s`, the decision table says `%s`'
                            % (casc, req, got, want), node=chain[0][0], expected=want)
                ob.key += '::cascade=%s,required=%s' % (casc, req)
        # unsupported kinds raise
    ctx.floor('C15-TABLE', n, 12, 'decision-table cells (3 chains x 4 combinations)')
    d = repo.fn(CORE, 'Entity._delete_')
    ni = [s for s in walk_no_nested(d.node) if isinstance(s, ast.If) and s.orelse and not (len(s.orelse) == 1 and isinstance(s.orelse[0], ast.If))
          and 'isinstance' in norm(s.test) and 'Set' in norm(s.test)]
    for s in ni:
        ok = classify(s.orelse) == 'unsupported'
        ctx.ob('C15-TABLE.unsupported-kind-raises', d, s, ok, '' if ok else 'a relationship kind other than Set falls through silently', node=s)

    # ---------------------------------------------------------------- DDL
    gm = repo.fn(CORE, 'Database.generate_mapping')
    chains = [c for c in chains_with(gm.node, 'cascade_delete') if any('on_delete' in norm(s) for _, b in c for s in b)]
    ctx.need(len(chains) == 1, 'C15-DDL: expected one ON DELETE decision chain in generate_mapping, found %d' % len(chains))
    def on_delete_of(body):
        for s in body:
            if isinstance(s, ast.Assign) and any(dotted(t) == 'on_delete' for t in s.targets) and isinstance(s.value, ast.Constant): return s.value.value
        return 'UNSET'
    for casc, optional, want in ((True, True, 'CASCADE'), (True, False, 'CASCADE'), (False, True, 'SET NULL'), (False, False, None)):
        env = {'reverse.cascade_delete': casc, 'isinstance(attr, Optional)': optional, 'nullable': optional}
        taken = None
        for test, body in chains[0]:
            v = True if test is None else ev(test, env)
            if v is None: v = False
            if v: taken = body; break
        got = on_delete_of(taken or [])
        ob = ctx.ob('C15-DDL.on-delete-agrees-with-cascade-table', gm, chains[0][0][0], got == want,
                    '' if got == want else 'for reverse.cascade_delete=%s, optional nullable FK=%s the schema gets ON DELETE %s, the in-memory rule '
                    'corresponds to %s' % (casc, optional, got, want), node=chains[0][0][0])
        ob.key += '::cascade=%s,optional=%s' % (casc, optional)
    m2m = [s for s in walk_no_nested(gm.node) if isinstance(s, ast.Assign) and any(dotted(t) == 'on_delete' for t in s.targets)
           and isinstance(s.value, ast.Constant) and not any(s in b for _, b in chains[0])]
    ok = bool(m2m) and all(s.value.value == 'CASCADE' for s in m2m)
    ctx.ob('C15-DDL.m2m-links-cascade', gm, m2m[0] if m2m else gm.node, ok, '' if ok else 'link-table foreign keys are not ON DELETE CASCADE')
    # the chosen value reaches add_foreign_key
    afk = [c for c in calls_in(gm.node) if isinstance(c.func, ast.Attribute) and c.func.attr == 'add_foreign_key']
    ok = bool(afk) and all(any(dotted(a) == 'on_delete' for a in list(c.args) + [k.value for k in c.keywords]) for c in afk)
    ctx.ob('C15-DDL.on-delete-passed-to-schema', gm, afk[0] if afk else gm.node, ok, '' if ok else 'add_foreign_key is called without the on_delete decision')

    # ---------------------------------------------------------------- ATOMIC
    C13.check_function(ctx, d, False, prefix='C15-ATOMIC')
    C13.position_rule(ctx, 'C15-POS')
    from .C16 import m2m_rule
    m2m_rule(ctx, 'C15-M2M')          # the link rows of a deleted object are removed by the same flush: no dangling rows in a link table without a database-side cascade
    hs = [s for s in walk_no_nested(d.node) if isinstance(s, ast.For) and isinstance(s.target, ast.Name) and s.target.id == 'undo_func']
    ok = bool(hs) and all(norm(s.iter) == 'reversed(undo_funcs)' for s in hs)
    ctx.ob('C15-ATOMIC.refused-delete-replays-undo-in-reverse', d, hs[0] if hs else d.node, ok, '' if ok else 'the refusal handler of _delete_ does not replay reversed(undo_funcs)')

    # ---------------------------------------------------------------- LOAD
    nl = 0
    for lp in [x for x in walk_no_nested(d.node) if isinstance(x, ast.For) and isinstance(x.target, ast.Name)]:
        tv = lp.target.id
        if not any(isinstance(c.func, ast.Attribute) and c.func.attr == '_delete_' and dotted(c.func.value) == tv for b in lp.body for c in calls_in(b)): continue
        nl += 1
        it = lp.iter; src = norm(it)
        defs = []
        if isinstance(it, ast.Name):
            defs = [norm(a.value) for a in walk_no_nested(d.node) if isinstance(a, ast.Assign) and any(dotted(t) == it.id for t in a.targets)]
        ok = '_vals_' not in src and 'setdata' not in src.lower() and bool(defs) and all(('.__get__(' in v or '.load(' in v or '.copy(' in v) and '_vals_' not in v for v in defs)
        ctx.ob('C15-LOAD.cascade-iterates-the-loaded-collection', d, lp.iter, ok,
               '' if ok else 'the cascade loop iterates `%s`%s: only the dependents already cached in the session are deleted (and checked against their own '
               'rules); rows not loaded yet are skipped' % (src, (' = ' + ' / '.join(defs)) if defs else ''), node=lp, expected='iterate attr.__get__(obj) (loads the collection)')
    ctx.floor('C15-LOAD', nl, 1, 'cascade loops over collections')
    # ---------------------------------------------------------------- FKSTATE
    nfk = 0
    for modname, q in (('pony.orm.dbproviders.sqlite', 'SQLiteProvider'), ('pony.orm.dbproviders.mysql', 'MySQLProvider')):
        stm = repo.fn(modname, q + '.set_transaction_mode'); rel = repo.fn(modname, q + '.release')
        par_ = {}
        for x in ast.walk(stm.node):
            for ch in ast.iter_child_nodes(x): par_[id(ch)] = x
        stores = [a for a in walk_no_nested(stm.node) if isinstance(a, ast.Assign) and any((dotted(t) or '').endswith('.saved_fk_state') for t in a.targets)]
        ctx.need(bool(stores), 'C15-FKSTATE: %s.set_transaction_mode no longer records saved_fk_state' % q)
        for a in stores:
            nfk += 1
            guarded = 'saved_fk_state' in norm(a.value)
            x = a
            while id(x) in par_ and not guarded:
                x = par_[id(x)]
                if isinstance(x, ast.If) and 'saved_fk_state' in norm(x.test): guarded = True
            ctx.ob('C15-FKSTATE.saved-state-recorded-once-per-session', stm, a, guarded,
                   '' if guarded else 'the foreign-key state is overwritten on every transaction start: the second transaction of a ddl session (after commit()) reads '
                   '"off" -- its own doing -- and records that; release() then never re-enables enforcement on this connection', node=a,
                   expected='if cache.saved_fk_state is None: cache.saved_fk_state = bool(fk)')
        restores = [t for t in walk_no_nested(rel.node) if isinstance(t, ast.If) and 'saved_fk_state' in norm(t.test)]
        ok = bool(restores) and any(isinstance(c_, ast.Constant) and isinstance(c_.value, str) and ('foreign_keys = true' in c_.value or 'foreign_key_checks = 1' in c_.value)
                                    for r in restores for c_ in ast.walk(r))
        ctx.ob('C15-FKSTATE.release-restores-enforcement', rel, restores[0].test if restores else rel.node, ok, '' if ok else '%s.release does not switch foreign-key enforcement back on' % q)
    ctx.floor('C15-FKSTATE', nfk, 2, 'stores of saved_fk_state')
    # ---------------------------------------------------------------- BULK
    qd = repo.fn(CORE, 'Query.delete')
    g = cg.cfg(qd)
    nb = [t for t in g.nodes if t.kind == 'test' and norm(t.ast) == 'not bulk']
    dl = nodes_calling(g, lambda c: isinstance(c.func, ast.Attribute) and c.func.attr == '_delete_')
    ok = bool(nb) and bool(dl)
    if ok:
        ts = [y for t in nb for y, lab in g.succ[t.id] if lab == 'T']
        ex = nodes_calling(g, lambda c: isinstance(c.func, ast.Attribute) and c.func.attr == '_exec_sql')
        r = g.reach(ts)
        ok = all(x.id in r for x in dl) and not any(x.id in r for x in ex)
    dflt = qd.node.args.defaults
    ok = ok and 'bulk' in qd.params and dflt and isinstance(dflt[-1], ast.Constant) and not dflt[-1].value
    ctx.ob('C15-BULK.default-delete-goes-through-cascade-rules', qd, nb[0].stmt if nb else qd.node, ok,
           '' if ok else 'Query.delete() without bulk=True does not delete object by object through _delete_()')
    # ---------------------------------------------------------------- FKON
    # "a committed database never contains a reference to a deleted row, including rows deleted by bulk query deletes": for bulk deletes that is the
    # DATABASE's job, so every SQLite connection pony opens switches foreign-key enforcement on.  In SQLitePool._connect the PRAGMA is executed on
    # every path that created a connection; the only condition allowed is the library version (a module-level fact) -- never per-pool /
    # per-thread state (the pool object is thread-local: an attribute set on it by the binding thread does not exist in other threads)
    pcn = repo.fn('pony.orm.dbproviders.sqlite', 'SQLitePool._connect'); g = cg.cfg(pcn)
    prag = [x for x in g.nodes if x.ast is not None and x.kind == 'stmt' and any(isinstance(c_, ast.Constant) and isinstance(c_.value, str) and 'foreign_keys = true' in c_.value.lower() for c_ in x.walk())]
    ctx.need(bool(prag), 'C15-FKON: PRAGMA foreign_keys = true not found in SQLitePool._connect')
    conn = [x for x in g.nodes if x.kind == 'stmt' and isinstance(x.ast, ast.Assign) and 'sqlite.connect(' in norm(x.ast.value)]
    vtests = {t.id for t in g.nodes if t.kind == 'test' and 'sqlite_version' in norm(t.ast) and not any(isinstance(a, ast.Name) and a.id == pcn.recv for a in t.walk())}
    ok = bool(conn) and all(g.must_pass_after(cn_, prag, exits=[g.exit], edge_ok=lambda x, y, lab: not (x in vtests and lab == 'F')) for cn_ in conn)
    ctx.ob('C15-FKON.every-sqlite-connection-enforces-foreign-keys', pcn, prag[0].ast, ok,
           '' if ok else 'SQLitePool._connect can return a new connection without `PRAGMA foreign_keys = true` (the pragma is guarded by something other than the sqlite library '
           'version, e.g. per-pool state that other threads do not see): bulk deletes through such a connection leave dangling references', node=prag[0].ast)
    # ---------------------------------------------------------------- LINKS
    # when an object is deleted its links are taken from the session's current values (obj._vals_): the test "is this attribute loaded?" and the
    # read it guards must look at the same mapping.  Testing _dbvals_ (values as last seen in the database) and reading _vals_ skips every link
    # that was only made in this session: the deleted object stays in its parent's collection.
    dl = repo.fn(CORE, 'Entity._delete_'); g = cg.cfg(dl)
    MAPS = ('_vals_', '_dbvals_')
    getters = {}
    for s_ in walk_no_nested(dl.node):
        if isinstance(s_, ast.Assign) and len(s_.targets) == 1 and isinstance(s_.targets[0], ast.Name) and isinstance(s_.value, ast.Attribute) and s_.value.attr == 'get' \
                and (dotted(s_.value.value) or '').endswith(MAPS):
            getters[s_.targets[0].id] = dotted(s_.value.value)
    def reads(node):
        out = []
        for x in ast.walk(node):
            if isinstance(x, ast.Call) and isinstance(x.func, ast.Name) and x.func.id in getters and x.args and isinstance(x.args[0], ast.Name): out.append((getters[x.func.id], x.args[0].id))
            elif isinstance(x, ast.Call) and isinstance(x.func, ast.Attribute) and x.func.attr == 'get' and (dotted(x.func.value) or '').endswith(MAPS) and x.args and isinstance(x.args[0], ast.Name):
                out.append((dotted(x.func.value), x.args[0].id))
            elif isinstance(x, ast.Subscript) and isinstance(x.ctx, ast.Load) and (dotted(x.value) or '').endswith(MAPS) and isinstance(x.slice, ast.Name): out.append((dotted(x.value), x.slice.id))
        return out
    nlinks = 0
    for t in g.nodes:
        if t.kind != 'test': continue
        for cmp_ in [x for x in ast.walk(t.ast) if isinstance(x, ast.Compare) and len(x.ops) == 1 and isinstance(x.ops[0], (ast.In, ast.NotIn))]:
            m = dotted(cmp_.comparators[0]) or ''
            if not (m.endswith(MAPS) and isinstance(cmp_.left, ast.Name)): continue
            key = cmp_.left.id
            member = 'T' if isinstance(cmp_.ops[0], ast.In) else 'F'
            starts = [y for y, lab in g.succ[t.id] if lab == member]
            other = [y for y, lab in g.succ[t.id] if lab in ('T', 'F') and lab != member]
            region = g.reach(starts, avoid=[t]) - g.reach(other, avoid=[t])          # reached only when the key is present
            for i in sorted(region):
                n_ = g.nodes[i]
                if n_.ast is None or n_.kind not in ('stmt', 'test'): continue
                root = n_.ast if n_.kind == 'test' else n_.ast
                if isinstance(root, (ast.FunctionDef, ast.For, ast.While, ast.If, ast.Try, ast.With)): continue
                for m2, k2 in reads(root):
                    if k2 != key: continue
                    nlinks += 1
                    ok = m2 == m
                    ctx.ob('C15-LINKS.presence-test-and-read-use-the-same-mapping', dl, n_.ast, ok,
                           '' if ok else 'the link is read from %s[%s] but whether it exists is decided by `%s`: a link made in this session (present in _vals_, '
                           'absent from _dbvals_) is skipped and the deleted object stays referenced by its partner' % (m2, k2, norm(cmp_)), node=n_.ast)
    # ... and nothing in _delete_ takes a link from the database-side copy
    dbreads = [n_ for n_ in g.nodes if n_.ast is not None and n_.kind in ('stmt', 'test') and not isinstance(n_.ast, (ast.FunctionDef, ast.For, ast.While, ast.If, ast.Try, ast.With))
               and any(m2.endswith('_dbvals_') for m2, k2 in reads(n_.ast))]
    ctx.ob('C15-LINKS.links-are-read-from-the-session-values', dl, dbreads[0].ast if dbreads else dl.node, not dbreads,
           '' if not dbreads else '_delete_ reads a link from _dbvals_ (the value last seen in the database): links made or changed in this session are missed',
           node=dbreads[0].ast if dbreads else None)
    ctx.floor('C15-LINKS', nlinks, 1, 'guarded reads of the deleted object\'s links')
    from . import C26 as _C26
    _C26.ddl_rules(ctx, 'C15-DDL', which=('ondelete',))


MUTANTS = [
    dict(id='C15-pos1', file='pony/orm/core.py', fn='Entity._delete_', old="                    if save_pos is not None:\n                        assert objects_to_save[save_pos] is None", new="                    if save_pos:\n                        assert objects_to_save[save_pos] is None", expect='C15-POS'),
    dict(id='C15-pos2', file='pony/orm/core.py', fn='Entity._delete_', old="                    if save_pos is not None:\n                        assert objects_to_save[save_pos] is None", new="                    if not (save_pos is None):\n                        assert objects_to_save[save_pos] is None", benign=True),
    dict(id='C15-links1', file='pony/orm/core.py', fn='Entity._delete_', old="                            val = get_val(attr) if attr in obj._vals_ else attr.load(obj)", new="                            val = get_val(attr) if attr in obj._dbvals_ else attr.load(obj)", expect='C15-LINKS'),
    dict(id='C15-fo1', file='pony/orm/dbproviders/sqlite.py', fn='SQLitePool._connect', old="        if sqlite.sqlite_version_info >= (3, 6, 19):", new="        if getattr(pool, 'fk_support', False):", expect='C15-FKON'),
    dict(id='C15-f1', file='pony/orm/dbproviders/sqlite.py', fn='SQLiteProvider.set_transaction_mode', old="                if cache.saved_fk_state is None:  # keep the state saved by an earlier transaction of this session\n                    cache.saved_fk_state = bool(fk)", new="                cache.saved_fk_state = bool(fk)", expect='C15-FKSTATE'),
    dict(id='C15-l1', file='pony/orm/core.py', fn='Entity._delete_', old="for robj in set_wrapper: robj._delete_(undo_funcs)", new="for robj in list(obj._vals_[attr]): robj._delete_(undo_funcs)", expect='C15-LOAD'),
    dict(id='C15-m1', file='pony/orm/core.py', fn='Entity._delete_', old="                        elif not attr.reverse.is_required: attr.__set__(obj, (), undo_funcs)", new="                        elif attr.reverse.is_required: attr.__set__(obj, (), undo_funcs)", expect='C15-TABLE'),
    dict(id='C15-m2', file='pony/orm/core.py', fn='Entity._delete_', old="                            elif not reverse.is_required: reverse.__set__(val, None, undo_funcs)\n                            else: throw(ConstraintError,",
         new="                            elif not reverse.is_required: reverse.__set__(val, None, undo_funcs)\n                            elif False: throw(ConstraintError,", expect='C15-TABLE'),
    dict(id='C15-m3', file='pony/orm/core.py', fn='Database.generate_mapping', old="                        on_delete = 'SET NULL'", new="                        on_delete = 'CASCADE'", expect='C15-DDL'),
    dict(id='C15-m4', file='pony/orm/core.py', fn='Database.generate_mapping', old="                    if attr.reverse.cascade_delete:\n                        on_delete = 'CASCADE'", new="                    if attr.cascade_delete:\n                        on_delete = 'CASCADE'", expect='C15-DDL'),
    dict(id='C15-m5', file='pony/orm/core.py', fn='Entity._delete_', old='        if not is_recursive_call: undo_funcs = []', new='        undo_funcs = undo_funcs or []', expect='C15-ATOMIC'),
    dict(id='C15-m6', file='pony/orm/core.py', fn='Attribute.update_reverse', old="                if attr.cascade_delete: old_val._delete_(undo_funcs)\n                elif reverse.is_required: throw(ConstraintError,",
         new="                if attr.cascade_delete: old_val._delete_(undo_funcs)\n                elif reverse.is_required and False: throw(ConstraintError,", expect='C15-TABLE'),
    dict(id='C15-m7', file='pony/orm/core.py', fn='Query.delete', old='        if not bulk:', new='        if bulk is False:', expect='C15-BULK'),
]
