"""C10  Lookups and queries inside a session see the session's own unflushed changes."""
import ast
from ..loader import dotted, walk_no_nested, parents, norm, head, calls_in
from ..q import classify_attr_uses, cfg_node_of, is_call_to, nodes_calling

EXPLANATION = """
Static clauses decided (necessary conditions of C10, not the behaviour itself):
 A  every read of the per-session query result cache (SessionCache.query_results) is dominated, in the CFG of
    the reading function, by a call of prepare_connection_for_query_execution() on the same cache variable
    (that call auto-flushes, and flush clears the result cache) -- otherwise a query repeated after an unflushed
    change is answered from a stale entry.  Stores into the cache must be dominated by the same call or by
    Database._exec_sql (which makes it).
 B  every session-side membership mutation of a collection's SetData is paired, in the same statement list, with
    the adjustment of its cached `count` (so len()/count()/is_empty() answered from the cache stay right); (round 8) an adjustment placed under a
    further condition of the block must still lie on every normal path from the mutation to the exit (only `count is not None` may skip it).
 C  prepare_connection_for_query_execution reaches its normal exit only through the test
    `not cache.noflush_counter and cache.modified` whose true branch calls cache.flush(); Database._exec_sql calls it
    before provider.execute; SessionCache.flush clears query_results before any statement-emitting call; the bulk
    delete clears the result cache after its statement.
 D  a statement executed directly under `with cache.flush_disabled()` reads the database *without* the session's pending
    changes; the function that does so must merge them itself: after the block it consults both the pending additions and
    the pending removals of the collection (`.added` and `.removed`), as SetInstance.count does.  A read that suppresses
    the auto-flush and uses the rows as they are answers from the state before the session's own changes.
 E  the parameter values of a statement are computed after the auto-flush: in every function of core.py that turns program
    values which may be session objects (the query's variables, the keyword values of get/select/exists) into SQL
    arguments and executes the statement, the conversion (`_construct_sql_and_arguments`, `adapter(query._vars)`,
    `adapter(avdict)`) is dominated by prepare_connection_for_query_execution().  A new object gets its auto-generated
    primary key during the flush; converted earlier it is sent as NULL and the query misses the rows that reference it.
"""
# an in-place change of a Json / array value reaches queries only through the tracking chain of C28 (wrapper -> _changed_ -> _attr_changed_ -> modified flag ->
# auto-flush): its clauses are necessary conditions of C10 as well (a tracked value attributed to the wrong object is flushed for the wrong row)
INCLUDES = ('C28',)

NOT_DECIDED = "agreement of cache-first lookups (get/exists/select by kwargs) with SQL semantics; values of counts"

PREP = 'prepare_connection_for_query_execution'

SETDATA_MUT = {'add', 'remove', 'discard', 'clear', 'update', 'difference_update', 'intersection_update', 'pop',
               'symmetric_difference_update'}


def run(ctx, P='C10', cache_only=False):
    repo, cg = ctx.repo, ctx.cg
    core = repo.mod('pony.orm.core')
    SC = repo.cls('pony.orm.core', 'SessionCache')
    # ---------------------------------------------------------------- A
    reads = fills = 0
    for fn in repo.rule_funcs():
        uses = classify_attr_uses(fn.node, 'query_results')
        if not uses: continue
        g = cg.cfg(fn)
        for node, recv, kind, outer in uses:
            if kind not in ('read', 'fill'): continue
            if recv is None: ctx.need(False, P + '-A: unreadable receiver of query_results in %s' % fn.full)
            guards = nodes_calling(g, lambda c: is_call_to(c, recv, PREP))
            if kind == 'fill':
                guards = guards + nodes_calling(g, lambda c: isinstance(c.func, ast.Attribute) and c.func.attr == '_exec_sql')
                fills += 1
            else: reads += 1
            sites = cfg_node_of(g, node)
            ctx.need(sites, P + '-A: cannot place %s in CFG of %s' % (norm(outer), fn.full))
            bad = [s for s in sites if not g.dominated(s, guards)]
            detail = ''
            if bad:
                p = g.path(g.entry, bad[0], avoid=guards)
                detail = ('result cache %s at line %d is reachable without %s.%s(): %s' %
                          ('read' if kind == 'read' else 'store', bad[0].lineno, recv, PREP, g.fmt_path(p)))
            ctx.ob(P + '-A.result-cache-%s-after-autoflush' % kind, fn, outer, not bad, detail,
                   expected='%s.%s() on every path before the access' % (recv, PREP))
    ctx.floor(P + '-A', reads, 2, 'result-cache reads')
    ctx.floor(P + '-A', fills, 2, 'result-cache stores')

    # ---------------------------------------------------------------- C
    prep = repo.fn('pony.orm.core', 'SessionCache.' + PREP)
    g = cg.cfg(prep)
    recv = prep.recv
    tests = [n for n in g.nodes if n.kind == 'test' and any(dotted(x) == recv + '.modified' for x in n.walk())
             and not any(dotted(x) == recv + '.in_transaction' for x in n.walk())]
    flush_nodes = nodes_calling(g, lambda c: is_call_to(c, recv, 'flush'))
    ok = bool(tests) and bool(flush_nodes)
    detail = ''
    if ok:
        # every entry->exit path passes the test; from the test's T edge flush is unavoidable
        if not g.must_pass_after(g.entry, tests):
            ok = False; detail = 'a path reaches the normal exit without testing %s.modified: %s' % (
                recv, g.fmt_path(g.path(g.entry, g.exit, avoid=tests)))
        for t in tests:
            tsucc = [y for y, lab in g.succ[t.id] if lab == 'T']
            r = g.reach(tsucc, avoid=flush_nodes)
            if g.exit.id in r:
                ok = False; detail = 'true branch of `%s` can reach exit without %s.flush()' % (norm(t.ast), recv)
            # the test must not be weakened to something that is false while modified: it must be a conjunction
            # of `not X.noflush_counter` and `X.modified` only
            conj = t.ast.values if isinstance(t.ast, ast.BoolOp) and isinstance(t.ast.op, ast.And) else [t.ast]
            allowed = {recv + '.modified', 'not ' + recv + '.noflush_counter'}
            extra = [norm(c) for c in conj if norm(c) not in allowed]
            if extra: ok = False; detail = 'auto-flush test has extra condition(s) %s' % extra
    else: detail = 'no `if ... %s.modified: %s.flush()` found' % (recv, recv)
    ctx.ob(P + '-C.autoflush-on-every-exit', prep, tests[0].stmt if tests else prep.node, ok, detail,
           expected='if not cache.noflush_counter and cache.modified: cache.flush() on every normal path')

    ex = repo.fn('pony.orm.core', 'Database._exec_sql')
    g = cg.cfg(ex)
    execs = nodes_calling(g, lambda c: isinstance(c.func, ast.Attribute) and c.func.attr == 'execute')
    preps = nodes_calling(g, lambda c: isinstance(c.func, ast.Attribute) and c.func.attr == PREP)
    ctx.floor(P + '-C', len(execs), 1, 'provider.execute sites in _exec_sql')
    for e in execs:
        ok = g.dominated(e, preps)
        ctx.ob(P + '-C.exec-after-prepare', ex, e.ast, ok,
               '' if ok else 'statement executed without %s()' % PREP, node=e.ast)

    fl = repo.fn('pony.orm.core', 'SessionCache.flush')
    g = cg.cfg(fl); recv = fl.recv
    clears = nodes_calling(g, lambda c: is_call_to(c, recv + '.query_results', 'clear'))
    emit = nodes_calling(g, lambda c: isinstance(c.func, ast.Attribute) and c.func.attr in ('_save_', 'remove_m2m', 'add_m2m'))
    ctx.floor(P + '-C', len(emit), 3, 'statement-emitting calls in SessionCache.flush')
    for e in emit:
        ok = g.dominated(e, clears)
        ctx.ob(P + '-C.flush-clears-result-cache-first', fl, e.ast, ok,
               '' if ok else 'flush emits statements at line %d without clearing query_results first' % e.lineno, node=e.ast)

    hooks = nodes_calling(g, lambda c: isinstance(c.func, ast.Attribute) and c.func.attr == '_before_save_')
    ctx.floor(P + '-C', len(hooks), 1, 'before-save hook calls in SessionCache.flush')
    for h in hooks:
        # user hooks may run queries (with flushing disabled) whose results are cached: the clear must come after them
        ok = g.must_pass_after(h, clears, exits=emit)
        ctx.ob(P + '-C.result-cache-cleared-after-hooks', fl, h.ast, ok,
               '' if ok else 'statements are emitted after the before_* hooks without clearing query_results in between: a query '
               'run inside a hook (pre-flush view) stays cached and answers the same query after the flush', node=h.ast)

    qd = repo.fn('pony.orm.core', 'Query.delete')
    g = cg.cfg(qd)
    dml = [n for n in nodes_calling(g, lambda c: isinstance(c.func, ast.Attribute) and c.func.attr == '_exec_sql')]
    clears = nodes_calling(g, lambda c: isinstance(c.func, ast.Attribute) and c.func.attr == 'clear'
                           and dotted(c.func.value) and dotted(c.func.value).endswith('.query_results'))
    ctx.floor(P + '-C', len(dml), 1, 'bulk delete statement')
    for d in dml:
        ok = g.must_pass_after(d, clears, exits=[g.exit])
        ctx.ob(P + '-C.bulk-delete-clears-result-cache', qd, d.ast, ok,
               '' if ok else 'bulk DELETE returns without clearing the session result cache', node=d.ast)

    if cache_only: return
    # ---------------------------------------------------------------- B
    run_count_pairing(ctx)
    run_merge_own_pending(ctx)
    run_deleted_member(ctx)
    # ---------------------------------------------------------------- D
    run_noflush_reads(ctx)
    run_pending_marks(ctx)
    # ---------------------------------------------------------------- E
    n = 0
    for fn in repo.rule_funcs():
        if fn.mod.name != 'pony.orm.core': continue
        conv = [c for c in walk_no_nested(fn.node) if isinstance(c, ast.Call) and (
                (isinstance(c.func, ast.Attribute) and c.func.attr == '_construct_sql_and_arguments') or
                (isinstance(c.func, ast.Name) and c.func.id == 'adapter' and len(c.args) == 1 and norm(c.args[0]) in ('avdict', 'query._vars')))]
        if not conv: continue
        execs = [c for c in walk_no_nested(fn.node) if isinstance(c, ast.Call) and isinstance(c.func, ast.Attribute) and c.func.attr == '_exec_sql']
        if not execs: continue                       # get_sql() only shows the text
        g = cg.cfg(fn)
        guards = nodes_calling(g, lambda c: isinstance(c.func, ast.Attribute) and c.func.attr == PREP)
        for c in conv:
            n += 1
            sites = cfg_node_of(g, c)
            bad = [x for x in sites if not g.dominated(x, guards)]
            ctx.ob('C10-E.arguments-computed-after-autoflush', fn, c, not bad,
                   '' if not bad else 'the SQL arguments are computed at line %d before the auto-flush (%s): an object created in this session and used as a '
                   'parameter has no primary key yet, NULL is sent instead, and the query does not see rows that reference it' % (c.lineno, PREP),
                   node=c, expected='%s() on every path before the values are converted' % PREP)
    ctx.floor('C10-E', n, 4, 'argument conversions in executing functions')


def run_pending_marks(ctx):
    repo, cg = ctx.repo, ctx.cg
    # ---------------------------------------------------------------- F  (pending marks are settled by the write that makes them true)
    # invariant behind count() / is_empty(): x in <SetData>.added  ==>  the database does not yet hold that link (count() adds len(added) to SELECT COUNT).
    # F1  _calc_modified_m2m resets added/removed of EVERY collection it takes from modified_collections: scenario "the reverse side was collected already"
    #     (`reverse in modified_m2m`) still passes a reset of .added before the next collection is taken.
    cm = repo.fn('pony.orm.core', 'SessionCache._calc_modified_m2m'); g = cg.cfg(cm)
    from ..typestate import scenario_edges
    def second_side(text, node):
        if isinstance(node, ast.Compare) and len(node.ops) == 1 and isinstance(node.ops[0], (ast.In, ast.NotIn)) and dotted(node.comparators[0]) == 'modified_m2m' and (dotted(node.left) or '').split('.')[-1] == 'reverse':
            return isinstance(node.ops[0], ast.In)
        if text.endswith('reverse.is_collection'): return True
        if text.endswith("._status_ == 'marked_to_delete'"): return False
        if isinstance(node, ast.Call) and dotted(node.func) == 'isinstance': return True
        return None
    eo = scenario_edges(g, cm.node, second_side, resolve=False)
    resets = [x for x in g.nodes if x.kind == 'stmt' and isinstance(x.ast, ast.Assign) and any(isinstance(t, ast.Attribute) and t.attr == 'added' for t in x.ast.targets)
              and isinstance(x.ast.value, ast.Constant) and x.ast.value.value is None]
    outer = [x for x in g.nodes if x.kind == 'iter' and 'modified_collections' in norm(x.ast.iter)]
    ctx.need(outer and resets, 'C10-F: the loop over modified_collections / the reset of .added was not found in _calc_modified_m2m')
    body_starts = [y for o in outer for y, lab in g.succ[o.id] if lab not in ('exit', 'F', 'else') ]
    reach_sc = g.reach(body_starts, edge_ok=eo)
    ok = any(r.id in reach_sc for r in resets)
    ctx.ob('C10-F.flush-settles-pending-marks-of-both-m2m-sides', cm, resets[0].ast, ok,
           '' if ok else 'for the side of a many-to-many relation that is taken second from modified_collections no reset of SetData.added/.removed is reachable: the marks survive '
           'the flush that wrote the rows, and count() adds them to SELECT COUNT(*) again', node=resets[0].ast)
    # F2  whoever starts saving objects on its own (calls obj._save_() without the dependency list of a running save) also settles the pending marks
    #     (_calc_modified_m2m is the only place where they are reset)
    nf2 = 0
    for fn in repo.rule_funcs():
        if fn.mod.name != 'pony.orm.core': continue
        starts = [c for c in calls_in(fn.node) if isinstance(c.func, ast.Attribute) and c.func.attr == '_save_' and not c.args and not c.keywords]
        if not starts: continue
        nf2 += 1
        ok = any(isinstance(c.func, ast.Attribute) and c.func.attr == '_calc_modified_m2m' for c in calls_in(fn.node))
        ctx.ob('C10-F.initiator-of-a-save-settles-the-pending-collection-marks', fn, starts[0], ok,
               '' if ok else '%s writes objects with _save_() but never settles the pending marks of the collections they belong to (_calc_modified_m2m): after child.flush() the child '
               'row is in the database and still in parent.children.added, so parent.children.count() counts it twice' % fn.qual, node=starts[0])
    ctx.floor('C10-F', nf2, 2, 'functions that start saving objects')
    # D' (converse of D)  a function that adjusts a query result by len(<x>.added) / len(<x>.removed) runs that query with the auto-flush suppressed --
    #     otherwise the statement's own auto-flush writes the pending items first and they are counted twice
    nd2 = 0
    for fn in repo.rule_funcs():
        if fn.mod.name != 'pony.orm.core': continue
        adj = [st for st in walk_no_nested(fn.node) if isinstance(st, ast.AugAssign) and any(isinstance(c, ast.Call) and dotted(c.func) == 'len' and c.args and isinstance(c.args[0], ast.Attribute)
                                                                                          and c.args[0].attr in ('added', 'removed') for c in ast.walk(st.value))]
        if not adj: continue
        guarded = set()
        for w in walk_no_nested(fn.node):
            if isinstance(w, ast.With) and any(isinstance(i.context_expr, ast.Call) and isinstance(i.context_expr.func, ast.Attribute) and i.context_expr.func.attr == 'flush_disabled' for i in w.items):
                for st in w.body:
                    for x in ast.walk(st): guarded.add(id(x))
        for c in [c for c in calls_in(fn.node) if isinstance(c.func, ast.Attribute) and c.func.attr == '_exec_sql' and c.lineno < adj[0].lineno]:
            nd2 += 1
            # Since pony fix 967f47e every flush settles the pending marks of every collection it writes, so an auto-flush *inside* the statement leaves
            # nothing to adjust by -- provided the adjustment reads the marks after the statement (an attribute read of .added / .removed, which is how
            # `adj` is recognised), not a copy taken before it.  Suppressing the auto-flush is then one sound way, reading fresh marks the other; both
            # are accepted (this clause used to demand flush_disabled(): it fired on a behaviour-preserving edit, seed C10e after the fix).
            fresh = all(isinstance(c2.args[0], ast.Attribute) for st in adj for c2 in ast.walk(st.value) if isinstance(c2, ast.Call) and dotted(c2.func) == 'len' and c2.args)
            ok = id(c) in guarded or fresh
            ctx.ob('C10-D.result-adjusted-by-pending-changes-is-read-without-auto-flush', fn, c, ok,
                   '' if ok else 'the result of this statement is corrected by len(.added)/len(.removed) afterwards, but the statement is not executed under flush_disabled(): its auto-flush '
                   'writes the pending items first and they are counted twice', node=c)
    ctx.floor('C10-D', nd2, 1, 'queries whose result is adjusted by pending collection changes')


def run_noflush_reads(ctx):
    repo = ctx.repo
    blocks = sites = 0
    for fn in repo.rule_funcs():
        if fn.mod.name != 'pony.orm.core': continue
        for w in walk_no_nested(fn.node):
            if not (isinstance(w, ast.With) and any(isinstance(i.context_expr, ast.Call) and isinstance(i.context_expr.func, ast.Attribute)
                                                     and i.context_expr.func.attr == 'flush_disabled' for i in w.items)): continue
            blocks += 1
            inside = set()
            for st in w.body:
                for x in ast.walk(st): inside.add(id(x))
            execs = [c for st in w.body for c in ast.walk(st) if isinstance(c, ast.Call) and isinstance(c.func, ast.Attribute) and c.func.attr == '_exec_sql']
            for c in execs:
                sites += 1
                outside = [a.attr for a in walk_no_nested(fn.node) if isinstance(a, ast.Attribute) and isinstance(a.ctx, ast.Load)
                           and a.attr in ('added', 'removed') and id(a) not in inside and a.lineno > w.end_lineno]
                ok = 'added' in outside and 'removed' in outside
                ctx.ob('C10-D.read-without-auto-flush-merges-pending-changes', fn, c, ok,
                       '' if ok else 'this statement runs with the auto-flush suppressed, so the database has not seen the session\'s pending changes, and the '
                       'function does not merge them afterwards (it reads %s of .added/.removed after the block): the answer ignores objects the session '
                       'added to or removed from the collection' % (sorted(set(outside)) or 'neither'), node=c,
                       expected='after the block: adjust the result by both <setdata>.added and <setdata>.removed, or do not suppress the flush')
    ctx.floor('C10-D', blocks, 8, '`with cache.flush_disabled()` blocks in core.py')
    ctx.count('C10-D: statements executed directly under flush_disabled', sites)      # 1 today; none is a legitimate state (the query may simply let the auto-flush happen)


def setdata_vars(fn_node):
    """local names that hold a SetData: by pony's naming convention (setdata, setdata2, ...) confirmed by assignment"""
    out = set()
    for n in walk_no_nested(fn_node):
        if isinstance(n, ast.Name) and n.id.startswith('setdata'): out.add(n.id)
    return out


def run_deleted_member(ctx):
    """`item in collection` agrees with iteration / len() / count() for an item the session has deleted: delete() takes the item out of every
    collection but leaves the deleted item's own attribute values, so a branch of __contains__ that answers from the item's side must not be
    reachable for a deleted item.  Scenario: item._status_ in del_statuses -- every reachable return is `return False`."""
    from ..typestate import scenario_edges
    repo, cg = ctx.repo, ctx.cg
    f = repo.fn('pony.orm.core', 'SetInstance.__contains__'); g = cg.cfg(f)
    item = f.params[1]
    def deleted(text, node):
        if isinstance(node, ast.Compare) and len(node.ops) == 1 and isinstance(node.ops[0], (ast.In, ast.NotIn)) and dotted(node.left) == item + '._status_' \
                and dotted(node.comparators[0]) in ('del_statuses', 'created_or_deleted_statuses'):
            return isinstance(node.ops[0], ast.In)
        if isinstance(node, ast.Call) and dotted(node.func) == 'isinstance': return True
        if isinstance(node, ast.Compare) and '_session_cache_' in text: return isinstance(node.ops[0], ast.Is) if len(node.ops) == 1 else None
        return None
    live = g.reach([g.entry], edge_ok=scenario_edges(g, f.node, deleted, resolve=True))
    rets = [x for x in g.nodes if x.kind == 'stmt' and isinstance(x.ast, ast.Return) and x.id in live]
    bad = [x for x in rets if not (isinstance(x.ast.value, ast.Constant) and x.ast.value.value is False)]
    ctx.ob('C10-B.a-deleted-item-is-not-a-member', f, bad[0].ast if bad else f.node, bool(rets) and not bad,
           '' if rets and not bad else 'for an item the session has deleted `item in collection` can be answered by `%s`: the deleted item keeps its own reference to the owner, so `in` says True '
           'while iteration, len() and count() of the same collection no longer contain it' % (norm(bad[0].ast)[:50] if bad else '?'), node=bad[0].ast if bad else None)


def run_merge_own_pending(ctx):
    """rows read from the database are merged into a collection after the collection's *own* pending changes were taken into account: in a
    statement list that ends in `T |= items` (T a SetData), every earlier adjustment of the rows (`items -= X`, `items -= X.removed`, guarded or
    not) refers to the same T.  In the batch branch of Set.load two SetData variables are in scope (the collection that triggered the load and
    the one being filled); subtracting the removals of the wrong one re-inserts a link the session has removed from the other object."""
    repo = ctx.repo
    nm = 0
    for fn in repo.rule_funcs():
        if fn.mod.name != 'pony.orm.core': continue
        names = setdata_vars(fn.node)
        if len(names) < 1: continue
        def bodies(node):
            for fld in ('body', 'orelse', 'finalbody'):
                b = getattr(node, fld, None)
                if isinstance(b, list) and b and isinstance(b[0], ast.stmt):
                    yield b
                    for st in b:
                        if isinstance(st, (ast.FunctionDef, ast.AsyncFunctionDef, ast.ClassDef)): continue
                        yield from bodies(st)
        for body in bodies(fn.node):
            for i, st in enumerate(body):
                if not (isinstance(st, ast.AugAssign) and isinstance(st.op, ast.BitOr) and isinstance(st.target, ast.Name) and st.target.id in names and isinstance(st.value, ast.Name)): continue
                T, rows = st.target.id, st.value.id
                others = []
                for prev in body[:i]:
                    for a in ast.walk(prev):
                        if isinstance(a, ast.AugAssign) and isinstance(a.op, ast.Sub) and isinstance(a.target, ast.Name) and a.target.id == rows:
                            base = a.value
                            while isinstance(base, ast.Attribute): base = base.value
                            if isinstance(base, ast.Name) and base.id in names and base.id != T: others.append((a, base.id))
                    if isinstance(prev, ast.If):
                        for x in ast.walk(prev.test):
                            if isinstance(x, ast.Name) and x.id in names and x.id != T and any(isinstance(a, ast.AugAssign) and isinstance(a.target, ast.Name) and a.target.id == rows for a in ast.walk(prev)):
                                others.append((prev, x.id))
                nm += 1
                ctx.ob('C10-B.loaded-rows-are-merged-with-the-collections-own-pending-changes', fn, st, not others,
                       '' if not others else 'before `%s` the rows are adjusted by the pending changes of `%s` (`%s`), another collection: a link that the session removed from this object '
                       'is read back into it, and `in` / count() / iteration report it until the session ends' % (norm(st), others[0][1], norm(others[0][0])[:60]), node=st)
    ctx.floor('C10-B', nm, 2, 'merges of loaded rows into a SetData')


def run_count_pairing(ctx):
    repo = ctx.repo
    n_sites = 0
    for fn in repo.rule_funcs():
        if fn.mod.name != 'pony.orm.core': continue
        names = setdata_vars(fn.node)
        if not names: continue
        # db_* functions and loaders mirror rows the database already counted
        loader = fn.name.startswith('db_') or fn.name in LOADERS
        # walk statement lists
        def bodies(node):
            for fld in ('body', 'orelse', 'finalbody'):
                b = getattr(node, fld, None)
                if isinstance(b, list) and b and isinstance(b[0], ast.stmt):
                    yield b
                    for st in b:
                        if isinstance(st, (ast.FunctionDef, ast.AsyncFunctionDef, ast.ClassDef)): continue
                        yield from bodies(st)
            for h in getattr(node, 'handlers', []) or []: yield from bodies(h)
        for body in bodies(fn.node):
            for st in body:
                mut = mutation_of(st, names)
                if mut is None: continue
                var, what = mut
                if loader:
                    continue
                n_sites += 1
                paired = any(adjusts_count(s2, var) for s2 in body)
                if paired and not any(adjusts_directly(s2, var) for s2 in body):
                    # (round 8) the adjustment sits under some further condition of the same block: it must still happen whenever the membership
                    # changes -- every normal path from the mutation to the exit passes an adjustment, the only way round being the false edge
                    # of `<var>.count is not None` (a re-added item that was pending removal changes the content just like a new one)
                    g_ = ctx.cg.cfg(fn)
                    adj = [x for x in g_.nodes if x.kind == 'stmt' and isinstance(x.ast, (ast.Assign, ast.AugAssign)) and adjusts_count(x.ast, var)]
                    def eo_(x, y, lab, g_=g_, var=var):
                        n_ = g_.nodes[x]
                        if lab == 'exc': return False
                        if n_.kind == 'test' and norm(n_.ast) == '%s.count is not None' % var and lab == 'F': return False
                        if n_.kind == 'test' and norm(n_.ast) == '%s.count is None' % var and lab == 'T': return False
                        return True
                    starts_ = [y for s_ in g_.nodes_of(st) for y, lab in g_.succ[s_.id] if lab != 'exc']
                    before_ = any(body.index(s2) < body.index(st) for s2 in body if adjusts_count(s2, var))
                    if not before_ and g_.exit.id in g_.reach(starts_, avoid=adj, edge_ok=eo_): paired = False
                ok = paired or count_known_none(ctx.cg.cfg(fn), st, var)
                if not ok:
                    # ... or the count is recomputed from the content (or dropped) on every way out after the mutation
                    g_ = ctx.cg.cfg(fn)
                    rec = [x for x in g_.nodes if x.kind == 'stmt' and isinstance(x.ast, ast.Assign) and any(dotted(t) == var + '.count' for t in x.ast.targets)
                           and (norm(x.ast.value) == 'len(%s)' % var or (isinstance(x.ast.value, ast.Constant) and x.ast.value.value is None))]
                    sites = g_.nodes_of(st)
                    ok = bool(rec) and bool(sites) and all(g_.must_pass_after(s_, rec, exits=[g_.exit]) for s_ in sites)
                ctx.ob('C10-B.count-paired-with-membership-change', fn, st, ok,
                       '' if ok else '%s mutates the collection content but no `%s.count` adjustment in the same block' % (what, var),
                       expected='if %s.count is not None: %s.count +=/-= ... next to the mutation' % (var, var))
    ctx.floor('C10-B', n_sites, 8, 'session-side SetData membership mutations')


LOADERS = {'load', 'prefetch_load_all', '_db_set_', '_load_', '_set_rbits', '_calc_modified_m2m', 'copy', '__deepcopy__'}


def mutation_of(st, names):
    """(var, description) if the simple statement mutates membership of a SetData variable"""
    if isinstance(st, ast.Expr) and isinstance(st.value, ast.Call) and isinstance(st.value.func, ast.Attribute):
        f = st.value.func
        if isinstance(f.value, ast.Name) and f.value.id in names and f.attr in SETDATA_MUT:
            return f.value.id, '%s.%s()' % (f.value.id, f.attr)
    if isinstance(st, ast.AugAssign) and isinstance(st.target, ast.Name) and st.target.id in names \
            and isinstance(st.op, (ast.BitOr, ast.Sub, ast.BitAnd, ast.BitXor)):
        return st.target.id, '%s %s=' % (st.target.id, type(st.op).__name__)
    return None


def adjusts_directly(st, var):
    """the statement is the adjustment itself, or `if <var>.count is not None: <adjustment>` -- nothing else decides whether it happens"""
    if isinstance(st, (ast.Assign, ast.AugAssign)): return adjusts_count(st, var)
    if isinstance(st, ast.If) and norm(st.test) == '%s.count is not None' % var: return any(adjusts_directly(s2, var) for s2 in st.body)
    return False


def adjusts_count(st, var):
    for n in ast.walk(st):
        if isinstance(n, (ast.Assign, ast.AugAssign)):
            tg = n.targets if isinstance(n, ast.Assign) else [n.target]
            flat = []
            for t in tg: flat += list(t.elts) if isinstance(t, (ast.Tuple, ast.List)) else [t]
            if any(dotted(t) == var + '.count' for t in flat): return True
    return False


def count_known_none(g, st, var):
    """on every path to the mutation the cached count is known to be absent: the variable was just bound to a
    fresh SetData() or the path left a test `var.count is not None` through its false edge"""
    def transfer(n, state, lab):
        if n.kind == 'test' and norm(n.ast) == '%s.count is not None' % var:
            return frozenset(['none']) if lab == 'F' else frozenset(['some'])
        if n.kind == 'stmt' and isinstance(n.ast, ast.Assign) and lab != 'exc':
            tg = [dotted(t) for t in n.ast.targets]
            if var in tg:
                fresh = isinstance(n.ast.value, ast.Call) and dotted(n.ast.value.func) == 'SetData'
                return frozenset(['none' if fresh else 'unk'])
            if var + '.count' in tg: return frozenset(['some'])
        return state
    IN = g.forward(['unk'], transfer)
    sites = g.nodes_of(st)
    return bool(sites) and all(IN.get(n.id, frozenset(['unk'])) == frozenset(['none']) for n in sites if n.id in IN)


MUTANTS = [
    dict(id='C10-b8', file='pony/orm/core.py', fn='Set.reverse_add', old='            if setdata.count is not None: setdata.count += 1\n            if in_removed: setdata.removed.remove(item)\n            else: setdata.added.add(item)\n', new='            if in_removed: setdata.removed.remove(item)\n            else:\n                setdata.added.add(item)\n                if setdata.count is not None: setdata.count += 1\n', expect='C10-B.count-paired-with-membership-change'),
    dict(id='C10-del1', file='pony/orm/core.py', fn='SetInstance.__contains__', old="        if item._status_ in del_statuses: return False  # it was taken out of every collection when it was deleted\n", new="", expect='C10-B.a-deleted-item'),
    dict(id='C10-own1', file='pony/orm/core.py', fn='Set.load', old="                if setdata2.removed: items -= setdata2.removed\n                setdata2 |= items", new="                if setdata.removed: items -= setdata.removed\n                setdata2 |= items", expect='C10-B.loaded-rows'),
    dict(id='C10-f1', file='pony/orm/core.py', fn='SessionCache._calc_modified_m2m', old="            if reverse in modified_m2m:\n", new="            if reverse in modified_m2m: continue\n            if False:\n", expect='C10-F.flush-settles'),
    dict(id='C10-d3', file='pony/orm/core.py', fn='SetInstance.count', old="        with cache.flush_disabled():\n            cursor = database._exec_sql(sql, arguments)\n        setdata.count = cursor.fetchone()[0]", new="        cursor = database._exec_sql(sql, arguments)\n        setdata.count = cursor.fetchone()[0]", benign=True),
    dict(id='C10-e1', file='pony/orm/core.py', fn='EntityMeta._find_in_db_', old="        cache.prepare_connection_for_query_execution()  # flush: a new object used as a value gets its primary key\n", new="", expect='C10-E'),
    dict(id='C10-e2', file='pony/orm/core.py', fn='Query.delete', old="        cache.prepare_connection_for_query_execution()  # may clear cache.query_results\n        arguments = adapter(query._vars)\n", new="        arguments = adapter(query._vars)\n        cache.prepare_connection_for_query_execution()  # may clear cache.query_results\n", expect='C10-E'),
    dict(id='C10-d1', file='pony/orm/core.py', fn='SetInstance.is_empty', old="        cursor = database._exec_sql(sql, arguments)\n", new="        with cache.flush_disabled():\n            cursor = database._exec_sql(sql, arguments)\n", expect='C10-D'),
    dict(id='C10-d2', file='pony/orm/core.py', fn='SetInstance.count', old="        if setdata.removed: setdata.count -= len(setdata.removed)\n", new="", expect='C10-D'),
    dict(id='C10-m1', file='pony/orm/core.py', fn='Query._actual_fetch',
         old='cache.prepare_connection_for_query_execution()  # may clear cache.query_results\n', new='pass\n',
         expect='C10-A.result-cache-read'),
    dict(id='C10-m2', file='pony/orm/core.py', fn='SessionCache.prepare_connection_for_query_execution',
         old='if not cache.noflush_counter and cache.modified: cache.flush()', new='pass',
         expect='C10-C.autoflush'),
    dict(id='C10-m3', file='pony/orm/core.py', fn='SessionCache.flush',
         old='                    cache.query_results.clear()\n', new='', expect='C10-C.flush-clears'),
    dict(id='C10-m4', file='pony/orm/core.py', fn='Query.delete',
         old='        cache.query_results.clear()\n', new='', expect='C10-C.bulk-delete'),
    dict(id='C10-m8', file='pony/orm/core.py', fn='SessionCache.flush',
         old='                with cache.flush_disabled():\n                    for obj in cache.objects_to_save:  # can grow during iteration',
         new='                cache.query_results.clear()\n                with cache.flush_disabled():\n                    for obj in cache.objects_to_save:  # can grow during iteration',
         benign=True),
    dict(id='C10-m9', file='pony/orm/core.py', fn='SessionCache.flush',
         old='                with cache.flush_disabled():\n                    for obj in cache.objects_to_save:  # can grow during iteration\n                        if obj is not None: obj._before_save_()\n\n                    cache.query_results.clear()\n',
         new='                cache.query_results.clear()\n                with cache.flush_disabled():\n                    for obj in cache.objects_to_save:  # can grow during iteration\n                        if obj is not None: obj._before_save_()\n\n',
         expect='C10-C.result-cache-cleared-after-hooks'),
    dict(id='C10-m5', file='pony/orm/core.py', fn='Set.reverse_add',
         old='            if setdata.count is not None: setdata.count += 1\n', new='', expect='C10-B'),
    dict(id='C10-m6', file='pony/orm/core.py', fn='SessionCache.prepare_connection_for_query_execution',
         old='if not cache.noflush_counter and cache.modified: cache.flush()',
         new='if not cache.noflush_counter and cache.modified and cache.in_transaction: cache.flush()',
         expect='C10-C.autoflush'),
    dict(id='C10-m7', file='pony/orm/core.py', fn='Database._exec_sql',
         old='connection = cache.prepare_connection_for_query_execution()',
         new='connection = cache.connection or cache.connect()', expect='C10-C.exec-after-prepare'),
]
