"""C36  A forked process never uses its parent's database connection."""
import ast
from ..loader import dotted, walk_no_nested, norm, head, calls_in
from ..q import nodes_calling, assign_pairs
from ..typestate import Machine

EXPLANATION = """
Static clauses decided (necessary conditions of C36), by finite-state interpretation of Pool.connect (and the Oracle
pool's connect) over the abstract state (connection present?, owner pid == current pid?, _connect() succeeds or raises):
 OWNER   whenever connect() returns a connection handle, the handle was opened by the current process: on every normal exit
         `pool.con` is owned by os.getpid(); and -- also when _connect() raises -- no exit leaves the pool holding a foreign
         (parent's) connection that a later connect() would hand out (pool.pid is assigned only after _connect() succeeded,
         and a foreign handle is detached before anything that can fail).
 PARK    an inherited connection is parked in forked_connections (kept referenced, not closed: closing it would tear down
         the parent's server session) exactly when it is foreign.
 PARK    ... and at disconnect(): under the scenario "the pool holds a foreign connection" no close() is reachable and the handle is
         parked; under "own connection" it is closed (Database.disconnect() in a child must not write the quit message on the
         parent's socket).
 SUB     pools that override __init__ without calling Pool.__init__ still initialise `con` and `pid` to None (SQLitePool), so the pid
         comparison is never evaluated on an unset attribute; every pool class that overrides connect compares pids.
 PATH    the file name handed to SQLitePool is absolute on every path (parent and child mean the same file after a chdir).
 SESSION a session open at the fork exists in both processes and holds the handle itself: every SessionCache method that hands
         the held handle to the provider compares the opening process with os.getpid().  (Known finding on the pinned tree.)
"""
NOT_DECIDED = "what the DB-API drivers do with a socket shared across fork; visibility of committed data between processes"

DP = 'pony.orm.dbapiprovider'


def run(ctx):
    repo, cg = ctx.repo, ctx.cg
    f = repo.fn(DP, 'Pool.connect'); g = cg.cfg(f); pool = f.recv
    pidvars = {dotted(s.targets[0]) for s in walk_no_nested(f.node) if isinstance(s, ast.Assign) and len(s.targets) == 1 and norm(s.value) == 'os.getpid()'}
    ctx.need(pidvars, 'C36: Pool.connect no longer reads os.getpid()')
    # abstract state: con in {none, mine, foreign}; pidattr in {none, mine, foreign}; parked bool; plus one copy per local that snapshots
    # pool.con / pool.pid (`con = pool.con`): the local keeps the value it was given even after the attribute is reset
    snaps = {}
    for s_ in walk_no_nested(f.node):
        for t, v in assign_pairs(s_):
            if isinstance(t, ast.Name) and v is not None and dotted(v) in (pool + '.con', pool + '.pid'): snaps[t.id] = dotted(v)[len(pool) + 1:]
    SV = ['L:' + n_ for n_ in sorted(snaps)]
    def val_of(e, env):
        """abstract value of an expression naming the connection / the owner pid, else None"""
        d = dotted(e)
        if d == pool + '.con': return env['con']
        if d == pool + '.pid': return env['pid']
        if isinstance(e, ast.Name) and e.id in snaps: return env['L:' + e.id]
        if d in pidvars or norm(e) == 'os.getpid()': return 'mine'
        if isinstance(e, ast.Constant) and e.value is None: return 'none'
        return None
    def effect(n, env):
        if n.kind != 'stmt': return None
        a = n.ast
        upd = {}
        if isinstance(a, ast.Assign):
            for t_, v in assign_pairs(a):
                t = dotted(t_)
                if t == pool + '.con':
                    x = val_of(v, env) if v is not None else None
                    if x in ('none', 'mine', 'foreign', 'unset') and not (v is not None and (dotted(v) in pidvars or norm(v) == 'os.getpid()')): upd['con'] = x
                    else: return {'normal': [{'con': 'UNKNOWN'}]}
                elif t == pool + '.pid':
                    x = val_of(v, env) if v is not None else None
                    upd['pid'] = x if x is not None else 'UNKNOWN'
                elif isinstance(t_, ast.Name) and t_.id in snaps:
                    x = val_of(v, env) if v is not None else None
                    upd['L:' + t_.id] = x if x is not None else 'UNKNOWN'
            if upd: return {'normal': [upd]}
        for c in n.calls():
            if dotted(c.func) == pool + '._connect':
                return {'normal': [{'con': 'mine'}], 'exc': [{}]}        # success: a fresh connection of this process; failure: nothing changes
            if dotted(c.func) == pool + '.forked_connections.append':
                # what is kept referenced is the connection handle: the first connection-valued element
                conv = [val_of(x, env) for a_ in c.args for x in ([a_] + (list(a_.elts) if isinstance(a_, (ast.Tuple, ast.List)) else []))
                        if dotted(x) == pool + '.con' or (isinstance(x, ast.Name) and snaps.get(x.id) == 'con')]
                if conv and conv[0] in ('foreign', 'mine'): return {'normal': [{'parked': conv[0]}]}
                return None
            if isinstance(c.func, ast.Attribute) and c.func.attr == 'close':
                x = c.func.value
                if dotted(x) == pool + '.con' or (isinstance(x, ast.Name) and snaps.get(x.id) == 'con'): return {'normal': [{'closed': val_of(x, env)}]}
                if (dotted(x) or '').startswith(pool): return {'normal': [{'closed': env['con']}]}
        return None
    def atom(t, env):
        try: e = ast.parse(t, mode='eval').body
        except SyntaxError: return None
        if isinstance(e, ast.Compare) and len(e.ops) == 1:
            l, r = val_of(e.left, env), val_of(e.comparators[0], env)
            op = e.ops[0]
            if l is None or r is None or 'UNKNOWN' in (l, r): return None
            if isinstance(op, (ast.Is, ast.IsNot)) and 'none' in (l, r): return (l == r) == isinstance(op, ast.Is)
            if isinstance(op, (ast.Eq, ast.NotEq)):
                # pids: equal iff both are this process's pid; a foreign pid differs from ours; None differs from any pid
                if l == r == 'foreign': return None
                return (l == r) == isinstance(op, ast.Eq)
            return None
        v = val_of(e, env)
        if v in ('none', 'mine', 'foreign') and (dotted(e) == pool + '.con' or (isinstance(e, ast.Name) and snaps.get(e.id) == 'con')): return v != 'none'   # truthiness of a connection handle
        return None
    VARS = ['con', 'pid', 'parked', 'closed'] + SV
    def mk(con, pid): 
        d_ = {'con': con, 'pid': pid, 'parked': 'no', 'closed': 'no'}
        d_.update({v_: 'unset' for v_ in SV})
        return d_
    m = Machine(g, VARS, effect, atom)
    inits = [mk('none', 'none'), mk('mine', 'mine'), mk('foreign', 'foreign')]
    IN = m.run(inits)
    for ex, nm in ((g.exit, 'normal return'), (g.raise_, 'exception')):
        sts = m.states_at(IN, ex)
        if ex is g.exit: ctx.need(sts, 'C36: no exit state of Pool.connect')
        unk = [e for e in sts if 'UNKNOWN' in e.values()]
        ctx.need(not unk, 'C36: Pool.connect assigns pool.con/pool.pid from an expression the rule cannot read')
        if ex is g.exit:
            bad = [e for e in sts if e['con'] != 'mine']
            ctx.ob('C36-OWNER.returned-connection-belongs-to-this-process', f, f.node, not bad,
                   '' if not bad else 'connect() can return with pool.con %s (state %s): the child runs its statements on the connection opened by the parent' % (bad[0]['con'], bad[0]))
        if ex is g.exit:
            # the owner stamp is set by the process that opened the connection, when it opens it: whoever leaves connect() with a connection of its own has its
            # own pid recorded.  (Stamped later -- e.g. at release -- a child that merely releases an inherited connection would claim it.)
            bad = [e for e in sts if e['con'] == 'mine' and e['pid'] != 'mine']
            ctx.ob('C36-OWNER.connection-is-stamped-with-its-creators-pid', f, f.node, not bad,
                   '' if not bad else 'connect() can return a connection opened by this process while pool.pid is %r (state %s): the fork test of a later connect() compares against a '
                   'stamp that does not name the creator' % (bad[0]['pid'], bad[0]))
        # consistency: a later connect() trusts `pool.con is not None and pool.pid == pid`
        bad = [e for e in sts if e['con'] == 'foreign' and e['pid'] == 'mine']
        ctx.ob('C36-OWNER.no-exit-leaves-foreign-connection-marked-as-own@%s' % nm.split()[0], f, f.node, not bad,
               '' if not bad else 'on %s the pool is left with the parent\'s connection while pool.pid already equals the child\'s pid (%s): the next connect() '
               'takes it for a local pooled connection and hands it out' % (nm, bad[0]),
               expected='detach the foreign handle before _connect(); assign pool.pid only after _connect() succeeded')
        bad = [e for e in sts if e['closed'] == 'foreign']
        ctx.ob('C36-PARK.inherited-connection-is-not-closed@%s' % nm.split()[0], f, f.node, not bad,
               '' if not bad else 'the inherited connection is closed in the child (%s): this terminates the parent\'s server session' % bad[0])
    sts = m.states_at(IN, g.exit)
    # foreign start => parked
    m2 = Machine(g, VARS, effect, atom)
    IN2 = m2.run([inits[2]])
    bad = [e for e in m2.states_at(IN2, g.exit) if e['parked'] != 'foreign']
    ctx.ob('C36-PARK.inherited-connection-is-parked', f, f.node, not bad, '' if not bad else 'an inherited connection is dropped without being kept in forked_connections (its finaliser closes the parent\'s socket)')
    IN3 = Machine(g, VARS, effect, atom).run([inits[1]])
    bad = [e for e in Machine(g, VARS, effect, atom).states_at(IN3, g.exit) if e['parked'] != 'no']
    ctx.ob('C36-PARK.own-connection-is-not-parked', f, f.node, not bad, '' if not bad else 'the process parks its own connection')
    # ---------------------------------------------------------------- SUB
    P = repo.cls(DP, 'Pool')
    for cls in repo.subclasses(P, strict=True):
        init = cls.methods.get('__init__')
        if init is not None:
            calls_base = any(dotted(c.func) in ('Pool.__init__',) or (isinstance(c.func, ast.Attribute) and c.func.attr == '__init__' and isinstance(c.func.value, ast.Call)) for c in calls_in(init.node))
            sets_con = any(isinstance(s, ast.Assign) and any(dotted(t) == init.recv + '.con' for t in (s.targets if not isinstance(s.targets[0], ast.Tuple) else s.targets[0].elts))
                           and isinstance(s.value, ast.Constant) and s.value.value is None for s in walk_no_nested(init.node))
            ok = calls_base or sets_con
            ctx.ob('C36-SUB.subclass-initialises-connection-slot', init, init.node, ok, '' if ok else '%s.__init__ neither calls Pool.__init__ nor sets con = None' % cls.name)
            sets_pid = any(dotted(t) == init.recv + '.pid' and isinstance(v, ast.Constant) and v.value is None for s in walk_no_nested(init.node) for t, v in assign_pairs(s))
            ok = calls_base or sets_pid
            ctx.ob('C36-SUB.subclass-initialises-owner-slot', init, init.node, ok, '' if ok else '%s.__init__ neither calls Pool.__init__ nor sets pid = None: after a _connect() that '
                   'failed half-way (connection assigned, pragma refused) the pid comparison in connect() / disconnect() reads an attribute that was never set' % cls.name)
        cn = cls.methods.get('connect')
        if cn is not None:
            ok = any('getpid' in norm(x) for x in walk_no_nested(cn.node) if isinstance(x, ast.Call))
            ctx.ob('C36-SUB.overriding-connect-compares-pids', cn, cn.node, ok, '' if ok else '%s.connect does not compare the owner pid with os.getpid()' % cls.name)
    op = repo.fn('pony.orm.dbproviders.oracle', 'OraPool.connect')
    tests = [s for s in walk_no_nested(op.node) if isinstance(s, ast.If) and 'pid' in norm(s.test)]
    ok = bool(tests) and any('forked_pools.append' in norm(x) for x in tests[0].body) and any(norm(x).startswith(op.recv + '.pid =') for x in tests[0].body)
    ctx.ob('C36-SUB.oracle-pool-recreated-after-fork', op, tests[0] if tests else op.node, ok, '' if ok else 'OraPool.connect does not replace the session pool after a fork')
    # ---------------------------------------------------------------- PATH
    # parent and child must mean the same file: the name given to the pool is resolved once, at bind time, to an absolute path.  A relative
    # name is resolved again by every new connection -- a child that changed its working directory opens (or creates) another database.
    from ..typestate import scenario_edges
    from ..q import reaching_defs, value_of_def
    gp = repo.fn('pony.orm.dbproviders.sqlite', 'SQLiteProvider.get_pool'); g = cg.cfg(gp)
    fparam = gp.params[2]
    def file_atom(text, node):
        if text == gp.params[1]: return False                                        # not a shared in-memory database
        if isinstance(node, ast.Compare) and dotted(node.left) == fparam and isinstance(node.comparators[0], ast.Constant) and node.comparators[0].value == ':memory:':
            return isinstance(node.ops[0], ast.NotEq)
        return None
    eo = scenario_edges(g, gp.node, file_atom, resolve=False)
    pools = nodes_calling(g, lambda c: dotted(c.func) == 'SQLitePool')
    ctx.need(pools, 'C36: SQLiteProvider.get_pool no longer creates a SQLitePool')
    for pn in pools:
        call = [c for c in pn.calls() if dotted(c.func) == 'SQLitePool'][0]
        arg = call.args[1] if len(call.args) > 1 else None
        bad = []
        def absolute(e, at, depth=0):
            if isinstance(e, ast.Call) and dotted(e.func) in ('absolutize_path', 'os.path.abspath', 'os.path.realpath'): return True
            if isinstance(e, ast.Name) and depth < 4:
                ds = reaching_defs(g, at, e.id, with_params=True, edge_ok=eo)
                return bool(ds) and all(value_of_def(d, e.id) is not None and absolute(value_of_def(d, e.id), d, depth + 1) for d in ds)
            return False
        ok = arg is not None and absolute(arg, pn)
        ctx.ob('C36-PATH.database-file-name-is-absolute-on-every-path', gp, pn.ast, ok,
               '' if ok else 'for a file database the name handed to SQLitePool can be the name as given (relative): every new connection resolves it against the current '
               'working directory, so a forked child that changed directory works on a different file than its parent', node=pn.ast)

    # ---------------------------------------------------------------- PARK at disconnect
    # Database.disconnect() in a child ("disconnect after fork") reaches Pool.disconnect with the inherited handle still in the pool: closing it
    # is a message on the parent's socket (COM_QUIT / Terminate).  Scenario "the pool holds a foreign connection": no close() is reachable, the
    # handle is parked; scenario "own connection": it is closed.
    from ..typestate import scenario_edges as _se
    ndis = 0
    for cls in [P] + list(repo.subclasses(P, strict=True)):
        dm = cls.methods.get('disconnect')
        if dm is None: continue
        gd = cg.cfg(dm)
        closes = nodes_calling(gd, lambda c: isinstance(c.func, ast.Attribute) and c.func.attr == 'close')
        if not closes: continue                      # delegates to Pool.disconnect or keeps the connection (in-memory SQLite, Oracle session pool)
        ndis += 1
        lpids = {dotted(s_.targets[0]) for s_ in walk_no_nested(dm.node) if isinstance(s_, ast.Assign) and len(s_.targets) == 1 and norm(s_.value) == 'os.getpid()'}
        def mk(foreign):
            def atom(text, node):
                if isinstance(node, ast.Compare) and len(node.ops) == 1:
                    l, r_ = node.left, node.comparators[0]
                    def is_cur(e): return norm(e) == 'os.getpid()' or dotted(e) in lpids
                    def is_own(e): return (dotted(e) or '').endswith('.pid')
                    if (is_cur(l) and is_own(r_)) or (is_cur(r_) and is_own(l)):
                        if isinstance(node.ops[0], (ast.NotEq, ast.IsNot)): return foreign
                        if isinstance(node.ops[0], (ast.Eq, ast.Is)): return not foreign
                    if isinstance(r_, ast.Constant) and r_.value is None and ((dotted(l) or '').endswith('.con') or isinstance(l, ast.Name)):
                        if text.endswith(' is None'): return False                # a connection is held (eval_test asks for the `is None` reading)
                        if text.endswith(' is not None'): return True
                return None
            return atom
        eo_f, eo_o = _se(gd, dm.node, mk(True)), _se(gd, dm.node, mk(False))
        rf, ro = gd.reach([gd.entry], edge_ok=eo_f), gd.reach([gd.entry], edge_ok=eo_o)
        parks = nodes_calling(gd, lambda c: 'forked_connections.append' in norm(c.func))
        bad = [n_ for n_ in closes if n_.id in rf]
        ctx.ob('C36-PARK.disconnect-does-not-close-an-inherited-connection', dm, (bad[0].ast if bad else dm.node), not bad,
               '' if not bad else 'disconnect() closes the pooled connection also when the pool\'s pid differs from os.getpid(): a child that disconnects after the fork '
               'ends the parent\'s server session', node=bad[0].ast if bad else None)
        okp = any(n_.id in rf for n_ in parks)
        ctx.ob('C36-PARK.disconnect-parks-an-inherited-connection', dm, dm.node, okp, '' if okp else 'an inherited connection is dropped by disconnect() without being kept in forked_connections (its finaliser closes the parent\'s socket)')
        okc = any(n_.id in ro for n_ in closes) and not any(n_.id in ro for n_ in parks)
        ctx.ob('C36-PARK.disconnect-closes-the-process-own-connection', dm, dm.node, okc, '' if okc else 'disconnect() does not close (or parks) a connection this process opened')
    ctx.floor('C36-PARK', ndis, 1, 'disconnect() methods that close a connection')
    # ---------------------------------------------------------------- SESSION
    # a session that is open when the process forks exists in both processes and holds the connection handle itself (cache.connection): the
    # pool's pid comparison is never consulted for it.  Necessary condition for "the child never issues statements on the parent's connection"
    # at the fork point "open transaction": the session records which process opened the handle it holds and compares that with the current
    # process before it hands the handle to the provider (rollback / commit / release / execute).
    sc = repo.cls('pony.orm.core', 'SessionCache')
    users = []
    for name, m in sorted(sc.methods.items()):
        held = {m.recv + '.connection'}
        for s_ in walk_no_nested(m.node):
            for t, v in assign_pairs(s_):
                if isinstance(t, ast.Name) and v is not None and dotted(v) == m.recv + '.connection': held.add(t.id)
        if any(isinstance(c.func, ast.Attribute) and 'provider' in norm(c.func.value) and any(dotted(a) in held for a in c.args) for c in calls_in(m.node)):
            users.append(m)
    ctx.need(len(users) >= 3, 'C36: the SessionCache methods that hand the held connection to the provider were not found')
    compares = [m for m in users if any(isinstance(x, ast.Compare) and 'pid' in norm(x) for x in ast.walk(m.node))]
    cn = sc.methods['connect']
    ok = len(compares) == len(users)
    ctx.ob('C36-SESSION.held-connection-is-used-only-by-the-process-that-opened-it', cn, cn.node, ok,
           '' if ok else 'SessionCache keeps the connection handle across a fork and %s hand it to the provider without comparing the process that opened it '
           'with os.getpid(): a child that leaves (rolls back) a session inherited with an open transaction issues ROLLBACK on the parent\'s connection'
           % ', '.join(m.qual.split('.')[-1] for m in users if m not in compares))


MUTANTS = [
    dict(id='C36-stamp', file='pony/orm/dbapiprovider.py', fn='Pool.connect', old="            pool._connect()\n            pool.pid = pid", new="            pool._connect()", expect='C36-OWNER.connection-is-stamped'),
    dict(id='C36-path', file='pony/orm/dbproviders/sqlite.py', fn='SQLiteProvider.get_pool', old="            filename = absolutize_path(filename, frame_depth=cut_traceback_depth+5)", new="            if not os.path.exists(filename): filename = absolutize_path(filename, frame_depth=cut_traceback_depth+5)", expect='C36-PATH'),
    dict(id='C36-m1', file='pony/orm/dbapiprovider.py', fn='Pool.connect',
         old='        if pool.con is not None and pool.pid != pid:\n            pool.forked_connections.append((pool.con, pool.pid))\n            pool.con = pool.pid = None\n', new='', expect='C36-OWNER'),
    dict(id='C36-m2', file='pony/orm/dbapiprovider.py', fn='Pool.connect', old='            pool._connect()\n            pool.pid = pid', new='            pool.pid = pid\n            pool._connect()', benign=True),
    dict(id='C36-m3', file='pony/orm/dbapiprovider.py', fn='Pool.connect', old='            pool.forked_connections.append((pool.con, pool.pid))\n            pool.con = pool.pid = None', new='            pool.con.close()\n            pool.con = pool.pid = None', expect='C36-PARK'),
    dict(id='C36-m4', file='pony/orm/dbapiprovider.py', fn='Pool.connect', old='            pool.forked_connections.append((pool.con, pool.pid))\n', new='', expect='C36-PARK.inherited-connection-is-parked'),
    dict(id='C36-m5', file='pony/orm/dbproviders/sqlite.py', fn='SQLitePool.__init__', old='        pool.con = pool.pid = None\n', new='        pool.pid = None\n', expect='C36-SUB.subclass-initialises-connection-slot'),
    dict(id='C36-dis1', file='pony/orm/dbapiprovider.py', fn='Pool.disconnect', old="        if con is None: pass\n        elif pool.pid != os.getpid():  # inherited from the parent process: closing it would end the parent's session\n            pool.forked_connections.append((con, pool.pid))\n            pool.pid = None\n        else: con.close()",
         new="        if con is not None: con.close()", expect='C36-PARK.disconnect-does-not-close'),
    dict(id='C36-dis2', file='pony/orm/dbapiprovider.py', fn='Pool.disconnect', old="        elif pool.pid != os.getpid():", new="        elif pool.pid == os.getpid():", expect='C36-PARK.disconnect'),
    dict(id='C36-dis3', file='pony/orm/dbapiprovider.py', fn='Pool.disconnect', old="            pool.forked_connections.append((con, pool.pid))\n            pool.pid = None\n        else: con.close()", new="            pool.pid = None\n        else: con.close()", expect='C36-PARK.disconnect-parks'),
    dict(id='C36-dis4', file='pony/orm/dbapiprovider.py', fn='Pool.disconnect', old="        if con is None: pass\n        elif pool.pid != os.getpid():", new="        mine = pool.pid == os.getpid()\n        if con is None: return\n        if not mine:", benign=True),
    dict(id='C36-pid0', file='pony/orm/dbproviders/sqlite.py', fn='SQLitePool.__init__', old='        pool.con = pool.pid = None\n', new='        pool.con = None\n', expect='C36-SUB.subclass-initialises-owner-slot'),
    dict(id='C36-m6', file='pony/orm/dbapiprovider.py', fn='Pool.connect', old='        if pool.con is not None and pool.pid != pid:', new='        if pool.con is not None and pool.pid == pid:', expect='C36-'),
]
