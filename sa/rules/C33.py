"""C33  Lifecycle hooks run once per saved change and their edits are saved."""
import ast
from ..loader import dotted, walk_no_nested, norm, head, calls_in
from ..q import nodes_calling, is_call_to, assign_pairs

EXPLANATION = """
Static clauses decided (necessary conditions of C33):
 BEFORE  every call site that can emit an object's INSERT/UPDATE/DELETE (a call of <x>._save_()) is preceded, in the same
         function and for the same object, by <x>._before_save_() -- or lies in a loop that is dominated by a loop calling
         _before_save_ over the same queue (SessionCache.flush).  _before_save_ dispatches created/modified/marked_to_delete
         to before_insert/before_update/before_delete.
 AFTER   Entity._save_ records (obj, status) in cache.saved_objects on every normal path; every flush entry point
         (SessionCache.flush, Entity.flush) calls call_after_save_hooks after its saves; call_after_save_hooks swaps the list
         out before iterating (each record is delivered once) and dispatches inserted/updated/deleted to after_*.
 EDITS   edits made inside before_* hooks are part of the same flush: the hook loop iterates the live save queue (objects
         created in a hook are appended and visited), the m2m snapshot is taken after the hook loop, and the flush loop
         re-tests cache.modified after the after_* hooks.
"""
NOT_DECIDED = "that user hooks terminate; exactly-once across nested flushes triggered from inside hooks"

CORE = 'pony.orm.core'


def run(ctx):
    repo, cg = ctx.repo, ctx.cg
    # ---------------------------------------------------------------- BEFORE
    n = 0
    for fn in repo.rule_funcs():
        if fn.mod.name != CORE: continue
        g = None
        for c in calls_in(fn.node):
            if isinstance(c.func, ast.Attribute) and c.func.attr == '_save_' and isinstance(c.func.value, ast.Name):
                n += 1
                g = g or cg.cfg(fn)
                x = c.func.value.id
                site = [nd for nd in g.nodes if nd.ast is not None and any(y is c for y in nd.walk())]
                before = nodes_calling(g, lambda k: is_call_to(k, x, '_before_save_'))
                ok = bool(before) and all(g.dominated(s, before) for s in site)
                if not ok:
                    # loop form: the save loop is dominated by a hook loop over the same iterable
                    loops = [l for l in walk_no_nested(fn.node) if isinstance(l, ast.For) and any(y is c for y in ast.walk(l))]
                    hook_loops = innermost_loops_with(fn.node, '_before_save_')
                    loops = [l for l in loops if not any(isinstance(m, ast.For) and m is not l and any(y is c for y in ast.walk(m)) for m in ast.walk(l))] or loops
                    if loops and hook_loops and any(norm(h.iter) == norm(loops[-1].iter) for h in hook_loops):
                        hn = [nd for nd in g.nodes if nd.kind == 'iter' and nd.ast in hook_loops]
                        ok = all(g.dominated(s, hn) for s in site)
                ctx.ob('C33-BEFORE.save-is-preceded-by-before-hook', fn, c, ok,
                       '' if ok else '`%s` can emit the INSERT/UPDATE/DELETE of `%s`, but `%s._before_save_()` is not called before it in %s: the object is '
                       'written without its before_insert/before_update/before_delete hook (its after_* hook still runs)' % (norm(c), x, x, fn.qual),
                       node=c, expected='%s._before_save_() before %s._save_()' % (x, x))
    ctx.floor('C33-BEFORE', n, 3, 'call sites of _save_')
    bs = repo.fn(CORE, 'Entity._before_save_')
    pairs = {"status == 'created'": 'before_insert', "status == 'modified'": 'before_update', "status == 'marked_to_delete'": 'before_delete'}
    for s in walk_no_nested(bs.node):
        if isinstance(s, ast.If):
            t = norm(s.test)
            if t in pairs:
                ok = any(isinstance(c.func, ast.Attribute) and c.func.attr == pairs[t] for b in s.body for c in calls_in(b))
                ctx.ob('C33-BEFORE.dispatch', bs, s, ok, '' if ok else '%s does not call %s' % (t, pairs[t]), node=s); pairs.pop(t)
    ctx.ob('C33-BEFORE.dispatch-complete', bs, bs.node, not pairs, '' if not pairs else 'no dispatch for %s' % sorted(pairs))
    # ---------------------------------------------------------------- AFTER
    sv = repo.fn(CORE, 'Entity._save_'); g = cg.cfg(sv)
    rec = nodes_calling(g, lambda c: isinstance(c.func, ast.Attribute) and c.func.attr == 'append' and norm(c.func.value).endswith('.saved_objects'))
    own = nodes_calling(g, lambda c: isinstance(c.func, ast.Attribute) and c.func.attr in ('_save_created_', '_save_updated_', '_save_deleted_'))
    ctx.floor('C33-AFTER', len(own), 3, 'statement emitters in _save_')
    for o in own:
        ok = bool(rec) and g.must_pass_after(o, rec, exits=[g.exit])
        ctx.ob('C33-AFTER.saved-object-is-recorded', sv, o.ast, ok, '' if ok else 'an object can be saved without being appended to cache.saved_objects (no after_* hook)', node=o.ast)
    for qual in ('SessionCache.flush', 'Entity.flush'):
        f = repo.fn(CORE, qual); g = cg.cfg(f)
        saves = nodes_calling(g, lambda c: isinstance(c.func, ast.Attribute) and c.func.attr == '_save_')
        after = nodes_calling(g, lambda c: isinstance(c.func, ast.Attribute) and c.func.attr == 'call_after_save_hooks')
        for s in saves:
            ok = bool(after) and g.must_pass_after(s, after, exits=[g.exit])
            ctx.ob('C33-AFTER.flush-delivers-after-hooks', f, s.ast, ok, '' if ok else '%s can return after saving without call_after_save_hooks()' % qual, node=s.ast)
    ca = repo.fn(CORE, 'SessionCache.call_after_save_hooks'); g = cg.cfg(ca); recv = ca.recv
    swap = [x for x in g.nodes if x.kind == 'stmt' and any(dotted(t) == recv + '.saved_objects' and v is not None and norm(v) in ('[]', 'list()') for t, v in assign_pairs(x.ast))]
    loops = [x for x in g.nodes if x.kind == 'iter']
    ok = bool(swap) and len(loops) == 1 and g.dominated(loops[0], swap) and dotted(loops[0].ast.iter) != recv + '.saved_objects'
    ctx.ob('C33-AFTER.records-delivered-once', ca, swap[0].ast if swap else ca.node, ok,
           '' if ok else 'call_after_save_hooks iterates cache.saved_objects without swapping it out first: a hook that triggers a flush delivers records twice')
    af = repo.fn(CORE, 'Entity._after_save_')
    pairs = {"status == 'inserted'": 'after_insert', "status == 'updated'": 'after_update', "status == 'deleted'": 'after_delete'}
    for s in walk_no_nested(af.node):
        if isinstance(s, ast.If) and norm(s.test) in pairs:
            t = norm(s.test)
            ok = any(isinstance(c.func, ast.Attribute) and c.func.attr == pairs[t] for b in s.body for c in calls_in(b))
            ctx.ob('C33-AFTER.dispatch', af, s, ok, '' if ok else '%s does not call %s' % (t, pairs[t]), node=s); pairs.pop(t)
    ctx.ob('C33-AFTER.dispatch-complete', af, af.node, not pairs, '' if not pairs else 'no dispatch for %s' % sorted(pairs))
    # ---------------------------------------------------------------- EDITS
    fl = repo.fn(CORE, 'SessionCache.flush'); g = cg.cfg(fl); recv = fl.recv
    hook_loops = innermost_loops_with(fl.node, '_before_save_')
    ok = bool(hook_loops) and all(norm(l.iter) == recv + '.objects_to_save' for l in hook_loops)
    ctx.ob('C33-EDITS.hook-loop-iterates-live-queue', fl, hook_loops[0] if hook_loops else fl.node, ok,
           '' if ok else 'the before-hook loop iterates `%s`, not the live save queue: objects created or modified inside a hook are not visited in this flush'
           % (norm(hook_loops[0].iter) if hook_loops else '?'))
    hooks = nodes_calling(g, lambda c: isinstance(c.func, ast.Attribute) and c.func.attr == '_before_save_')
    calc = nodes_calling(g, lambda c: isinstance(c.func, ast.Attribute) and c.func.attr == '_calc_modified_m2m')
    m2m = nodes_calling(g, lambda c: isinstance(c.func, ast.Attribute) and c.func.attr in ('remove_m2m', 'add_m2m'))
    for h in hooks:
        ok = bool(calc) and g.must_pass_after(h, calc, exits=m2m)
        ctx.ob('C33-EDITS.m2m-snapshot-after-hooks', fl, h.ast, ok, '' if ok else 'many-to-many changes are snapshotted before the before_* hooks: links changed inside a hook are dropped', node=h.ast)
    after = nodes_calling(g, lambda c: isinstance(c.func, ast.Attribute) and c.func.attr == 'call_after_save_hooks')
    retest = [t for t in g.nodes if t.kind == 'test' and norm(t.ast) == 'not %s.modified' % recv]
    ok = bool(after) and bool(retest) and all(any(t.id in g.reach([a], include_src=False) for t in retest) for a in after)
    ctx.ob('C33-EDITS.modifications-in-after-hooks-start-another-round', fl, after[0].ast if after else fl.node, ok,
           '' if ok else 'after the after_* hooks the flush does not re-test cache.modified')
    # ... and what the after_* hooks queue survives until that round: between the delivery of the after-hooks and the re-test of cache.modified nothing
    # resets the round's bookkeeping (the save queue, cache.modified, modified_collections) -- it is reset *before* the hooks run
    def resets_round(n):
        if n.kind != 'stmt' or n.ast is None: return False
        a = n.ast
        if isinstance(a, ast.Assign):
            for t in a.targets:
                tt = norm(t)
                if tt in ('%s.objects_to_save[:]' % recv, '%s.objects_to_save' % recv): return True
                if tt == '%s.modified' % recv and isinstance(a.value, ast.Constant) and a.value.value is False: return True
        return any(isinstance(c.func, ast.Attribute) and c.func.attr == 'clear' and norm(c.func.value) in ('%s.objects_to_save' % recv, '%s.modified_collections' % recv) for c in n.calls())
    resets = [n for n in g.nodes if resets_round(n)]
    ctx.need(resets, 'C33-EDITS: the statements that reset the save queue / cache.modified in flush were not found')
    for a in after:
        r_ = g.reach([a], avoid=retest, include_src=False, edge_ok=lambda x, y, lab: lab != 'exc')
        bad = [n for n in resets if n.id in r_]
        ctx.ob('C33-EDITS.what-after-hooks-queue-is-not-wiped', fl, bad[0].ast if bad else a.ast, not bad,
               '' if not bad else '`%s` runs after the after_* hooks and before cache.modified is tested again: objects a hook created, changed or deleted are taken out of '
               'the round\'s bookkeeping, their change is never written and they get no hooks of their own' % norm(bad[0].ast), node=a.ast)
    # ---------------------------------------------------------------- EDITS: every attribute a hook changes gets its write bit (shared with C28-BITS)
    from . import C28
    C28.bits_rule(ctx, P='C33-EDITS-BITS')
    # objects created by hooks (also hooks of another database's flush in the same commit) are written by the late flush in SessionCache.commit:
    # it depends on `cache.modified` alone -- a cache without an open transaction (only read so far) still has to flush what a hook put into it
    from ..typestate import scenario_edges
    cm = repo.fn(CORE, 'SessionCache.commit'); g = cg.cfg(cm); crecv = cm.recv
    fl = nodes_calling(g, lambda c: is_call_to(c, crecv, 'flush'))
    def late_atom(text, node):
        if text == crecv + '.modified': return True
        if text == crecv + '.in_transaction': return False
        return None
    ok = bool(fl) and g.must_pass_after(g.entry, fl, exits=[g.exit], edge_ok=scenario_edges(g, cm.node, late_atom, resolve=False))
    ctx.ob('C33-BEFORE.commit-flushes-whatever-is-modified', cm, fl[0].ast if fl else cm.node, ok,
           '' if ok else 'SessionCache.commit can finish with cache.modified set and no flush() when no transaction is open yet: an object a hook created in this '
           'database is never inserted and its own hooks never run')


def innermost_loops_with(fn_node, meth):
    def has(l): return any(isinstance(k, ast.Call) and isinstance(k.func, ast.Attribute) and k.func.attr == meth for k in ast.walk(l))
    loops = [l for l in walk_no_nested(fn_node) if isinstance(l, ast.For) and has(l)]
    return [l for l in loops if not any(isinstance(m, ast.For) and m is not l and has(m) for m in ast.walk(l))]


MUTANTS = [
    dict(id='C33-wipe1', file='pony/orm/core.py', fn='SessionCache.flush', old="                cache.objects_to_save[:] = ()\n                cache.modified = False\n\n                cache.call_after_save_hooks()\n", new="                cache.modified = False\n\n                cache.call_after_save_hooks()\n                cache.objects_to_save[:] = ()\n", expect='C33-EDITS.what-after-hooks'),
    dict(id='C33-wipe2', file='pony/orm/core.py', fn='SessionCache.flush', old="                cache.objects_to_save[:] = ()\n                cache.modified = False\n\n                cache.call_after_save_hooks()\n", new="                cache.objects_to_save[:] = ()\n\n                cache.call_after_save_hooks()\n                cache.modified = False\n", expect='C33-EDITS.what-after-hooks'),
    dict(id='C33-late', file='pony/orm/core.py', fn='SessionCache.commit', old="            if cache.modified: cache.flush()\n            if cache.in_transaction:", new="            if cache.modified and cache.in_transaction: cache.flush()\n            if cache.in_transaction:", expect='C33-BEFORE.commit-flushes'),
    dict(id='C33-m1', file='pony/orm/core.py', fn='Entity.flush', old='            obj._before_save_() # should be inside', new='            pass # should be inside', expect='C33-BEFORE.save'),
    dict(id='C33-m2', file='pony/orm/core.py', fn='Entity._save_', old='        cache.saved_objects.append((obj, obj._status_))\n', new='', expect='C33-AFTER.saved-object'),
    dict(id='C33-m3', file='pony/orm/core.py', fn='Entity.flush', old='            obj._save_()\n        cache.call_after_save_hooks()\n', new='            obj._save_()\n', expect='C33-AFTER.flush'),
    dict(id='C33-m4', file='pony/orm/core.py', fn='SessionCache.flush', old='                    for obj in cache.objects_to_save:  # can grow during iteration', new='                    for obj in list(cache.objects_to_save):  # can grow during iteration', expect='C33-EDITS.hook-loop'),
    dict(id='C33-m5', file='pony/orm/core.py', fn='SessionCache.call_after_save_hooks', old='        saved_objects = cache.saved_objects\n        cache.saved_objects = []\n        for obj, status in saved_objects:', new='        for obj, status in cache.saved_objects:', expect='C33-AFTER.records'),
    dict(id='C33-m6', file='pony/orm/core.py', fn='Entity._before_save_', old="        elif status == 'modified': obj.before_update()", new="        elif status == 'modified': pass", expect='C33-BEFORE.dispatch'),
    dict(id='C33-m7', file='pony/orm/core.py', fn='SessionCache.flush',
         old='                with cache.flush_disabled():\n                    for obj in cache.objects_to_save:  # can grow during iteration\n                        if obj is not None: obj._before_save_()\n\n                    cache.query_results.clear()\n                    modified_m2m = cache._calc_modified_m2m()\n',
         new='                with cache.flush_disabled():\n                    modified_m2m = cache._calc_modified_m2m()\n                    for obj in cache.objects_to_save:  # can grow during iteration\n                        if obj is not None: obj._before_save_()\n\n                    cache.query_results.clear()\n',
         expect='C33-EDITS.m2m-snapshot'),
]
