"""C19  Connections and the SQLite transaction lock are always released."""
import ast
from ..loader import dotted, walk_no_nested, norm, head, calls_in, AnalysisError
from ..q import nodes_calling, is_call_to
from ..typestate import Machine

EXPLANATION = """
Static clauses decided (necessary conditions of C19), by a finite-state abstract interpretation of each function's CFG
including exceptional edges and finally-copies (states are enumerated, not sampled):
 LOCK   SQLiteProvider: invariant `transaction lock held <=> cache.in_transaction`.  set_transaction_mode: from every entry
        state (immediate or not) every normal and exceptional exit satisfies the invariant (acquire_lock is followed by
        release_lock unless BEGIN IMMEDIATE succeeded).  commit / rollback / drop: from every entry state satisfying the
        invariant, every exit (also when the DB-API call raises) has lock free and in_transaction False, and the lock is
        released at most once (the summaries of the base-class methods are computed from their own CFGs).
        acquire_lock releases pre_transaction_lock on every exit.  in_transaction is written only by the functions that
        belong to this protocol.
 CONN   ownership of the DB-API connection: in SessionCache.close / connect / reconnect, once the connection has been
        taken out of (or not yet stored in) cache.connection, every exit has handed it to provider.release or provider.drop
        exactly once, or stored it in cache.connection.  DBAPIProvider.release, SQLiteProvider.release, MySQLProvider.release,
        Pool.release, PGPool.release: a failure while preparing the connection for reuse drops it before re-raising.
 CALL   every provider.commit/rollback/drop/release/set_transaction_mode call made from SessionCache passes the cache
        (otherwise in_transaction and the lock are not reset).
"""
NOT_DECIDED = "thread schedules; behaviour of the DB-API objects themselves; fairness of the two-lock scheme"

SQ = 'pony.orm.dbproviders.sqlite'
DP = 'pony.orm.dbapiprovider'
CORE = 'pony.orm.core'


def contains_call(n, pred):
    return any(pred(c) for c in n.calls())


def run(ctx):
    repo, cg = ctx.repo, ctx.cg
    from . import C17 as _C17
    _C17.global_commit_rules(ctx, P='C19-GLOBAL')        # a failed commit over several databases ends every one of the session's caches
    lock_rules(ctx)
    conn_rules(ctx)
    call_rules(ctx)


# ------------------------------------------------------------------------------------------------ LOCK
    # ---------------------------------------------------------------- FAILCLOSE
    # a failed commit / flush ends the session whatever state the failure left behind: in the handlers of SessionCache.commit and
    # flush_and_commit every path from the handler to its exit passes rollback() (-> close(): connection rolled back and returned, cache removed
    # from the thread's table).  A guard such as `if cache.in_transaction:` skips it exactly when the provider's commit() already reset the flag
    # in its `finally` -- the connection and its open transaction are orphaned.
    nfc = 0
    for qual in ('SessionCache.commit', 'SessionCache.flush_and_commit'):
        f = repo.fn(CORE, qual); g = cg.cfg(f)
        for h in [x for x in g.nodes if x.kind == 'handler']:
            rb = [x for x in g.nodes if x.kind == 'stmt' and x.ast is not None and x.id in g.reach([h]) and any(isinstance(c.func, ast.Attribute) and c.func.attr in ('rollback', 'close') and dotted(c.func.value) == f.recv for c in x.calls())]
            if not rb: continue
            nfc += 1
            ok = g.must_pass_after(h, rb, exits=[g.exit, g.raise_])
            ctx.ob('C19-FAILCLOSE.failed-commit-always-closes-the-session', f, rb[0].ast, ok,
                   '' if ok else 'the handler of %s can leave without rollback(): after a failed commit the cache stays registered with its connection and open transaction' % qual,
                   node=rb[0].ast, expected='unconditional cache.rollback() in the handler')
    ctx.floor('C19-FAILCLOSE', nfc, 2, 'commit/flush handlers that close the session')


def base_summary(ctx, name):
    """exit states of DBAPIProvider.<name>: -> (normal: set of intx values given (cn,intx) entry, exc: ...)"""
    repo, cg = ctx.repo, ctx.cg
    f = repo.fn(DP, 'DBAPIProvider.' + name)
    g = cg.cfg(f)
    cache = f.params[2] if len(f.params) > 2 else 'cache'
    def effect(n, env):
        if n.kind == 'stmt' and isinstance(n.ast, ast.Assign) and any(dotted(t) == cache + '.in_transaction' for t in n.ast.targets):
            v = n.ast.value
            if isinstance(v, ast.Constant) and isinstance(v.value, bool): return {'normal': [{'intx': v.value}]}
            raise AnalysisError('C19: %s assigns in_transaction = %s' % (f.full, norm(v)))
        return None
    def atom(t, env):
        if t == cache + ' is not None': return env['cn']
        if t == cache + ' is None': return not env['cn']
        return None
    summ = {}
    for cn, intx in ((True, True), (True, False), (False, False)):
        m = Machine(g, ['cn', 'intx'], effect, atom)
        IN = m.run([{'cn': cn, 'intx': intx}])
        summ[(cn, intx)] = ({e['intx'] for e in m.states_at(IN, g.exit)}, {e['intx'] for e in m.states_at(IN, g.raise_)})
    return f, summ


def lock_rules(ctx):
    repo, cg = ctx.repo, ctx.cg
    P = repo.cls(SQ, 'SQLiteProvider')
    # ---- set_transaction_mode
    f = repo.fn(SQ, 'SQLiteProvider.set_transaction_mode')
    g = cg.cfg(f); prov, cache = f.params[0], f.params[2]
    acq = lambda c: is_call_to(c, prov, 'acquire_lock'); rel = lambda c: is_call_to(c, prov, 'release_lock')
    ctx.floor('C19-LOCK', len(nodes_calling(g, acq)), 1, 'acquire_lock call sites')
    def effect(n, env):
        if n.kind != 'stmt': return None
        if contains_call(n, acq):
            return {'normal': [{'lock': 'held' if env['lock'] == 'free' else 'DOUBLE-ACQUIRE'}]}
        if contains_call(n, rel):
            upd = {'lock': 'free' if env['lock'] == 'held' else 'RELEASE-UNHELD'}
            return {'normal': [upd], 'exc': [upd]}
        if isinstance(n.ast, ast.Assign):
            for t in n.ast.targets:
                if dotted(t) == cache + '.in_transaction':
                    v = n.ast.value
                    if isinstance(v, ast.Constant) and isinstance(v.value, bool): return {'normal': [{'intx': v.value}]}
                    raise AnalysisError('C19: unreadable assignment %s' % norm(n.ast))
                if dotted(t) == cache + '.immediate':
                    raise AnalysisError('C19: set_transaction_mode rebinds cache.immediate')
        return None
    def atom(t, env):
        if t == cache + '.immediate': return env['imm']
        if t == cache + '.in_transaction': return env['intx']
        return None
    m = Machine(g, ['imm', 'intx', 'lock'], effect, atom, snap={cache + '.immediate': 'imm', cache + '.in_transaction': 'intx'})
    IN = m.run([{'imm': True, 'intx': False, 'lock': 'free'}, {'imm': False, 'intx': False, 'lock': 'free'}])
    for ex, nm in ((g.exit, 'normal return'), (g.raise_, 'exception')):
        sts = m.states_at(IN, ex)
        bad = [e for e in sts if (e['lock'] == 'held') != e['intx'] or e['lock'] not in ('held', 'free')]
        ctx.ob('C19-LOCK.set_transaction_mode-invariant@%s' % nm.split()[0], f, f.node, not bad,
               '' if not bad else 'on %s the state %s is reachable: the transaction lock is %s while cache.in_transaction is %s '
               '(a held lock without a transaction is never released; later immediate sessions block forever)'
               % (nm, bad[0], bad[0]['lock'], bad[0]['intx']),
               expected='lock held <=> in_transaction at every exit')
    held_after = [e for e in m.states_at(IN, g.exit) if e['imm'] and not e['intx']]
    ctx.ob('C19-LOCK.immediate-begins-transaction', f, f.node, not held_after and any(e['imm'] for e in m.states_at(IN, g.exit)),
           '' if not held_after else 'an immediate session can leave set_transaction_mode normally without in_transaction')
    # ---- commit / rollback / drop
    for name in ('commit', 'rollback', 'drop'):
        f = repo.fn(SQ, 'SQLiteProvider.' + name)
        basef, summ = base_summary(ctx, name)
        g = cg.cfg(f); prov, cache = f.params[0], f.params[2]
        rel = lambda c: is_call_to(c, prov, 'release_lock')
        base_call = lambda c: dotted(c.func) == 'DBAPIProvider.' + name or (
            isinstance(c.func, ast.Attribute) and c.func.attr == name and isinstance(c.func.value, ast.Call) and dotted(c.func.value.func) == 'super')
        ctx.need(nodes_calling(g, base_call), 'C19: SQLiteProvider.%s does not delegate to DBAPIProvider.%s' % (name, name))
        snaps = set()
        def effect(n, env, cache=cache, summ=summ):
            if n.kind != 'stmt': return None
            if contains_call(n, base_call):
                ns, es = summ[(env['cn'], env['intx'])]
                # exceptional exit of the base call: in_transaction as the base leaves it, or untouched (raised early)
                return {'normal': [{'intx': v} for v in ns] or None, 'exc': [{'intx': v} for v in (es | {env['intx']})]}
            if contains_call(n, rel):
                upd = {'lock': 'free' if env['lock'] == 'held' else 'RELEASE-UNHELD'}
                return {'normal': [upd], 'exc': [upd]}
            if isinstance(n.ast, ast.Assign):
                for t in n.ast.targets:
                    if dotted(t) == cache + '.in_transaction':
                        v = n.ast.value
                        if isinstance(v, ast.Constant) and isinstance(v.value, bool): return {'normal': [{'intx': v.value}]}
                        raise AnalysisError('C19: unreadable assignment %s' % norm(n.ast))
                    if isinstance(t, ast.Name) and norm(n.ast.value) == '%s is not None and %s.in_transaction' % (cache, cache):
                        snaps.add(t.id)
                        return {'normal': [{'snap': env['cn'] and env['intx']}]}
            return None
        def atom(t, env, cache=cache):
            if t in snaps: return env['snap']
            if t == cache + '.in_transaction': return env['intx']
            if t == cache + ' is not None': return env['cn']
            if t == cache + ' is None': return not env['cn']
            return None
        m = Machine(g, ['cn', 'intx', 'lock', 'snap'], effect, atom)
        inits = [{'cn': True, 'intx': True, 'lock': 'held', 'snap': None}, {'cn': True, 'intx': False, 'lock': 'free', 'snap': None},
                 {'cn': False, 'intx': False, 'lock': 'free', 'snap': None}]
        IN = m.run(inits)
        for ex, nm in ((g.exit, 'normal'), (g.raise_, 'exception')):
            sts = m.states_at(IN, ex)
            if ex is g.exit: ctx.need(sts, 'C19: no normal exit state for SQLiteProvider.%s' % name)
            bad = [e for e in sts if e['lock'] != 'free' or e['intx']]
            ctx.ob('C19-LOCK.%s-releases-lock-and-resets-flag@%s' % (name, nm), f, f.node, not bad,
                   '' if not bad else 'after SQLiteProvider.%s (%s exit) the state %s is reachable: lock=%s, in_transaction=%s. '
                   'A later cleanup call would release the lock again (freeing another session\'s lock) or never release it'
                   % (name, nm, {k: bad[0][k] for k in ('cn', 'intx', 'lock')}, bad[0]['lock'], bad[0]['intx']),
                   expected='lock free and in_transaction False on every exit, released once')
    # ---- acquire_lock
    f = repo.fn(SQ, 'SQLiteProvider.acquire_lock')
    g = cg.cfg(f); prov = f.params[0]
    def effect(n, env):
        if n.kind != 'stmt': return None
        for c in n.calls():
            d = dotted(c.func) or ''
            if d == prov + '.pre_transaction_lock.acquire': return {'normal': [{'pre': 'held'}]}
            if d == prov + '.pre_transaction_lock.release': return {'normal': [{'pre': 'free'}], 'exc': [{'pre': 'free'}]}
            if d == prov + '.transaction_lock.acquire': return {'normal': [{'tl': 'held'}]}
        return None
    m = Machine(g, ['pre', 'tl'], effect, lambda t, env: None)
    IN = m.run([{'pre': 'free', 'tl': 'free'}])
    bad = [e for ex in (g.exit, g.raise_) for e in m.states_at(IN, ex) if e['pre'] != 'free']
    bad2 = [e for e in m.states_at(IN, g.exit) if e['tl'] != 'held']
    ctx.ob('C19-LOCK.acquire_lock-releases-pre-lock', f, f.node, not bad and not bad2,
           '' if not (bad or bad2) else 'acquire_lock can exit with pre_transaction_lock held or without the transaction lock: %s' % (bad or bad2)[0])
    # ---- writers of in_transaction
    allowed = {'DBAPIProvider.commit', 'DBAPIProvider.rollback', 'DBAPIProvider.drop', 'SQLiteProvider.commit', 'SQLiteProvider.rollback',
               'SQLiteProvider.drop', 'Database._exec_sql', 'Database.get_connection', 'SessionCache.__init__'}
    n = 0
    for fn in repo.rule_funcs():
        for st in walk_no_nested(fn.node):
            if isinstance(st, ast.Assign) and any(isinstance(t, ast.Attribute) and t.attr == 'in_transaction' for t in st.targets):
                n += 1
                val = st.value.value if isinstance(st.value, ast.Constant) else None
                ok = fn.qual in allowed or (fn.name == 'set_transaction_mode' and val is True)
                if val is False and fn.qual not in allowed: ok = False
                ctx.ob('C19-LOCK.in_transaction-writers', fn, st, ok,
                       '' if ok else 'in_transaction is assigned %s outside the commit/rollback/drop/set_transaction_mode protocol: '
                       'the SQLite lock is keyed on this flag' % norm(st.value), node=st)
    ctx.floor('C19-LOCK', n, 12, 'assignments to in_transaction')
    # release_lock callers
    rl = [(fn, c) for fn in repo.rule_funcs() for c in calls_in(fn.node) if isinstance(c.func, ast.Attribute) and c.func.attr == 'release_lock']
    for fn, c in rl:
        ok = fn.qual in ('SQLiteProvider.set_transaction_mode', 'SQLiteProvider.commit', 'SQLiteProvider.rollback', 'SQLiteProvider.drop')
        ctx.ob('C19-LOCK.release_lock-callers', fn, c, ok, '' if ok else 'release_lock called from %s' % fn.qual, node=c)
    ctx.floor('C19-LOCK', len(rl), 4, 'release_lock call sites')


# ------------------------------------------------------------------------------------------------ CONN
def once_machine(ctx, f, conn_var, acquire, consume, transfer, start_owned, rule, what, raise_ok_before_acquire=True):
    """res: 'none' (no connection) | 'pre' (a connection exists but is not ours yet) | 'owned' | 'gone' | 'stored' | 'DOUBLE'"""
    cg = ctx.cg
    g = cg.cfg(f)
    def effect(n, env):
        if n.kind not in ('stmt',): return None
        eff = effect0(n, env)
        if not relevant(n):                               # only connection/provider operations are modelled as failure points
            eff = dict(eff or {}); eff['exc'] = []
        return eff
    def effect0(n, env):
        if acquire is not None and acquire(n):
            upd = {'res': 'owned' if env['res'] in ('pre', 'none', 'owned') else env['res']}
            return {'normal': [upd], 'exc': [upd]}
        if any(consume(c) for c in n.calls()):
            upd = {'res': 'gone' if env['res'] in ('owned',) else ('DOUBLE' if env['res'] == 'gone' else env['res'])}
            return {'normal': [upd], 'exc': [upd]}      # callee contract: a failing release/drop has disposed of the connection
        if transfer is not None and transfer(n):
            return {'normal': [{'res': 'stored' if env['res'] == 'owned' else env['res']}]}
        return None
    def relevant(n):
        if isinstance(n.ast, ast.Raise): return True
        for c in n.calls():
            root = (dotted(c.func) or norm(c.func)).split('.')[0]
            if root in (conn_var, 'cursor', 'provider', 'pool', 'DBAPIProvider', 'database', 'reraise'): return True
        return False
    def atom(t, env):
        if t == conn_var + ' is None': return env['res'] == 'none'
        if t == conn_var + ' is not None': return env['res'] != 'none'
        return None
    m = Machine(g, ['res'], effect, atom)
    inits = [{'res': 'owned'}] if start_owned else [{'res': 'none'}, {'res': 'pre'}]
    IN = m.run(inits)
    bad = []
    for ex, nm in ((g.exit, 'normal return'), (g.raise_, 'exception')):
        for e in m.states_at(IN, ex):
            if e['res'] == 'owned': bad.append('%s with the connection neither released, dropped nor stored (leak)' % nm)
            if e['res'] == 'DOUBLE': bad.append('%s after the connection was released/dropped twice' % nm)
    ctx.ob(rule, f, f.node, not bad, '' if not bad else '%s: %s' % (what, '; '.join(sorted(set(bad)))),
           expected='released or dropped exactly once, or stored in cache.connection, on every exit')
    return g


def conn_rules(ctx):
    repo, cg = ctx.repo, ctx.cg
    prov_consume = lambda c: isinstance(c.func, ast.Attribute) and c.func.attr in ('release', 'drop') and (
        dotted(c.func.value) in ('provider', 'provider.pool', 'pool', 'DBAPIProvider') or norm(c.func.value).endswith('.provider'))
    # SessionCache.close: ours from `cache.connection = None`
    f = repo.fn(CORE, 'SessionCache.close'); recv = f.recv
    take = lambda n: isinstance(n.ast, ast.Assign) and any(dotted(t) == recv + '.connection' for t in n.ast.targets) \
        and isinstance(n.ast.value, ast.Constant) and n.ast.value.value is None
    g = cg.cfg(f)
    ctx.need([n for n in g.nodes if n.kind == 'stmt' and take(n)], 'C19: SessionCache.close no longer clears cache.connection')
    once_machine(ctx, f, 'connection', take, prov_consume, None, False, 'C19-CONN.close-disposes-connection-once', 'SessionCache.close')
    # every path that reaches the normal exit with a connection passes `cache.connection = None` (else it stays attached to a dead cache)
    # SessionCache.reconnect
    f = repo.fn(CORE, 'SessionCache.reconnect'); recv = f.recv
    once_machine(ctx, f, 'connection', take, prov_consume, None, False, 'C19-CONN.reconnect-drops-failed-connection', 'SessionCache.reconnect')
    # SessionCache.connect: ours from provider.connect(), transferred by cache.connection = connection
    f = repo.fn(CORE, 'SessionCache.connect'); recv = f.recv
    # the connection becomes the session's responsibility when set_transaction_mode starts to change its state
    # (before that it simply stays in the thread-local pool)
    acq = lambda n: any(isinstance(c.func, ast.Attribute) and c.func.attr == 'set_transaction_mode' for c in n.calls())
    store = lambda n: isinstance(n.ast, ast.Assign) and any(dotted(t) == recv + '.connection' for t in n.ast.targets) and dotted(n.ast.value) == 'connection'
    g = cg.cfg(f)
    ctx.need([n for n in g.nodes if n.kind == 'stmt' and acq(n)] and [n for n in g.nodes if n.kind == 'stmt' and store(n)], 'C19: SessionCache.connect shape changed')
    once_machine(ctx, f, 'connection', acq, prov_consume, store, False, 'C19-CONN.connect-drops-on-failed-start', 'SessionCache.connect')
    # provider / pool level: failure while preparing for reuse => dropped before re-raise
    specs = [(DP, 'DBAPIProvider.release', 'connection'), (SQ, 'SQLiteProvider.release', 'connection'),
             ('pony.orm.dbproviders.mysql', 'MySQLProvider.release', 'connection'), (DP, 'Pool.release', 'con'),
             ('pony.orm.dbproviders.postgres', 'PGPool.release', 'con')]
    for modn, qual, var in specs:
        f = repo.fn(modn, qual)
        g = cg.cfg(f)
        is_pool = qual.endswith('Pool.release')
        consume = (lambda c: isinstance(c.func, ast.Attribute) and c.func.attr == 'drop') if is_pool else prov_consume
        # statements that use the connection and may fail
        uses = [n for n in g.nodes if n.kind == 'stmt' and not isinstance(n.ast, ast.Assert) and n.copy == '' and any(
            isinstance(c.func, ast.Attribute) and (dotted(c.func.value) or '').split('.')[0] in (var, 'cursor') for c in n.calls())]
        cons = nodes_calling(g, consume)
        bad = []
        for u in uses:
            srcs = [y for y, lab in g.succ[u.id] if lab == 'exc']
            rr = g.reach(srcs, avoid=cons)
            if g.raise_.id in rr or g.exit.id in rr: bad.append(u)
        if is_pool:
            ctx.ob('C19-CONN.failed-reuse-drops-connection', f, bad[0].ast if bad else f.node, bool(uses) and not bad,
                   '' if uses and not bad else ('a failure of `%s` leaves the broken connection in the pool' % norm(bad[0].ast) if bad else 'no use of the connection found'),
                   node=bad[0].ast if bad else None)
        else:
            ctx.ob('C19-CONN.failed-reuse-drops-connection', f, bad[0].ast if bad else f.node, not bad,
                   '' if not bad else 'a failure of `%s` propagates without dropping or releasing the connection' % norm(bad[0].ast),
                   node=bad[0].ast if bad else None)
            # normal paths dispose exactly once
            once_machine(ctx, f, var, None, prov_consume, None, True, 'C19-CONN.release-disposes-once', qual)
    # Pool.drop / disconnect forget the handle before closing
    for qual in ('Pool.drop', 'Pool.disconnect'):
        f = repo.fn(DP, qual); g = cg.cfg(f)
        clr = [n for n in g.nodes if n.kind == 'stmt' and isinstance(n.ast, ast.Assign) and any(dotted(t) == f.recv + '.con' for t in n.ast.targets)
               and isinstance(n.ast.value, ast.Constant) and n.ast.value.value is None]
        cl = nodes_calling(g, lambda c: isinstance(c.func, ast.Attribute) and c.func.attr == 'close')
        ok = bool(clr) and bool(cl) and all(g.dominated(c, clr) for c in cl)
        ctx.ob('C19-CONN.pool-forgets-handle-before-close', f, f.node, ok, '' if ok else '%s closes the connection but may keep pool.con (a failing close() leaves a dead handle to be reused)' % qual)


# ------------------------------------------------------------------------------------------------ CALL
def call_rules(ctx):
    repo, cg = ctx.repo, ctx.cg
    SC = repo.cls(CORE, 'SessionCache')
    n = 0
    for name, f in SC.methods.items():
        for c in calls_in(f.node):
            if isinstance(c.func, ast.Attribute) and c.func.attr in ('commit', 'rollback', 'drop', 'release', 'set_transaction_mode') \
                    and (norm(c.func.value).endswith('provider')):
                n += 1
                args = [norm(a) for a in c.args] + [norm(k.value) for k in c.keywords]
                ok = f.recv in args
                ctx.ob('C19-CALL.session-passes-cache-to-provider', f, c, ok,
                       '' if ok else 'provider.%s is called without the cache: in_transaction is not reset and the SQLite lock is not released' % c.func.attr, node=c)
    ctx.floor('C19-CALL', n, 6, 'provider.commit/rollback/drop/release/set_transaction_mode calls in SessionCache')


MUTANTS = [
    dict(id='C19-fc1', file='pony/orm/core.py', fn='SessionCache.flush_and_commit', old="        try: cache.flush()\n        except:\n            cache.rollback()\n            raise", new="        try: cache.flush()\n        except:\n            if cache.modified: cache.rollback()\n            raise", expect='C19-FAILCLOSE'),
    dict(id='C19-m1', file='pony/orm/dbproviders/sqlite.py', fn='SQLiteProvider.commit',
         old='                cache.in_transaction = False\n', new='', expect='C19-LOCK.commit-releases'),
    dict(id='C19-m2', file='pony/orm/dbproviders/sqlite.py', fn='SQLiteProvider.rollback',
         old='        try:\n            DBAPIProvider.rollback(provider, connection, cache)\n        finally:\n            if in_transaction:\n                cache.in_transaction = False\n                provider.release_lock()',
         new='        DBAPIProvider.rollback(provider, connection, cache)\n        if in_transaction:\n            cache.in_transaction = False\n            provider.release_lock()',
         expect='C19-LOCK.rollback-releases'),
    dict(id='C19-m3', file='pony/orm/dbproviders/sqlite.py', fn='SQLiteProvider.set_transaction_mode',
         old='            if cache.immediate and not cache.in_transaction:\n                provider.release_lock()', new='            pass', expect='C19-LOCK.set_transaction_mode'),
    dict(id='C19-m4', file='pony/orm/dbproviders/sqlite.py', fn='SQLiteProvider.set_transaction_mode',
         old='        if cache.immediate:\n            provider.acquire_lock()\n        try:\n            cursor = connection.cursor()',
         new='        cursor = connection.cursor()\n        if cache.immediate:\n            provider.acquire_lock()\n        try:\n            pass', benign=True),
    dict(id='C19-m5', file='pony/orm/dbproviders/sqlite.py', fn='SQLiteProvider.set_transaction_mode',
         old='        if cache.immediate:\n            provider.acquire_lock()\n        try:\n            cursor = connection.cursor()',
         new='        if cache.immediate:\n            provider.acquire_lock()\n        cursor = connection.cursor()\n        try:',
         expect='C19-LOCK.set_transaction_mode'),
    dict(id='C19-m6', file='pony/orm/dbproviders/sqlite.py', fn='SQLiteProvider.acquire_lock',
         old='        try:\n            provider.transaction_lock.acquire()\n        finally:\n            provider.pre_transaction_lock.release()',
         new='        provider.transaction_lock.acquire()\n        provider.pre_transaction_lock.release()', expect='C19-LOCK.acquire_lock'),
    dict(id='C19-m7', file='pony/orm/core.py', fn='SessionCache.close',
         old='                try: provider.rollback(connection, cache)\n                except:\n                    provider.drop(connection, cache)\n                    raise',
         new='                provider.rollback(connection, cache)', expect='C19-CONN.close'),
    dict(id='C19-m8', file='pony/orm/core.py', fn='SessionCache.connect',
         old='        except:\n            provider.drop(connection, cache)\n            raise', new='        except:\n            raise', expect='C19-CONN.connect'),
    dict(id='C19-m9', file='pony/orm/core.py', fn='SessionCache.close', old='provider.rollback(connection, cache)', new='provider.rollback(connection)', expect='C19-CALL'),
    dict(id='C19-m10', file='pony/orm/dbapiprovider.py', fn='Pool.release',
         old='        try: con.rollback()\n        except:\n            pool.drop(con)\n            raise', new='        con.rollback()', expect='C19-CONN.failed-reuse'),
    dict(id='C19-m11', file='pony/orm/dbproviders/sqlite.py', fn='SQLiteProvider.drop',
         old='            if in_transaction:\n                cache.in_transaction = False\n                provider.release_lock()', new='            pass', expect='C19-LOCK.drop-releases'),
    dict(id='C19-m12', file='pony/orm/core.py', fn='SessionCache.close',
         old='            provider.release(connection, cache)\n        finally:', new='            provider.release(connection, cache)\n            provider.drop(connection, cache)\n        finally:', expect='C19-CONN.close'),
    dict(id='C19-m13', file='pony/orm/core.py', fn='SessionCache.reconnect',
         old='            cache.connection = None\n            provider.drop(connection, cache)', new='            cache.connection = None', expect='C19-CONN.reconnect'),
]
