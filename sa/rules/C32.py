"""C32  Objects from a finished session are read-only snapshots."""
import ast
from ..loader import dotted, walk_no_nested, norm, head, AnalysisError
from ..q import nodes_calling

EXPLANATION = """
Static clause decided (necessary condition of C32): LIVE -- in every public, object-bound operation of core.py (methods
of Entity instances, of Attribute/Set descriptors that receive the object, of SetInstance/Multiset wrappers), every call
that can reach Database._exec_sql through the resolved call graph, and every direct store into the object's session
state (_vals_[..], _status_, _wbits_, the save queue), is dominated by a liveness test of the object's *own* session
cache: `cache is None or not cache.is_alive -> throw` (or the positive form `cache is not None and cache.is_alive`, or the
assert form), where `cache` was read from `<obj>._session_cache_`.  The analysis is interprocedural: a private helper that
reaches the database without its own test passes the obligation to each of its callers.  A test of `obj._vals_ is None`
alone is not accepted for database access: it is only true in strict mode, and the statement would run in whatever session
is current (wrong data instead of an error).
"""
NOT_DECIDED = "that loaded values stay readable; what the raised error message says; operations reached only via Query/EntityMeta (they act on the current session by construction)"

CORE = 'pony.orm.core'
ROOTS = {'Database._exec_sql', 'SessionCache.prepare_connection_for_query_execution'}
OBJ_CLASSES = ('Entity', 'Attribute', 'SetInstance', 'Multiset', 'SetIterator')

# public object-bound function -> reason it needs no liveness test of its own
EXCEPTIONS = {
    'Entity.__init__': "creates a new object in the current session; there is no finished session to guard",
    'Entity.get_pk': "reads _pkval_/_vals_ only",
    'Entity.find_updated_attributes': "diagnostic helper for OptimisticCheckError messages, called only from _save_updated_ during a flush "
                                      "(SessionCache.flush asserts is_alive); not a documented operation on objects",
}
# functions of these classes act on the *current* session by construction (the object is at most a parameter value)
CURRENT_SESSION_CLASSES = ('Query', 'QueryResult', 'QueryResultIterator')


def alive_dataflow(ctx, fn, g):
    """per CFG node: frozenset of {'alive','unknown','dead'} facts about the object's own session cache"""
    def classify(test):
        """-> (state on T edge, state on F edge) or None when the test does not mention is_alive"""
        txt = norm(test)
        if '.is_alive' not in txt: return None
        conj = test.values if isinstance(test, ast.BoolOp) else [test]
        if isinstance(test, ast.BoolOp) and isinstance(test.op, ast.Or):
            # X is None or not X.is_alive [or ...]  -> T dead/unknown, F alive provided a disjunct is `not X.is_alive`
            for v in test.values:
                if isinstance(v, ast.UnaryOp) and isinstance(v.op, ast.Not) and norm(v.operand).endswith('.is_alive'):
                    return ('dead', 'alive')
            if any(norm(v).endswith(' is None') for v in test.values) and any('.is_alive' in norm(v) for v in test.values):
                return ('dead', 'alive') if any(norm(v).startswith('not ') for v in test.values if '.is_alive' in norm(v)) else None
        if isinstance(test, ast.UnaryOp) and isinstance(test.op, ast.Not) and norm(test.operand).endswith('.is_alive'):
            return ('dead', 'alive')
        if isinstance(test, ast.BoolOp) and isinstance(test.op, ast.And):
            if any(norm(v).endswith('.is_alive') for v in test.values): return ('alive', 'unknown')
        if txt.endswith('.is_alive'): return ('alive', 'dead')
        raise AnalysisError('C32: unrecognised liveness test `%s` in %s' % (txt, fn.full))

    def transfer(n, state, lab):
        if n.kind == 'test':
            c = classify(n.ast)
            if c is not None:
                if lab == 'T': return frozenset([c[0]])
                if lab == 'F': return frozenset([c[1]])
        # `assert cache.is_alive` is deliberately NOT a guard: it documents an internal invariant, raises AssertionError
        # rather than the session-is-over error, and disappears under -O; the obligation passes to the callers
        return state
    return g.forward(['unknown'], transfer)


def own_cache_vars_ok(fn):
    """every variable used in an is_alive test is the object's own cache: assigned from <x>._session_cache_"""
    bad = []
    vars_ = set()
    for n in walk_no_nested(fn.node):
        if isinstance(n, ast.Attribute) and n.attr == 'is_alive':
            d = dotted(n.value)
            if d: vars_.add(d)
    for v in vars_:
        if v.endswith('._session_cache_') or v == fn.recv and fn.cls and fn.cls.name == 'SessionCache': continue
        defs = [st for st in walk_no_nested(fn.node) if isinstance(st, ast.Assign) and any(dotted(t) == v for t in st.targets)]
        if not defs or not all(norm(d.value).endswith('._session_cache_') for d in defs): bad.append(v)
    return bad


def is_state_store(st, fn):
    """statement stores into an object's session state"""
    tgts = []
    if isinstance(st, ast.Assign): tgts = st.targets
    elif isinstance(st, ast.AugAssign): tgts = [st.target]
    for t in tgts:
        for x in ([t] + (list(t.elts) if isinstance(t, ast.Tuple) else [])):
            if isinstance(x, ast.Subscript) and isinstance(x.value, ast.Attribute) and x.value.attr in ('_vals_',):
                # `setdata = obj._vals_[attr] = SetData()` only creates an empty, not-loaded placeholder slot
                if isinstance(st, ast.Assign) and norm(st.value) == 'SetData()': continue
                return True
            if isinstance(x, ast.Attribute) and x.attr in ('_status_', '_wbits_'): return True
    if isinstance(st, ast.Expr) and isinstance(st.value, ast.Call) and isinstance(st.value.func, ast.Attribute) \
            and st.value.func.attr == 'append' and 'objects_to_save' in norm(st.value.func.value): return True
    return False


def is_public(fn):
    n = fn.name
    if n.startswith('__') and n.endswith('__'): return True
    return not n.startswith('_')


def run(ctx):
    repo, cg = ctx.repo, ctx.cg
    core = repo.mod(CORE)
    obj_cls = set()
    for cn in OBJ_CLASSES:
        obj_cls |= set(repo.subclasses(repo.cls(CORE, cn)))
    funcs = [f for f in repo.rule_funcs() if f.mod is core]
    attr_base = repo.cls(CORE, 'Attribute')
    # ---- interprocedural fixpoint: NEEDS = functions that reach the database on a path without their own liveness test
    needs = {}      # Fn.full -> (call node, reason chain)
    for q in ROOTS: needs[CORE + '.' + q] = (None, [q])
    flows = {}
    def flow(f):
        if f.full not in flows:
            g = cg.cfg(f); flows[f.full] = (g, alive_dataflow(ctx, f, g))
        return flows[f.full]
    # seeds of the second kind: functions that store into an object's session state on a path without a liveness test
    for f in funcs:
        if f.full in needs or f.parent is not None: continue
        if f.cls is not None and f.cls.name in CURRENT_SESSION_CLASSES: continue
        if not any(is_state_store(st, f) for st in walk_no_nested(f.node) if isinstance(st, ast.stmt)): continue
        g, IN = flow(f)
        und = [n for n in g.nodes if n.kind == 'stmt' and n.id in IN and is_state_store(n.ast, f) and IN[n.id] != frozenset(['alive'])]
        if und: needs[f.full] = (und[0].ast, [f.qual + ' writes session state (line %d)' % und[0].lineno])
    changed = True; rounds = 0
    while changed:
        changed = False; rounds += 1
        ctx.need(rounds < 60, 'C32: fixpoint did not converge')
        for f in funcs:
            if f.full in needs: continue
            if f.cls is not None and f.cls.name in CURRENT_SESSION_CLASSES: continue
            edges = cg.callees(f)
            hot = [(c, t) for c, ts, kind in edges if kind in ('exact', 'dispatch', 'super', 'ctor', 'byname')
                   for t in ts if t.full in needs]
            if not hot: continue
            g, IN = flow(f)
            for c, t in hot:
                sites = [n for n in g.nodes if n.ast is not None and n.id in IN and any(x is c for x in n.walk())]
                und = [n for n in sites if IN[n.id] != frozenset(['alive'])]
                if und:
                    needs[f.full] = (c, [f.qual] + needs[t.full][1]); changed = True; break
    ctx.count('functions that can reach the database without a liveness test of their own', len(needs))
    # ---- obligations at public object-bound functions
    n_entry = 0
    for f in funcs:
        if f.cls not in obj_cls or f.parent is not None or not is_public(f): continue
        if attr_base in repo.mro(f.cls) and f.name not in ATTR_API: continue      # internal protocol of descriptors
        bound = (f.cls.name in ('Entity',) or repo.cls(CORE, 'Entity') in repo.mro(f.cls)) and f.recv is not None and not f.is_classmethod \
            or 'obj' in f.params or f.cls.name in ('SetInstance', 'Multiset', 'SetIterator') or repo.cls(CORE, 'SetInstance') in repo.mro(f.cls)
        if not bound: continue
        g, IN = flow(f)
        has_test = any('.is_alive' in norm(n.ast) for n in g.nodes if n.kind in ('test', 'stmt') and n.ast is not None
                       and not isinstance(n.ast, (ast.FunctionDef, ast.ClassDef)))
        stores = [n for n in g.nodes if n.kind == 'stmt' and n.id in IN and is_state_store(n.ast, f)]
        reaches = f.full in needs
        if not reaches and not stores and not has_test: continue
        n_entry += 1
        if f.qual in EXCEPTIONS:
            ctx.exception('C32-LIVE', f.qual, EXCEPTIONS[f.qual])
            ctx.ob('C32-LIVE.db-access-after-liveness-test', f, f.node, True, 'excepted: ' + EXCEPTIONS[f.qual], nontrivial=False)
            continue
        if reaches:
            c, chain = needs[f.full]
            ctx.ob('C32-LIVE.db-access-after-liveness-test', f, c, False,
                   'this call can reach the database (%s) on a path where the object\'s own session was not tested to be '
                   'alive; after the session ended the statement would run in whatever session is current' % ' -> '.join(chain),
                   node=c, expected='`cache = obj._session_cache_; if cache is None or not cache.is_alive: throw_db_session_is_over(...)` before it')
        else:
            ctx.ob('C32-LIVE.db-access-after-liveness-test', f, f.node, True)
        badvars = own_cache_vars_ok(f)
        if has_test:
            ctx.ob('C32-LIVE.test-is-on-own-cache', f, f.node, not badvars,
                   '' if not badvars else 'liveness is tested on %s which is not read from <obj>._session_cache_' % badvars)
        und = [n for n in stores if IN[n.id] != frozenset(['alive'])]
        # stores into session state by an operation that changes the object
        if f.name in MUTATING or f.name.startswith('__set') or f.name in ('__delete__',):
            ctx.ob('C32-LIVE.mutation-after-liveness-test', f, und[0].ast if und else f.node, not und,
                   '' if not und else 'session state is written at line %d without a dominating liveness test' % und[0].lineno,
                   node=und[0].ast if und else None)
    ctx.floor('C32-LIVE', n_entry, 18, 'public object-bound operations examined')
    # ---- a change is never *silently accepted*: the operations that change an object (and the notification hook of the tracked
    # Json/array containers, which runs after the in-place change was made) cannot return normally without having passed the liveness test
    n_ref = n_del = 0
    for f in funcs:
        if f.parent is not None or f.cls is None or f.cls not in obj_cls: continue
        if f.name not in MUTATING | {'__set__', '__delete__', '_attr_changed_'}: continue
        g, IN = flow(f)
        tests = [n for n in g.nodes if n.kind == 'test' and '.is_alive' in norm(n.ast)]
        if not tests:
            # the operation delegates: every normal path goes through a call on the same object whose every normal path passes a liveness test
            # (the callee's own early returns count: `_delete_` returning at once for an already deleted object would let delete() succeed silently)
            def always_tests(fn_, depth=0, seen=()):
                g_ = cg.cfg(fn_)
                guards = [n for n in g_.nodes if n.kind == 'test' and '.is_alive' in norm(n.ast)]
                guards += [n for n in g_.nodes if n.kind == 'stmt' and isinstance(n.ast, ast.Assert) and '.is_alive' in norm(n.ast.test)]
                if depth < 3:
                    for n in g_.nodes:
                        if n.ast is None or n.kind not in ('stmt', 'test'): continue
                        for c_ in n.calls():
                            if isinstance(c_.func, ast.Attribute) and dotted(c_.func.value) == fn_.recv and fn_.cls is not None:
                                tgt = repo.lookup(fn_.cls, c_.func.attr)
                                if tgt is not None and hasattr(tgt, 'node') and tgt.full not in seen and always_tests(tgt, depth + 1, seen + (fn_.full,)): guards.append(n)
                return bool(guards) and g_.exit.id not in g_.reach([g_.entry], avoid=guards, edge_ok=lambda x, y, lab: lab != 'exc')
            calls_same = [c_ for c_ in ast.walk(f.node) if isinstance(c_, ast.Call) and isinstance(c_.func, ast.Attribute) and dotted(c_.func.value) == f.recv]
            if not calls_same: continue       # nothing of the object is touched here
            n_del += 1
            ok = always_tests(f)
            ctx.ob('C32-LIVE.change-is-never-silently-accepted', f, f.node, ok,
                   '' if ok else '%s has no liveness test of its own and the operation it delegates to can return normally without one (an early return before the test): for an '
                   'object of a finished session the call succeeds silently' % f.qual, node=f.node)
            continue
        n_ref += 1
        allowed = {norm(ast.parse(k, mode='eval').body, limit=1000): v for k, v in NOOP_RETURNS.get(f.qual, {}).items()}
        from ..typestate import resolve_flags, canon_test
        allowed = dict(allowed, **{norm(canon_test(ast.parse(k, mode='eval').body), limit=1000): v for k, v in NOOP_RETURNS.get(f.qual, {}).items()})
        allowed_nodes = {n.id for n in g.nodes if n.kind == 'test' and (norm(n.ast, limit=1000) in allowed or norm(resolve_flags(f.node, n.ast, attrs=True), limit=1000) in allowed
                                                                        or norm(canon_test(resolve_flags(f.node, n.ast, depth=0, attrs=True)), limit=1000) in allowed)}
        for k in allowed: ctx.exception('C32-LIVE', '%s: `%s`' % (f.qual, k), allowed[k])
        r = g.reach([g.entry], avoid=tests, edge_ok=lambda x, y, lab: not (x in allowed_nodes and lab == 'T'))
        ok = g.exit.id not in r
        p_ = None if ok else g.path(g.entry, g.exit, avoid=tests, edge_ok=lambda x, y, lab: not (x in allowed_nodes and lab == 'T'))
        ctx.ob('C32-LIVE.change-is-never-silently-accepted', f, f.node, ok,
               '' if ok else '%s can return normally without having tested that the object\'s session is alive (%s): for an object of a finished session the '
               'change is accepted in memory without any error' % (f.qual, g.fmt_path(p_) if p_ else '?'), node=f.node,
               expected='the liveness test before every return (no-op returns are listed in NOOP_RETURNS with their reason)')
    ctx.floor('C32-LIVE', n_ref, 10, 'changing operations with their own liveness test')
    ctx.count('C32-LIVE: changing operations that delegate the liveness test', n_del)
    # ---- the flag the tests rely on: SessionCache.close marks the cache dead on every way out (before any early return)
    cl = repo.fn(CORE, 'SessionCache.close')
    g = cg.cfg(cl)
    dead = [n for n in g.nodes if n.kind == 'stmt' and isinstance(n.ast, ast.Assign) and any(dotted(t) == '%s.is_alive' % cl.recv for t in n.ast.targets)
            and isinstance(n.ast.value, ast.Constant) and n.ast.value.value is False]
    ok = bool(dead) and g.must_pass_after(g.entry, dead, exits=[g.exit])
    ctx.ob('C32-CLOSE.close-marks-session-dead-on-every-return', cl, dead[0].ast if dead else cl.node, ok,
           '' if ok else 'SessionCache.close can return (%s) leaving is_alive == True: objects of the finished session pass every '
           'liveness test' % g.fmt_path(g.path(g.entry, g.exit, avoid=dead) or []))
    # nothing else resurrects a cache
    alive_writes = []
    for f in funcs:
        for st in walk_no_nested(f.node):
            if isinstance(st, ast.Assign) and any(isinstance(t, ast.Attribute) and t.attr == 'is_alive' for t in st.targets):
                alive_writes.append((f, st))
    for f, st in alive_writes:
        val = st.value.value if isinstance(st.value, ast.Constant) else '?'
        ok = (val is True and f.qual == 'SessionCache.__init__') or (val is False and f.qual == 'SessionCache.close')
        ctx.ob('C32-CLOSE.is_alive-written-only-by-init-and-close', f, st, ok, '' if ok else 'is_alive is assigned %r in %s' % (val, f.qual), node=st)


# the descriptor API of the Attribute hierarchy; its other public-looking methods (validate, update_reverse, db_set, ...)
# are the internal protocol between descriptors and are reached only through these or through Entity/SetInstance operations
# early returns of changing operations that do nothing at all (test text -> reason)
    # ---- once the connection has been taken from the cache, the objects are detached (strict: their values dropped) on EVERY way out of close(),
    # also when the final ROLLBACK or the release of the connection raises
    g = cg.cfg(cl)
    taken = [n for n in g.nodes if n.kind == 'stmt' and isinstance(n.ast, ast.Assign) and any(dotted(t) == '%s.connection' % cl.recv for t in n.ast.targets)
             and isinstance(n.ast.value, ast.Constant) and n.ast.value.value is None]
    detach = [n for n in g.nodes if n.kind == 'test' and norm(n.ast).replace(' ', '') == 'db_sessionanddb_session.strict']
    ok = bool(taken) and bool(detach) and all(g.must_pass_after(t, detach, exits=[g.exit, g.raise_]) for t in taken)
    pth = None
    if taken and detach and not ok:
        for ex in (g.raise_, g.exit):
            pth = pth or g.path(taken[0], ex, avoid=detach)
    ctx.ob('C32-CLOSE.objects-detached-on-every-exit-of-close', cl, detach[0].stmt if detach else cl.node, ok,
           '' if ok else 'SessionCache.close can be left (%s) without detaching the session\'s objects: when the final ROLLBACK fails, objects of a strict session keep their '
           'values and stay readable after the session is over' % (g.fmt_path(pth) if pth else 'no detach block'), node=detach[0].stmt if detach else None,
           expected='the detaching block in a `finally:` that also covers provider.rollback()')


NOOP_RETURNS = {
    'Set.__set__': {'isinstance(new_items, SetInstance) and new_items._obj_ is obj and new_items._attr_ is attr':
                    'the write-back half of `obj.coll += x`: the change itself was made (or refused) by SetInstance.__iadd__/add'},
    'Entity.flush': {"obj._status_ not in ('created', 'modified', 'marked_to_delete')": 'nothing to flush: no change is requested'},
}
ATTR_API = {'__get__', '__set__', '__delete__', 'load', 'copy'}
MUTATING = {'set', 'delete', 'add', 'remove', 'clear', 'create', '__iadd__', '__isub__', 'flush', 'load', 'update'}

MUTANTS = [
    dict(id='C32-del1', file='pony/orm/core.py', fn='Entity.delete', old="        cache = obj._session_cache_\n        if cache is None or not cache.is_alive: throw_db_session_is_over('delete object', obj)\n        obj._delete_()", new="        obj._delete_()", expect='C32-LIVE'),
    dict(id='C32-c9', file='pony/orm/core.py', fn='SessionCache.close', old="        try:\n            if rollback:\n                try: provider.rollback(connection, cache)\n                except:\n                    provider.drop(connection, cache)\n                    raise\n            provider.release(connection, cache)\n",
         new="        if rollback:\n            try: provider.rollback(connection, cache)\n            except:\n                provider.drop(connection, cache)\n                raise\n        try: provider.release(connection, cache)\n", expect='C32-CLOSE.objects-detached'),
    dict(id='C32-r1', file='pony/orm/core.py', fn='Entity._attr_changed_', old="        cache = obj._session_cache_\n        if cache is None or not cache.is_alive: throw_db_session_is_over('assign new value to', obj, attr)\n", new="        if obj._wbits_ is None or obj._wbits_ & obj._bits_[attr]: return\n        cache = obj._session_cache_\n        if cache is None or not cache.is_alive: throw_db_session_is_over('assign new value to', obj, attr)\n", expect='C32-LIVE.change-is-never'),
    dict(id='C32-m8', file='pony/orm/core.py', fn='SessionCache.close',
         old='        cache.is_alive = False\n        provider = database.provider\n        connection = cache.connection\n        if connection is None: return\n        cache.connection = None\n',
         new='        provider = database.provider\n        connection = cache.connection\n        if connection is None: return\n        cache.connection = None\n        cache.is_alive = False\n',
         expect='C32-CLOSE.close-marks'),
    dict(id='C32-m1', file='pony/orm/core.py', fn='SetInstance.count',
         old="        if cache is None or not cache.is_alive: throw_db_session_is_over('read value of', obj, attr)\n", new='',
         expect='SetInstance.count'),
    dict(id='C32-m2', file='pony/orm/core.py', fn='Attribute.load',
         old="if cache is None or not cache.is_alive: throw_db_session_is_over('load attribute', obj, attr)", new='pass',
         expect='C32-LIVE'),
    dict(id='C32-m3', file='pony/orm/core.py', fn='Entity.load',
         old="if cache is None or not cache.is_alive: throw_db_session_is_over('load object', obj)", new='pass',
         expect='Entity.load'),
    dict(id='C32-m4', file='pony/orm/core.py', fn='SetInstance.add',
         old="if cache is None or not cache.is_alive: throw_db_session_is_over('change collection', obj, attr)", new='pass',
         expect='SetInstance.add'),
    dict(id='C32-m5', file='pony/orm/core.py', fn='Entity.delete',
         old="if cache is None or not cache.is_alive: throw_db_session_is_over('delete object', obj)", new='pass',
         expect='Entity.delete'),
    dict(id='C32-m6', file='pony/orm/core.py', fn='Attribute.__set__',
         old="if cache is None or not cache.is_alive: throw_db_session_is_over('assign new value to', obj, attr)",
         new="if cache is None: throw_db_session_is_over('assign new value to', obj, attr)", expect='Attribute.__set__'),
    dict(id='C32-m7', file='pony/orm/core.py', fn='Set.load',
         old="if cache is None or not cache.is_alive: throw_db_session_is_over('load collection', obj, attr)",
         new="cache = attr.entity._database_._get_cache()", expect='C32-LIVE'),
]
