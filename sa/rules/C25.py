"""C25  String indexing and slicing translate to Python semantics on every dialect."""
import ast
from ..loader import dotted, walk_no_nested, norm, head, calls_in
from ..q import nodes_calling
from ..typestate import Machine
from . import C05

EXPLANATION = """
Static clauses decided (necessary conditions of C25; the length arithmetic itself is NOT decided):
 SENTINEL an omitted slice bound is never confused with an explicit one: in StringMixin.__getitem__ a variable that gets an
          integer literal because the bound is omitted (`if stop is None: v = L`) and elsewhere
          the user's constant (`v = bound.value`) may be compared with L (identity shortcut, constant folding) only if L means
          the same as omission -- 0 for start does, no integer does for stop (s[:-1] is not s[:]).
 DEFAULT  a bound is defaulted only when it is omitted (`<bound> is None`), not when its *value* is unknown because it is an
          expression.
 TOTAL    the constant/constant sign analysis of SQLBuilder.STRING_SLICE is total: for each of the four sign combinations of
          (start, stop) a length expression is assigned and the failing else is unreachable (sign-domain evaluation of the
          branch conditions); the non-constant branches wrap the length in MAX(.., 0).
 SQLITE   SQLite's STRING_SLICE passes omitted bounds as NULL to py_string_slice, which returns s[start:end] (Python's own
          slicing).
 FIXED    parameter bounds folded into the SQL are recorded on the root translator (shared with C05).
"""
NOT_DECIDED = "the substring arithmetic for all integers on PostgreSQL/MySQL/Oracle (needs evaluation or a solver: other families)"

ST = 'pony.orm.sqltranslation'


def intlit(e):
    """integer literal incl. negative -> (True, value) else (False, None); None constant -> (True, None)"""
    if isinstance(e, ast.Constant) and (isinstance(e.value, int) and not isinstance(e.value, bool) or e.value is None): return True, e.value
    if isinstance(e, ast.UnaryOp) and isinstance(e.op, ast.USub) and isinstance(e.operand, ast.Constant) and isinstance(e.operand.value, int): return True, -e.operand.value
    return False, None


def run(ctx):
    repo, cg = ctx.repo, ctx.cg
    gi = repo.fn(ST, 'StringMixin.__getitem__')
    funcs = [gi] + list(gi.nested.values())
    # ---------------------------------------------------------------- SENTINEL / DEFAULT
    n = 0
    for f in funcs:
        for s in walk_no_nested(f.node):
            # pattern A:  if <bound> is None: v = <int>       pattern B:  v = <int a> if is_start else <int b>  (None parameter)
            if isinstance(s, ast.If) and len(s.body) == 1 and isinstance(s.body[0], ast.Assign) and intlit(s.body[0].value)[0] \
                    and intlit(s.body[0].value)[1] is not None and isinstance(s.test, ast.Compare) and isinstance(s.test.ops[0], ast.Is):
                var = dotted(s.body[0].targets[0]); lit = intlit(s.body[0].value)[1]
                tested = norm(s.test.left)
                which = 'start' if 'start' in var else 'stop' if 'stop' in var else None
                if which is None: continue
                n += 1
                # DEFAULT: the test must be about the bound being omitted, not about the value variable itself
                ok_def = tested == which
                ctx.ob('C25-DEFAULT.bound-defaulted-only-when-omitted', f, s, ok_def,
                       '' if ok_def else '`%s` defaults %s although the %s bound may be present as a non-constant expression (its value variable is '
                       'None for expressions too): s[0:expr] is then taken for s[0:] and returned unsliced' % (norm(s.test), var, which), node=s)
                ok = (which == 'start' and lit == 0)
                ctx.ob('C25-SENTINEL.omitted-bound-is-not-an-explicit-value', f, s, ok,
                       '' if ok else 'an omitted %s bound is represented by the integer %d in `%s`, which is also a legitimate explicit bound: '
                       's[:%d] / s[0:%d] with the constant or parameter %d is treated as "no %s bound" (identity shortcut and constant folding use %s)'
                       % (which, lit, var, lit, lit, lit, which, var), node=s, expected='None (or a dedicated marker) for the omitted %s bound' % which)
    ctx.floor('C25-SENTINEL', n, 2, 'bound-defaulting statements')
    # ---------------------------------------------------------------- TOTAL
    bs = repo.fn('pony.orm.sqlbuilding', 'SQLBuilder.STRING_SLICE'); g = cg.cfg(bs)
    def atom(t, env):
        import re
        m = re.fullmatch(r'(start_value|stop_value) (>=|<=|<|>|==|!=) 0', t)
        if m:
            v = {'neg': -1, 'zero': 0, 'pos': 1}[env[m.group(1)]]
            return {'>=': v >= 0, '<=': v <= 0, '<': v < 0, '>': v > 0, '==': v == 0, '!=': v != 0}[m.group(2)]
        if t == 'start is None': return False
        if t == 'stop is None': return False
        if t == "start[0] == 'VALUE'": return True
        if t == "stop[0] == 'VALUE'": return True
        return None
    def effect(n_, env):
        if n_.kind == 'stmt' and isinstance(n_.ast, ast.Assign) and any(dotted(t) == 'len_sql' for t in n_.ast.targets):
            return {'normal': [{'len': 'set' if env['len'].startswith('set') else 'set:%d' % n_.id}]}       # remember the first length expression chosen
        # start_value += 1 keeps the sign class for the purposes of the later tests only if re-read; the code re-reads start[1]
        if n_.kind == 'stmt' and isinstance(n_.ast, ast.Assign) and any(dotted(t) == 'start_value' for t in n_.ast.targets) and norm(n_.ast.value) == 'start[1]':
            return {'normal': [{'start_value': env['s0']}]}
        return None
    dead_ends = [x for x in g.nodes if x.kind == 'stmt' and isinstance(x.ast, ast.Assert) and isinstance(x.ast.test, ast.Constant) and not x.ast.test.value]
    chosen = {}
    for sv in ('neg', 'zero', 'pos'):
        for ev_ in ('neg', 'zero', 'pos'):
            m = Machine(g, ['start_value', 'stop_value', 'len', 's0'], effect, atom, resolve=True)
            IN = m.run([{'start_value': sv, 'stop_value': ev_, 'len': 'unset', 's0': sv}])
            sts = m.states_at(IN, g.exit)
            ok = bool(sts) and all(e['len'].startswith('set') for e in sts) and not any(d.id in IN for d in dead_ends)
            chosen[(sv, ev_)] = frozenset(e['len'] for e in sts)
            ob = ctx.ob('C25-TOTAL.sign-case-analysis-is-total', bs, bs.node, ok,
                        '' if ok else 'for a constant start %s 0 and constant stop %s 0 no length expression is produced (falls into the failing else / returns without it)'
                        % ({'neg': '<', 'zero': '==', 'pos': '>'}[sv], {'neg': '<', 'zero': '==', 'pos': '>'}[ev_]))
            ob.key += '::start=%s,stop=%s' % (sv, ev_)
    # ... and 0 is a position counted from the left: a bound equal to 0 is treated like a positive one (s[-3:0] is empty like s[-3:2] is a window
    # from the right end to an absolute position -- not like s[-3:-1], whose length is the difference of the bounds)
    for (sv, ev_), got in sorted(chosen.items()):
        twin = ('pos' if sv == 'zero' else sv, 'pos' if ev_ == 'zero' else ev_)
        if twin == (sv, ev_) or twin not in chosen: continue
        okz = got == chosen[twin]
        ctx.ob('C25-TOTAL.a-zero-bound-is-handled-like-a-positive-one', bs, bs.node, okz,
               '' if okz else 'for a constant start %s 0 and stop %s 0 another length expression is chosen than for the same slice with positive bounds: a bound of 0 is counted from the '
               'left like any non-negative bound (s[-3:0] must be empty; with the length of the both-negative case it returns the last three characters)'
               % ({'neg': '<', 'zero': '==', 'pos': '>'}[sv], {'neg': '<', 'zero': '==', 'pos': '>'}[ev_])).key += '::zero::start=%s,stop=%s' % (sv, ev_)
    # non-constant branches clamp at 0
    ifs = [s for s in walk_no_nested(bs.node) if isinstance(s, ast.Assign) and any(dotted(t) == 'len_sql' for t in s.targets) and isinstance(s.value, ast.List)
           and s.value.elts and isinstance(s.value.elts[0], ast.Constant) and s.value.elts[0].value == 'IF']
    for s in ifs:
        body = [b for b in bodies(bs.node) if s in b][0]
        i = body.index(s)
        ok = i + 1 < len(body) and norm(body[i + 1]).startswith("len_sql = ['MAX', False, len_sql, ['VALUE', 0]]")
        ctx.ob('C25-TOTAL.computed-length-clamped-at-zero', bs, s, ok, '' if ok else 'a length computed with IF(...) is not clamped with MAX(.., 0): a reversed window yields a negative substring length', node=s)
    # ... and so do the constant ones: a length given as ['VALUE', <difference of the two bounds>] is clamped in Python (max(.., 0)), or the next
    # statement wraps it in MAX(.., 0).  substr(s, 4, -2) for s[3:1] is '' on MySQL and an error on PostgreSQL
    consts = [s for s in walk_no_nested(bs.node) if isinstance(s, ast.Assign) and any(dotted(t) == 'len_sql' for t in s.targets) and isinstance(s.value, ast.List)
              and len(s.value.elts) == 2 and isinstance(s.value.elts[0], ast.Constant) and s.value.elts[0].value == 'VALUE']
    for s in consts:
        v = s.value.elts[1]
        body = [b for b in bodies(bs.node) if s in b][0]
        i = body.index(s)
        wrapped_next = i + 1 < len(body) and norm(body[i + 1]).startswith("len_sql = ['MAX', False, len_sql, ['VALUE', 0]]")
        def nonneg(e):
            if isinstance(e, ast.Call) and dotted(e.func) == 'max' and any(isinstance(a, ast.Constant) and a.value == 0 for a in e.args): return True
            if isinstance(e, ast.Constant) and isinstance(e.value, int) and e.value >= 0: return True
            if isinstance(e, ast.IfExp): return nonneg(e.body) and nonneg(e.orelse)
            return False
        ok = wrapped_next or nonneg(v)
        ctx.ob('C25-TOTAL.constant-length-clamped-at-zero', bs, s, ok,
               '' if ok else 'the length of a constant/constant slice is `%s`, which is negative when the stop lies before the start (s[3:1]): PostgreSQL rejects a negative '
               'substring length, Python returns the empty string' % norm(v), node=s, expected="['VALUE', max(stop_value - start_value, 0)]")
    ctx.floor('C25-TOTAL', len(consts), 1, 'constant lengths handed to SUBSTR')
    # the same for every other implementation of STRING_SLICE in the builder hierarchy (SQLite's, and whatever a dialect adds): a constant length
    # written as a difference of the two bounds, wherever it appears, is clamped -- SQLite's substr(s, p, negative) returns the characters *before* p
    nd = 0
    for cls_ in repo.subclasses(repo.cls('pony.orm.sqlbuilding', 'SQLBuilder')):
        m_ = cls_.methods.get('STRING_SLICE')
        if m_ is None or m_ is bs: continue
        for lst in [x for x in ast.walk(m_.node) if isinstance(x, ast.List) and len(x.elts) == 2 and isinstance(x.elts[0], ast.Constant) and x.elts[0].value == 'VALUE']:
            e = lst.elts[1]
            if not any(isinstance(b_, ast.BinOp) and isinstance(b_.op, ast.Sub) and not isinstance(b_.right, ast.Constant) for b_ in ast.walk(e)): continue
            nd += 1
            def nonneg2(e):
                if isinstance(e, ast.Call) and dotted(e.func) == 'max' and any(isinstance(a, ast.Constant) and a.value == 0 for a in e.args): return True
                if isinstance(e, ast.IfExp): return nonneg2(e.body) and nonneg2(e.orelse)
                return False
            ok = nonneg2(e)
            ctx.ob('C25-TOTAL.constant-length-clamped-at-zero', m_, lst, ok,
                   '' if ok else '%s.STRING_SLICE hands `%s` to the database as a length: it is negative when the stop lies before the start (s[3:1]); SQLite\'s substr() then returns '
                   'the characters before the start position instead of the empty string' % (cls_.name, norm(e)), node=lst)
    ctx.count('C25-TOTAL: differences of bounds used as a constant length in dialect STRING_SLICE methods', nd)
    # ---------------------------------------------------------------- SQLITE
    sq = repo.fn('pony.orm.dbproviders.sqlite', 'SQLiteBuilder.STRING_SLICE')
    # decided per bound under the scenario "this bound was omitted": whatever expression mentioning the bound is handed to builder(..) evaluates to
    # ['VALUE', None] -- through an if-statement that rebinds the bound, a conditional expression in the argument, or a local in between
    from ..q import reaching_defs as _rdq, value_of_def as _vdq
    from ..typestate import scenario_edges as _seq, eval_test as _evq
    gsq = cg.cfg(sq)
    def is_null(e): return isinstance(e, ast.List) and len(e.elts) == 2 and isinstance(e.elts[0], ast.Constant) and e.elts[0].value == 'VALUE' and isinstance(e.elts[1], ast.Constant) and e.elts[1].value is None
    okb = True; whyb = ''
    for b in sq.params[2:4]:
        def om(text, node, b=b):
            if text == b + ' is None': return True
            if text == b + ' is not None': return False
            if isinstance(node, ast.Name) and node.id == b: return False
            return None
        eo_b = _seq(gsq, sq.node, om, resolve=False)
        def null_here(e, at, depth=0):
            if is_null(e): return True
            if isinstance(e, ast.IfExp):
                v_ = _evq(e.test, om)
                return v_ is not None and null_here(e.body if v_ else e.orelse, at, depth)
            if isinstance(e, ast.Call) and dotted(e.func) == 'builder' and len(e.args) == 1: return null_here(e.args[0], at, depth)
            if isinstance(e, ast.Name) and depth < 3:
                ds = _rdq(gsq, at, e.id, with_params=True, edge_ok=eo_b)
                return bool(ds) and all(d is not gsq.entry and _vdq(d, e.id) is not None and null_here(_vdq(d, e.id), d, depth + 1) for d in ds)
            return False
        carriers = {b}                      # the bound and the locals computed from it (`start_sql = [..] if start is None else start`)
        for _i in range(3):
            for st_ in walk_no_nested(sq.node):
                if isinstance(st_, ast.Assign) and any(isinstance(n_, ast.Name) and n_.id in carriers for n_ in ast.walk(st_.value)) \
                        and not any(isinstance(c_, ast.Call) and dotted(c_.func) == 'builder' and not any(isinstance(n_, ast.Name) and n_.id in carriers for n_ in ast.walk(c_)) for c_ in ast.walk(st_.value)):
                    carriers |= {t.id for t in st_.targets if isinstance(t, ast.Name)}
        found = False
        for x in gsq.nodes:
            if x.ast is None or x.kind != 'stmt': continue
            for c in x.calls():
                if dotted(c.func) == 'builder' and len(c.args) == 1 and any(isinstance(n_, ast.Name) and n_.id in carriers for n_ in ast.walk(c.args[0])):
                    found = True
                    if not null_here(c.args[0], x): okb = False; whyb = 'for an omitted `%s` the builder is given `%s`, which is not [\'VALUE\', None]' % (b, norm(c.args[0])[:50])
        if not found: okb = False; whyb = whyb or 'no builder(..) call receives `%s`' % b
    ctx.ob('C25-SQLITE.omitted-bounds-passed-as-null', sq, sq.node, okb, '' if okb else 'SQLite STRING_SLICE does not pass omitted bounds as NULL: ' + whyb)
    ps = repo.fn('pony.orm.dbproviders.sqlite', 'py_string_slice')
    rets = [s for s in walk_no_nested(ps.node) if isinstance(s, ast.Return) and s.value is not None and not (isinstance(s.value, ast.Constant) and s.value.value is None)]
    ok = len(rets) == 1 and norm(rets[0].value) == '%s[%s:%s]' % tuple(ps.params[:3])
    ctx.ob('C25-SQLITE.python-slicing-used', ps, rets[0] if rets else ps.node, ok, '' if ok else 'py_string_slice does not return s[start:end]')
    # ---------------------------------------------------------------- FIXED
    C05.fixed_rule(ctx, prefix='C25-FIXED')
    C05.embedded_rule(ctx, prefix='C25-FIXED')
    C05.vars_rule(ctx, prefix='C25-FIXED')
    # ---------------------------------------------------------------- INDEXTWIN
    # s[i]: Python counts from 0, SUBSTR from 1.  The shift is implemented twice in StringMixin.__getitem__ -- for a constant index in Python
    # (`if value >= 0: value += 1`) and for a computed index in SQL (['IF', ['GE', i, 0], i + 1, ...]).  The two siblings must draw the line at
    # the same place: the Python comparison and the SQL comparison node are the same relation with the same bound.
    OPS = {ast.GtE: 'GE', ast.Gt: 'GT', ast.Lt: 'LT', ast.LtE: 'LE', ast.Eq: 'EQ', ast.NotEq: 'NE'}
    gi = repo.fn('pony.orm.sqltranslation', 'StringMixin.__getitem__')
    # Python side, read semantically: the local holding index.value; every place that adds 1 to it (`v += 1`, `v + 1`) with the conditions on its
    # path (if / elif / else / conditional expression); the conditions that mention the value or the dialect are evaluated on sample indexes
    from ..q import concrete_eval, Unknown
    vnames = {t.id for st in walk_no_nested(gi.node) if isinstance(st, ast.Assign) and isinstance(st.value, ast.Attribute) and st.value.attr == 'value'
              and dotted(st.value.value) == 'index' for t in st.targets if isinstance(t, ast.Name)}
    shift_sites = []          # (path conditions [(test, polarity)], node)
    def is_shift(x):
        return (isinstance(x, ast.AugAssign) and isinstance(x.op, ast.Add) and isinstance(x.value, ast.Constant) and x.value.value == 1 and dotted(x.target) in vnames) or \
               (isinstance(x, ast.BinOp) and isinstance(x.op, ast.Add) and isinstance(x.right, ast.Constant) and x.right.value == 1 and dotted(x.left) in vnames)
    def walk_expr(e, conds):
        if is_shift(e): shift_sites.append((list(conds), e))
        if isinstance(e, ast.IfExp):
            walk_expr(e.test, conds); walk_expr(e.body, conds + [(e.test, True)]); walk_expr(e.orelse, conds + [(e.test, False)]); return
        for c in ast.iter_child_nodes(e):
            if isinstance(c, (ast.expr, ast.keyword, ast.comprehension)): walk_expr(c, conds)
    def walk_stmts(body, conds):
        for st in body:
            if isinstance(st, ast.If):
                walk_expr(st.test, conds); walk_stmts(st.body, conds + [(st.test, True)]); walk_stmts(st.orelse, conds + [(st.test, False)])
            elif isinstance(st, (ast.For, ast.While, ast.With, ast.Try)):
                for fld in ('body', 'orelse', 'finalbody'): walk_stmts(getattr(st, fld, []) or [], conds)
                for h in getattr(st, 'handlers', []): walk_stmts(h.body, conds)
            elif isinstance(st, (ast.FunctionDef, ast.ClassDef)): pass
            else:
                if is_shift(st): shift_sites.append((list(conds), st))
                for c in ast.iter_child_nodes(st):
                    if isinstance(c, ast.expr): walk_expr(c, conds)
    walk_stmts(gi.node.body, [])
    def py_shifted(v):
        res = False
        for conds, node in shift_sites:
            ok_ = True
            for test, pol in conds:
                names = {x.id for x in ast.walk(test) if isinstance(x, ast.Name)}
                if not (names & (vnames | {'dialect'})): continue          # unrelated to the index value
                env = {n_: v for n_ in vnames}; env['dialect'] = 'SQLite'
                try: r = bool(concrete_eval(test, env))
                except Unknown: r = pol
                if r != pol: ok_ = False; break
            res = res or ok_
        return res
    py_sites = shift_sites
    sql_sites = []
    defs_ = {}
    for st in walk_no_nested(gi.node):
        if isinstance(st, ast.Assign) and len(st.targets) == 1 and isinstance(st.targets[0], ast.Name): defs_.setdefault(st.targets[0].id, []).append(st.value)
    def resolve_list(e):
        if isinstance(e, ast.Name) and len(defs_.get(e.id, ())) == 1: return defs_[e.id][0]
        return e
    for st in walk_no_nested(gi.node):
        for l in ([x for x in ast.walk(st) if isinstance(x, ast.List)] if isinstance(st, ast.Assign) else []):
            if len(l.elts) == 4 and isinstance(l.elts[0], ast.Constant) and l.elts[0].value == 'IF':
                cond, then = resolve_list(l.elts[1]), resolve_list(l.elts[2])
                if isinstance(cond, ast.List) and len(cond.elts) == 3 and isinstance(cond.elts[0], ast.Constant) and isinstance(cond.elts[2], ast.List) \
                        and len(cond.elts[2].elts) == 2 and isinstance(cond.elts[2].elts[1], ast.Constant) \
                        and isinstance(then, ast.List) and then.elts and isinstance(then.elts[0], ast.Constant) and then.elts[0].value == 'ADD':
                    sql_sites.append((cond.elts[0].value, cond.elts[2].elts[1].value, st))
    ctx.need(py_sites and sql_sites, 'C25: the constant / computed index shift in StringMixin.__getitem__ was not found')
    REL = {'GE': lambda a, b: a >= b, 'GT': lambda a, b: a > b, 'LT': lambda a, b: a < b, 'LE': lambda a, b: a <= b, 'EQ': lambda a, b: a == b, 'NE': lambda a, b: a != b}
    for op_s, k_s, st in sql_sites:
        diff = [v for v in (-3, -2, -1, 0, 1, 2, 3) if op_s in REL and REL[op_s](v, k_s) != py_shifted(v)]
        ok = op_s in REL and not diff
        ctx.ob('C25-INDEXTWIN.constant-and-computed-index-shift-at-the-same-bound', gi, st, ok,
               '' if ok else 'a computed string index is shifted to SUBSTR\'s 1-based position when [%s, i, %r], a constant one under a different condition: they disagree for '
               'index %s (s[i] with i evaluating to 0 must read the first character, not position 0 = empty string)' % (op_s, k_s, diff), node=st)
    # ---------------------------------------------------------------- ABSPOS
    # a length may be computed from `index_sql` only where index_sql is the absolute 1-based position.  Scenario: not PostgreSQL, constant negative
    # start -- there index_sql is the negative number itself (MySQL/Oracle count it from the end), a *relative* position; no arithmetic SQL node
    # (SUB/ADD) built in that scenario may contain it
    from ..typestate import scenario_edges
    g = cg.cfg(bs)
    nabs = 0
    for const_start in (True, False):
        def rel_atom(text, node, const_start=const_start):
            t = text.replace(' ', '')
            if t.endswith("dialect=='PostgreSQL'") or t == 'is_postgres': return False
            if t.endswith("dialect!='PostgreSQL'"): return True
            if t == "start[0]=='VALUE'": return const_start
            if t == "start[0]!='VALUE'": return not const_start
            if t == 'startisNone': return False
            if const_start and t == 'start_value<0': return True
            if const_start and t == 'start_value>=0': return False
            return None
        eo = scenario_edges(g, bs.node, rel_atom)
        live = g.reach([g.entry], edge_ok=eo)
        # definitions of index_sql in the scenario: the negative constant itself / IF(i >= 0, i + 1, i) -- relative to the end for a negative start
        rel_defs = [x for x in g.nodes if x.id in live and x.kind == 'stmt' and isinstance(x.ast, ast.Assign) and any(dotted(t) == 'index_sql' for t in x.ast.targets)]
        ctx.need(rel_defs, 'C25-ABSPOS: no definition of index_sql on the generic path (%s start)' % ('constant' if const_start else 'computed'))
        for x in g.nodes:
            if x.id not in live or x.kind != 'stmt' or not isinstance(x.ast, ast.Assign) or x in rel_defs: continue
            for l in [y for y in ast.walk(x.ast.value) if isinstance(y, ast.List) and y.elts and isinstance(y.elts[0], ast.Constant) and y.elts[0].value in ('SUB', 'ADD')]:
                if any(isinstance(e, ast.Name) and e.id == 'index_sql' for e in l.elts[1:]):
                    nabs += 1
                    ctx.ob('C25-ABSPOS.length-uses-an-absolute-position', bs, x.ast, False,
                           'for a negative %s start on the MySQL/Oracle/generic path index_sql is the negative offset itself (a position relative to the end), yet `%s` subtracts '
                           'it as if it were the absolute position: s[-3:7] becomes substr(s, -3, 11) = the last three characters instead of s[5:7]'
                           % ('constant' if const_start else 'computed', norm(x.ast)[:90]), node=x.ast, expected='an absolute position (LENGTH(s) - k) as in the PostgreSQL branch')
    if not nabs: ctx.ob('C25-ABSPOS.length-uses-an-absolute-position', bs, bs.node, True, '')


def bodies(node):
    for fld in ('body', 'orelse', 'finalbody'):
        b = getattr(node, fld, None)
        if isinstance(b, list) and b and isinstance(b[0], ast.stmt):
            yield b
            for s in b:
                if isinstance(s, (ast.FunctionDef, ast.AsyncFunctionDef, ast.ClassDef)): continue
                yield from bodies(s)
    for h in getattr(node, 'handlers', []) or []: yield from bodies(h)


MUTANTS = [
    dict(id='C25-zero1', file='pony/orm/sqlbuilding.py', fn='SQLBuilder.STRING_SLICE', old="                elif start_value < 0 and stop_value < 0:", new="                elif start_value < 0 and stop_value <= 0:", expect='C25-TOTAL.a-zero-bound'),
    dict(id='C25-clamp', file='pony/orm/sqlbuilding.py', fn='SQLBuilder.STRING_SLICE', old="                    len_sql = [ 'VALUE', max(stop_value - start_value, 0) ]  # s[3:1] is empty; PostgreSQL rejects a negative length", new="                    len_sql = [ 'VALUE', stop_value - start_value ]", expect='C25-TOTAL.constant-length'),
    dict(id='C25-twin', file='pony/orm/sqltranslation.py', fn='StringMixin.__getitem__', old="            index_sql = [ 'IF', [ 'GE', inner_sql, [ 'VALUE', 0 ] ], then, else_ ]", new="            index_sql = [ 'IF', [ 'GT', inner_sql, [ 'VALUE', 0 ] ], then, else_ ]", expect='C25-INDEXTWIN'),
    dict(id='C25-m1', file='pony/orm/sqltranslation.py', fn='StringMixin.__getitem__', old='            if stop is None: stop_value = -1', new='            if stop_value is None: stop_value = -1', expect='C25-DEFAULT'),
    dict(id='C25-m2', file='pony/orm/sqlbuilding.py', fn='SQLBuilder.STRING_SLICE', old='                elif start_value < 0 and stop_value >= 0:', new='                elif start_value < 0 and stop_value > 0:', expect='C25-TOTAL.sign'),
    dict(id='C25-m3', file='pony/orm/dbproviders/sqlite.py', fn='py_string_slice', old='    return s[start:end]', new='    return s[start:end] if end != -1 else s[start:]', expect='C25-SQLITE.python'),
    dict(id='C25-m4', file='pony/orm/sqltranslation.py', fn='StringMixin.__getitem__', old='        root_translator = monad.translator.root_translator', new='        root_translator = monad.translator', expect='C25-FIXED'),
    dict(id='C25-m5', file='pony/orm/sqlbuilding.py', fn='SQLBuilder.STRING_SLICE',
         old="                len_sql = [ 'IF', [ 'GE', start_sql, [ 'VALUE', 0 ] ], start_positive, start_negative ]\n                len_sql = [ 'MAX', False, len_sql, [ 'VALUE', 0 ] ]",
         new="                len_sql = [ 'IF', [ 'GE', start_sql, [ 'VALUE', 0 ] ], start_positive, start_negative ]", expect='C25-TOTAL.computed'),
    dict(id='C25-m6', file='pony/orm/dbproviders/sqlite.py', fn='SQLiteBuilder.STRING_SLICE', old="            stop = [ 'VALUE', None ]", new="            stop = [ 'VALUE', -1 ]", expect='C25-SQLITE.omitted'),
]
