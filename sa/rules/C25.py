"""C25  String indexing and slicing translate to Python semantics on every dialect."""
import ast
from ..loader import dotted, walk_no_nested, norm, head, calls_in
from ..q import nodes_calling
from ..typestate import Machine
from . import C05

EXPLANATION = """
Static clauses decided (necessary conditions of C25; the length arithmetic itself is NOT decided):
 SENTINEL an omitted slice bound is never confused with an explicit one: in StringMixin.__getitem__ a variable that gets an
          integer literal because the bound is omitted (`if stop is None: v = L`) and elsewhere
          the user's constant (`v = bound.value`) may be compared with L (identity shortcut, constant folding) only if L means
          the same as omission -- 0 for start does, no integer does for stop (s[:-1] is not s[:]).
 DEFAULT  a bound is defaulted only when it is omitted (`<bound> is None`), not when its *value* is unknown because it is an
          expression.
 TOTAL    the constant/constant sign analysis of SQLBuilder.STRING_SLICE is total: for each of the four sign combinations of
          (start, stop) a length expression is assigned and the failing else is unreachable (sign-domain evaluation of the
          branch conditions); the non-constant branches wrap the length in MAX(.., 0).
 SQLITE   SQLite's STRING_SLICE passes omitted bounds as NULL to py_string_slice, which returns s[start:end] (Python's own
          slicing).
 FIXED    parameter bounds folded into the SQL are recorded on the root translator (shared with C05).
"""
NOT_DECIDED = "the substring arithmetic for all integers on PostgreSQL/MySQL/Oracle (needs evaluation or a solver: other families)"

ST = 'pony.orm.sqltranslation'


def intlit(e):
    """integer literal incl. negative -> (True, value) else (False, None); None constant -> (True, None)"""
    if isinstance(e, ast.Constant) and (isinstance(e.value, int) and not isinstance(e.value, bool) or e.value is None): return True, e.value
    if isinstance(e, ast.UnaryOp) and isinstance(e.op, ast.USub) and isinstance(e.operand, ast.Constant) and isinstance(e.operand.value, int): return True, -e.operand.value
    return False, None


def run(ctx):
    repo, cg = ctx.repo, ctx.cg
    gi = repo.fn(ST, 'StringMixin.__getitem__')
    funcs = [gi] + list(gi.nested.values())
    # ---------------------------------------------------------------- SENTINEL / DEFAULT
    n = 0
    for f in funcs:
        for s in walk_no_nested(f.node):
            # pattern A:  if <bound> is None: v = <int>       pattern B:  v = <int a> if is_start else <int b>  (None parameter)
            if isinstance(s, ast.If) and len(s.body) == 1 and isinstance(s.body[0], ast.Assign) and intlit(s.body[0].value)[0] \
                    and intlit(s.body[0].value)[1] is not None and isinstance(s.test, ast.Compare) and isinstance(s.test.ops[0], ast.Is):
                var = dotted(s.body[0].targets[0]); lit = intlit(s.body[0].value)[1]
                tested = norm(s.test.left)
                which = 'start' if 'start' in var else 'stop' if 'stop' in var else None
                if which is None: continue
                n += 1
                # DEFAULT: the test must be about the bound being omitted, not about the value variable itself
                ok_def = tested == which
                ctx.ob('C25-DEFAULT.bound-defaulted-only-when-omitted', f, s, ok_def,
                       '' if ok_def else '`%s` defaults %s although the %s bound may be present as a non-constant expression (its value variable is '
                       'None for expressions too): s[0:expr] is then taken for s[0:] and returned unsliced' % (norm(s.test), var, which), node=s)
                ok = (which == 'start' and lit == 0)
                ctx.ob('C25-SENTINEL.omitted-bound-is-not-an-explicit-value', f, s, ok,
                       '' if ok else 'an omitted %s bound is represented by the integer %d in `%s`, which is also a legitimate explicit bound: '
                       's[:%d] / s[0:%d] with the constant or parameter %d is treated as "no %s bound" (identity shortcut and constant folding use %s)'
                       % (which, lit, var, lit, lit, lit, which, var), node=s, expected='None (or a dedicated marker) for the omitted %s bound' % which)
    ctx.floor('C25-SENTINEL', n, 2, 'bound-defaulting statements')
    # ---------------------------------------------------------------- TOTAL
    bs = repo.fn('pony.orm.sqlbuilding', 'SQLBuilder.STRING_SLICE'); g = cg.cfg(bs)
    def atom(t, env):
        import re
        m = re.fullmatch(r'(start_value|stop_value) (>=|<=|<|>|==|!=) 0', t)
        if m:
            v = {'neg': -1, 'zero': 0, 'pos': 1}[env[m.group(1)]]
            return {'>=': v >= 0, '<=': v <= 0, '<': v < 0, '>': v > 0, '==': v == 0, '!=': v != 0}[m.group(2)]
        if t == 'start is None': return False
        if t == 'stop is None': return False
        if t == "start[0] == 'VALUE'": return True
        if t == "stop[0] == 'VALUE'": return True
        return None
    def effect(n_, env):
        if n_.kind == 'stmt' and isinstance(n_.ast, ast.Assign) and any(dotted(t) == 'len_sql' for t in n_.ast.targets): return {'normal': [{'len': 'set'}]}
        # start_value += 1 keeps the sign class for the purposes of the later tests only if re-read; the code re-reads start[1]
        if n_.kind == 'stmt' and isinstance(n_.ast, ast.Assign) and any(dotted(t) == 'start_value' for t in n_.ast.targets) and norm(n_.ast.value) == 'start[1]':
            return {'normal': [{'start_value': env['s0']}]}
        return None
    dead_ends = [x for x in g.nodes if x.kind == 'stmt' and isinstance(x.ast, ast.Assert) and isinstance(x.ast.test, ast.Constant) and not x.ast.test.value]
    for sv in ('neg', 'zero', 'pos'):
        for ev_ in ('neg', 'zero', 'pos'):
            m = Machine(g, ['start_value', 'stop_value', 'len', 's0'], effect, atom, resolve=True)
            IN = m.run([{'start_value': sv, 'stop_value': ev_, 'len': 'unset', 's0': sv}])
            sts = m.states_at(IN, g.exit)
            ok = bool(sts) and all(e['len'] == 'set' for e in sts) and not any(d.id in IN for d in dead_ends)
            ob = ctx.ob('C25-TOTAL.sign-case-analysis-is-total', bs, bs.node, ok,
                        '' if ok else 'for a constant start %s 0 and constant stop %s 0 no length expression is produced (falls into the failing else / returns without it)'
                        % ({'neg': '<', 'zero': '==', 'pos': '>'}[sv], {'neg': '<', 'zero': '==', 'pos': '>'}[ev_]))
            ob.key += '::start=%s,stop=%s' % (sv, ev_)
    # non-constant branches clamp at 0
    ifs = [s for s in walk_no_nested(bs.node) if isinstance(s, ast.Assign) and any(dotted(t) == 'len_sql' for t in s.targets) and isinstance(s.value, ast.List)
           and s.value.elts and isinstance(s.value.elts[0], ast.Constant) and s.value.elts[0].value == 'IF']
    for s in ifs:
        body = [b for b in bodies(bs.node) if s in b][0]
        i = body.index(s)
        ok = i + 1 < len(body) and norm(body[i + 1]).startswith("len_sql = ['MAX', False, len_sql, ['VALUE', 0]]")
        ctx.ob('C25-TOTAL.computed-length-clamped-at-zero', bs, s, ok, '' if ok else 'a length computed with IF(...) is not clamped with MAX(.., 0): a reversed window yields a negative substring length', node=s)
    # ---------------------------------------------------------------- SQLITE
    sq = repo.fn('pony.orm.dbproviders.sqlite', 'SQLiteBuilder.STRING_SLICE')
    txt = [norm(s) for s in walk_no_nested(sq.node) if isinstance(s, ast.stmt)]
    ok = any(t.startswith("if start is None:") and "['VALUE', None]" in t for t in txt) and any(t.startswith("if stop is None:") and "['VALUE', None]" in t for t in txt)
    ctx.ob('C25-SQLITE.omitted-bounds-passed-as-null', sq, sq.node, ok, '' if ok else 'SQLite STRING_SLICE does not pass omitted bounds as NULL')
    ps = repo.fn('pony.orm.dbproviders.sqlite', 'py_string_slice')
    rets = [s for s in walk_no_nested(ps.node) if isinstance(s, ast.Return) and s.value is not None and not (isinstance(s.value, ast.Constant) and s.value.value is None)]
    ok = len(rets) == 1 and norm(rets[0].value) == '%s[%s:%s]' % tuple(ps.params[:3])
    ctx.ob('C25-SQLITE.python-slicing-used', ps, rets[0] if rets else ps.node, ok, '' if ok else 'py_string_slice does not return s[start:end]')
    # ---------------------------------------------------------------- FIXED
    C05.fixed_rule(ctx, prefix='C25-FIXED')
    C05.embedded_rule(ctx, prefix='C25-FIXED')


def bodies(node):
    for fld in ('body', 'orelse', 'finalbody'):
        b = getattr(node, fld, None)
        if isinstance(b, list) and b and isinstance(b[0], ast.stmt):
            yield b
            for s in b:
                if isinstance(s, (ast.FunctionDef, ast.AsyncFunctionDef, ast.ClassDef)): continue
                yield from bodies(s)
    for h in getattr(node, 'handlers', []) or []: yield from bodies(h)


MUTANTS = [
    dict(id='C25-m1', file='pony/orm/sqltranslation.py', fn='StringMixin.__getitem__', old='            if stop is None: stop_value = -1', new='            if stop_value is None: stop_value = -1', expect='C25-DEFAULT'),
    dict(id='C25-m2', file='pony/orm/sqlbuilding.py', fn='SQLBuilder.STRING_SLICE', old='                elif start_value < 0 and stop_value >= 0:', new='                elif start_value < 0 and stop_value > 0:', expect='C25-TOTAL.sign'),
    dict(id='C25-m3', file='pony/orm/dbproviders/sqlite.py', fn='py_string_slice', old='    return s[start:end]', new='    return s[start:end] if end != -1 else s[start:]', expect='C25-SQLITE.python'),
    dict(id='C25-m4', file='pony/orm/sqltranslation.py', fn='StringMixin.__getitem__', old='        root_translator = monad.translator.root_translator', new='        root_translator = monad.translator', expect='C25-FIXED'),
    dict(id='C25-m5', file='pony/orm/sqlbuilding.py', fn='SQLBuilder.STRING_SLICE',
         old="                len_sql = [ 'IF', [ 'GE', start_sql, [ 'VALUE', 0 ] ], start_positive, start_negative ]\n                len_sql = [ 'MAX', False, len_sql, [ 'VALUE', 0 ] ]",
         new="                len_sql = [ 'IF', [ 'GE', start_sql, [ 'VALUE', 0 ] ], start_positive, start_negative ]", expect='C25-TOTAL.computed'),
    dict(id='C25-m6', file='pony/orm/dbproviders/sqlite.py', fn='SQLiteBuilder.STRING_SLICE', old="            stop = [ 'VALUE', None ]", new="            stop = [ 'VALUE', -1 ]", expect='C25-SQLITE.omitted'),
]
