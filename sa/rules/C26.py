"""C26  Generated schemas are well formed and match the entity model."""
import ast, re
from ..loader import dotted, walk_no_nested, norm, head, calls_in
from ..q import nodes_calling

EXPLANATION = """
Static clauses decided (necessary conditions of C26):
 LIMIT    every default-name generator of DBAPIProvider and of each dialect override (entity table, m2m table, column, m2m
          column, index and foreign-key names) returns only values that passed provider.normalize_name as the last
          operation (the dialect's length limit and letter case); every dialect's normalize_name truncates to
          provider.max_name_len.
 UNIQUE   name clashes are rejected, not emitted: the constructors of Table, Column, DBIndex, ForeignKey and Constraint
          test the new name (or column tuple) against the registry they are about to store it in and throw DBSchemaError
          before storing.
 FLAGS    Column.get_sql consumes every flag of the column on every path: a column that is not the single-column primary
          key passes through the tests of both `is_unique` and `is_not_null`; the default value and the auto-increment
          template are emitted; the inline foreign key carries its ON DELETE action.
 M2M      the de-duplication loop for default many-to-many table names continues until the candidate is absent from
          schema.tables (a clash of a default name never silently reuses an existing table).
 COLS     default many-to-many column names: one per primary-key column; the single-name form is chosen by the number of columns.
 NULLS    the NOT NULL flag of a mapped column is the negation of the attribute's *effective* nullability (Attribute.nullable,
          which Attribute._init_ forces to True for attributes declared in subclasses of a single-table hierarchy): every
          add_column call of generate_mapping for attribute columns -- the single-column branch and the composite (multi-column
          foreign key) branch are siblings -- passes `not attr.nullable`; the columns of link tables are NOT NULL.
"""
NOT_DECIDED = "equality of the created catalog with the model on each backend; check_tables; dialect DDL syntax"

DP = 'pony.orm.dbapiprovider'
GENERATORS = ('get_default_entity_table_name', 'get_default_m2m_table_name', 'get_default_column_names', 'get_default_m2m_column_names',
              'get_default_index_name', 'get_default_fk_name')


def is_normalized(e, aliases):
    """expression value passed normalize_name as its last operation"""
    if isinstance(e, ast.Call):
        f = e.func
        if isinstance(f, ast.Attribute) and f.attr == 'normalize_name': return True
        if isinstance(f, ast.Name) and f.id in aliases: return True
        # delegation to the base implementation of the same generator
        if isinstance(f, ast.Attribute) and f.attr in GENERATORS: return True
    if isinstance(e, ast.List): return all(is_normalized(x, aliases) for x in e.elts)
    if isinstance(e, ast.ListComp): return is_normalized(e.elt, aliases)
    return False


DS = 'pony.orm.dbschema'


def flags_rule(ctx, prefix='C26-FLAGS', flags=('is_unique', 'is_not_null')):
    """Column.get_sql, evaluated for "not the single-column primary key, flag set": every path to the end appends the keyword -- whatever else the
    column is (part of a composite key, foreign key, ...)"""
    from ..typestate import scenario_edges
    repo, cg = ctx.repo, ctx.cg
    gs = repo.fn(DS, 'Column.get_sql'); g = cg.cfg(gs); recv = gs.recv
    KW = {'is_unique': 'UNIQUE', 'is_not_null': 'NOT NULL'}
    for flag in flags:
        def atom(text, node, flag=flag):
            if isinstance(node, ast.Compare) and dotted(node.left) == recv + '.is_pk': return False            # is_pk == 'auto'
            if isinstance(node, ast.Attribute) and dotted(node) == recv + '.is_pk': return False
            if isinstance(node, ast.Attribute) and dotted(node) == recv + '.' + flag: return True
            return None
        eo = scenario_edges(g, gs.node, atom, resolve=False)
        emits = [x for x in g.nodes if x.kind == 'stmt' and x.ast is not None and any(
            isinstance(k, ast.Constant) and isinstance(k.value, str) and k.value.strip().upper() == KW[flag] for c in x.calls() for a in c.args for k in ast.walk(a))]
        ok = bool(emits) and g.must_pass_after(g.entry, emits, exits=[g.exit], edge_ok=eo)
        ctx.ob(prefix + '.column-flag-consumed-on-every-path', gs, emits[0].ast if emits else gs.node, ok,
               '' if ok else 'a column that is not the single-column primary key and has %s set can be rendered without %s: the declared constraint is '
               'missing from the DDL while the model still claims it (the database no longer rejects what the session cannot see)' % (flag, KW[flag]),
               expected='append %s whenever column.%s holds' % (KW[flag], flag)).key += '::' + flag


def ddl_rules(ctx, prefix='C26-DDL', which=('unique', 'ondelete', 'every')):
    """what the model declares reaches the CREATE statements, whatever else holds:
    unique    Table.get_create_command lists every composite unique index that is not the primary key (scenario: not is_pk, is_unique, more than one column:
              every condition of the selecting comprehension evaluates to true -- no further condition may drop it);
    ondelete  ForeignKey._get_create_sql appends ON DELETE whenever the key has an on_delete action (table-level clause or ALTER TABLE alike);
    every     DBSchema.create_tables examines every object of every table: the loop over the objects to create has no `break`."""
    from ..typestate import eval_test, scenario_edges
    repo, cg = ctx.repo, ctx.cg
    if 'unique' in which:
        f = repo.fn(DS, 'Table.get_create_command')
        comps = [c for c in ast.walk(f.node) if isinstance(c, (ast.ListComp, ast.GeneratorExp)) and any('indexes' in norm(gen.iter) for gen in c.generators)]
        ctx.need(comps, prefix + ': the selection of unique indexes in Table.get_create_command was not found')
        for c in comps:
            def atom(text, node):
                t = text.replace(' ', '')
                if t.endswith('.is_pk'): return False
                if t.endswith('.is_unique'): return True
                if re.fullmatch(r'len\(\w+\.columns\)>1', t) or re.fullmatch(r'len\(\w+\.columns\)>=2', t): return True
                return None
            vals = [eval_test(cond, atom) for gen in c.generators for cond in gen.ifs]
            ok = all(v is True for v in vals)
            ctx.ob(prefix + '.every-composite-unique-index-is-in-the-create-table', f, c, ok,
                   '' if ok else 'a composite unique index that is not the primary key can be left out of CREATE TABLE by a further condition (%s): the database no longer rejects '
                   'duplicates that the session cannot see' % norm(c)[:100], node=c)
        # ... and a single-column unique index reaches CREATE TABLE through its column's flag: DBIndex.__init__ gives the column `is_unique` whenever
        # the index is unique and has one column -- whatever else is true of the column (member of a composite primary key, nullable, ...)
        fi = repo.fn(DS, 'DBIndex.__init__')
        up = fi.params[5] if len(fi.params) > 5 else 'is_unique'
        sets = [(t, v, st) for st in walk_no_nested(fi.node) for t, v in __import__('sa.q', fromlist=['assign_pairs']).assign_pairs(st)
                if isinstance(t, ast.Attribute) and t.attr == 'is_unique' and dotted(t.value) != fi.recv and v is not None]
        ctx.need(sets, prefix + ': DBIndex.__init__ no longer sets column.is_unique')
        for t, v, st in sets:
            def atom_u(text, node):
                tt = text.replace(' ', '')
                if tt == up: return True
                m_ = re.fullmatch(r'len\(\w+\)(==|!=|<=|>=|<|>)(\d+)', tt)
                if m_: return {'==': 1 == int(m_.group(2)), '!=': 1 != int(m_.group(2)), '<=': 1 <= int(m_.group(2)), '>=': 1 >= int(m_.group(2)),
                               '<': 1 < int(m_.group(2)), '>': 1 > int(m_.group(2))}[m_.group(1)]       # the index has exactly one column
                return None
            from ..typestate import resolve_flags
            while isinstance(v, ast.Call) and dotted(v.func) == 'bool' and len(v.args) == 1: v = v.args[0]
            ok = eval_test(resolve_flags(fi.node, v), atom_u) is True
            ctx.ob(prefix + '.single-column-unique-index-marks-its-column', fi, st, ok,
                   '' if ok else '`%s` is not certain to be true for a unique index over one column (a further condition on the column can withhold it): CREATE TABLE then has no UNIQUE '
                   'for that column and the database accepts duplicates the session cannot see' % norm(st)[:90], node=st)
    if 'ondelete' in which:
        f = repo.fn(DS, 'ForeignKey._get_create_sql'); g = cg.cfg(f)
        emits = [x for x in g.nodes if x.kind == 'stmt' and x.ast is not None and any(isinstance(k, ast.Constant) and isinstance(k.value, str) and 'ON DELETE' in k.value for k in ast.walk(x.ast))]
        def atom2(text, node):
            if text.endswith('.on_delete'): return True
            return None
        ok = bool(emits) and g.must_pass_after(g.entry, emits, exits=[g.exit], edge_ok=scenario_edges(g, f.node, atom2, resolve=False))
        ctx.ob(prefix + '.on-delete-action-is-always-written', f, emits[0].ast if emits else f.node, ok,
               '' if ok else 'a foreign key with an on_delete action can be rendered without ON DELETE (e.g. table-level composite keys): the database refuses or orphans what the '
               'model says is cascaded / set to NULL')
    if 'every' in which:
        f = repo.fn(DS, 'DBSchema.create_tables')
        loops = [l for l in walk_no_nested(f.node) if isinstance(l, ast.For) and 'get_objects_to_create' in norm(l.iter)]
        ctx.need(loops, prefix + ': the loop over get_objects_to_create() in DBSchema.create_tables was not found')
        for l in loops:
            brk = [b for b in ast.walk(l) if isinstance(b, ast.Break)]
            ctx.ob(prefix + '.every-object-of-every-table-is-examined', f, brk[0] if brk else l, not brk,
                   '' if not brk else 'the loop over the objects to create is left early (break at line %d): indexes / foreign keys after that point are neither checked nor created' % brk[0].lineno, node=l)


def run(ctx):
    repo, cg = ctx.repo, ctx.cg
    P = repo.cls(DP, 'DBAPIProvider')
    n = 0
    for cls in repo.subclasses(P):
        for name in GENERATORS:
            f = cls.methods.get(name)
            if f is None: continue
            aliases = {dotted(s.targets[0]) for s in walk_no_nested(f.node) if isinstance(s, ast.Assign) and len(s.targets) == 1
                       and isinstance(s.value, ast.Attribute) and s.value.attr == 'normalize_name'}
            for r in [s for s in walk_no_nested(f.node) if isinstance(s, ast.Return)]:
                n += 1
                ok = r.value is not None and is_normalized(r.value, aliases)
                ctx.ob('C26-LIMIT.default-name-is-normalized-last', f, r, ok,
                       '' if ok else '%s.%s returns `%s`, which did not pass provider.normalize_name as the last step: the name can exceed the '
                       'dialect\'s identifier limit or have the wrong letter case' % (cls.name, name, norm(r.value)), node=r)
        f = cls.methods.get('normalize_name')
        if f is not None:
            rets = [s for s in walk_no_nested(f.node) if isinstance(s, ast.Return)]
            ok = len(rets) == 1 and ('[:%s.max_name_len]' % f.recv) in norm(rets[0].value)
            ctx.ob('C26-LIMIT.normalize-truncates-to-dialect-limit', f, rets[0] if rets else f.node, ok, '' if ok else 'normalize_name does not truncate to provider.max_name_len')
    ctx.floor('C26-LIMIT', n, 7, 'return statements of default-name generators')

    # ---------------------------------------------------------------- UNIQUE
    DS = 'pony.orm.dbschema'
    specs = [('Table.__init__', ['%s in schema.tables', '%s in schema.names'], 'name'), ('Column.__init__', ['%s in table.column_dict'], 'name'),
             ('Constraint.__init__', ['%s in schema.constraints'], 'name'), ('DBIndex.__init__', ['columns in table.indexes', 'name is not None and name in schema.names'], None),
             ('ForeignKey.__init__', ['child_columns in child_table.foreign_keys', 'name is not None and name in schema.names'], None)]
    for qual, wants, var in specs:
        f = repo.fn(DS, qual); g = cg.cfg(f)
        for w in wants:
            w = w % var if '%s' in w else w
            tests = [t for t in g.nodes if t.kind == 'test' and norm(t.ast) == w]
            ok = bool(tests)
            for t in tests:
                ts = [y for y, lab in g.succ[t.id] if lab == 'T']
                if g.exit.id in g.reach(ts): ok = False
            # the registry store comes after the test
            reg = w.split(' in ')[-1]
            stores = [x for x in g.nodes if x.kind == 'stmt' and isinstance(x.ast, ast.Assign) and any(isinstance(t, ast.Subscript) and dotted(t.value) == reg for t in x.ast.targets)]
            stores += nodes_calling(g, lambda c: isinstance(c.func, ast.Attribute) and c.func.attr == '__init__' and dotted(c.func.value) == 'Constraint') if 'schema.names' in reg and qual != 'Table.__init__' else []
            if tests and stores and not all(g.dominated(s, tests) for s in stores): ok = False
            ob = ctx.ob('C26-UNIQUE.duplicate-name-is-rejected', f, tests[0].stmt if tests else f.node, ok,
                        '' if ok else '%s does not reject a duplicate (`%s` -> throw) before registering it: two schema objects can be emitted under one name' % (qual, w))
            ob.key += '::' + w
    # ---------------------------------------------------------------- FLAGS
    flags_rule(ctx)
    gs = repo.fn(DS, 'Column.get_sql'); recv = gs.recv
    txt = norm(gs.node, limit=100000)
    for what, needle in (('sql_default', 'column.sql_default'), ('auto template', 'column.auto_template %'), ('sql_type', 'column.sql_type'), ('ON DELETE', 'foreign_key.on_delete')):
        ok = needle.replace('column', recv) in txt
        ctx.ob('C26-FLAGS.column-attribute-emitted', gs, what, ok, '' if ok else 'Column.get_sql no longer emits ' + what)
    # ---------------------------------------------------------------- M2M
    gm = repo.fn('pony.orm.core', 'Database.generate_mapping')
    loops = [s for s in walk_no_nested(gm.node) if isinstance(s, ast.While) and norm(s.test) == 'm2m_table is not None']
    ok = len(loops) == 1 and any(isinstance(x, ast.Assign) and any(dotted(t) == 'm2m_table' for t in x.targets) and norm(x.value) == 'schema.tables.get(new_table_name)' for x in loops[0].body)
    ctx.ob('C26-M2M.default-name-clash-resolved-by-retry', gm, loops[0] if loops else gm.node, ok, '' if ok else 'the m2m default-name retry loop no longer re-checks schema.tables for each candidate')

    # ---------------------------------------------------------------- NULLS
    adds = [c for c in calls_in(gm.node) if isinstance(c.func, ast.Attribute) and c.func.attr == 'add_column']
    ctx.floor('C26-NULLS', len(adds), 3, 'add_column calls in generate_mapping')
    for c in adds:
        flag = c.args[3] if len(c.args) > 3 else next((k.value for k in c.keywords if k.arg == 'is_not_null'), None)
        recv_ = norm(c.func.value)
        if 'm2m' in recv_:
            ok = isinstance(flag, ast.Constant) and flag.value is True; want = 'True'
        else:
            ok = flag is not None and norm(flag) == 'not attr.nullable'; want = 'not attr.nullable'
        ctx.ob('C26-NULLS.not-null-flag-follows-effective-nullability', gm, c, ok,
               '' if ok else 'this column gets is_not_null = `%s`; its sibling branches use `%s`: for an attribute declared in a subclass (nullable is forced to True because '
               'rows of the other classes share the table) the column becomes NOT NULL and rows of the sibling classes cannot be inserted'
               % (norm(flag) if flag is not None else 'default', want), node=c, expected=want)
    # ---------------------------------------------------------------- COLS
    # a link table gets one column per primary-key COLUMN of the entity (a single primary-key attribute can span several columns when it is a
    # reference to an entity with a composite key): the generator of default m2m column names returns a single name only under a test of the
    # number of pk columns (len(<entity._get_pk_columns_()>) == 1), and otherwise one name per column
    for f in [x for x in repo.rule_funcs() if x.name == 'get_default_m2m_column_names' and x.cls is not None]:
        cols = {t.id for st in walk_no_nested(f.node) if isinstance(st, ast.Assign) and '_get_pk_columns_()' in norm(st.value) for t in st.targets if isinstance(t, ast.Name)}
        par_ = {}
        for x in ast.walk(f.node):
            for ch in ast.iter_child_nodes(x): par_[id(ch)] = x
        for r in [x for x in walk_no_nested(f.node) if isinstance(x, ast.Return) and isinstance(x.value, ast.List) and len(x.value.elts) == 1]:
            guard = None; x = r
            while id(x) in par_:
                x = par_[id(x)]
                if isinstance(x, ast.If): guard = x; break
            gtxt = norm(guard.test) if guard is not None else ''
            ok = any(('len(%s)' % c) in gtxt for c in cols) or 'len(entity._get_pk_columns_())' in gtxt
            ctx.ob('C26-COLS.single-m2m-column-name-only-for-a-single-pk-column', f, r, ok,
                   '' if ok else 'a single default column name is returned under `%s`, which is not a test of the number of primary-key columns: an entity whose only primary-key '
                   'attribute is a reference to a composite key gets one name for several columns and generate_mapping() fails' % (gtxt or 'no test'), node=r,
                   expected='if len(columns) == 1 with columns = entity._get_pk_columns_()')
    # ---------------------------------------------------------------- DDLCOMPLETE (rules shared with C14 and C15 through ddl_rules)
    ddl_rules(ctx, 'C26-DDL')


MUTANTS = [
    dict(id='C26-ddl1', file='pony/orm/dbschema.py', fn='ForeignKey._get_create_sql', old="        if foreign_key.on_delete:", new="        if foreign_key.on_delete and not inside_table:", expect='C26-DDL.on-delete'),
    dict(id='C26-co1', file='pony/orm/dbapiprovider.py', fn='DBAPIProvider.get_default_m2m_column_names', old="        if len(columns) == 1:", new="        if not entity._pk_is_composite_:", expect='C26-COLS'),
    dict(id='C26-n1', file='pony/orm/core.py', fn='Database.generate_mapping', old="table.add_column(column_name, converter.get_sql_type(), converter, not attr.nullable)", new="table.add_column(column_name, converter.get_sql_type(), converter, attr.is_required)", expect='C26-NULLS'),
    dict(id='C26-m1', file='pony/orm/dbapiprovider.py', fn='DBAPIProvider.get_default_fk_name', old='        return provider.normalize_name(fk_name.lower())', new='        return provider.normalize_name(fk_name).lower() + "_fk"', expect='C26-LIMIT.default-name'),
    dict(id='C26-m2', file='pony/orm/dbapiprovider.py', fn='DBAPIProvider.get_default_m2m_column_names', old="            return [ normalize_name(entity.__name__.lower()) ]", new="            return [ entity.__name__.lower() ]", expect='C26-LIMIT.default-name'),
    dict(id='C26-u1', file='pony/orm/dbschema.py', fn='DBIndex.__init__', old="column.is_unique = column.is_unique or (is_unique and len(columns) == 1)", new="column.is_unique = column.is_unique or (is_unique and len(columns) == 1 and not column.is_pk_part)", expect='C26-DDL.single-column-unique'),
    dict(id='C26-u2', file='pony/orm/dbschema.py', fn='DBIndex.__init__', old="column.is_unique = column.is_unique or (is_unique and len(columns) == 1)", new="column.is_unique = bool(column.is_unique or is_unique and len(columns) < 2)", benign=True),
    dict(id='C26-m3', file='pony/orm/dbschema.py', fn='Column.get_sql', old="            else:\n                if column.is_unique: append(case('UNIQUE'))",
         new="            elif column.is_pk_part:\n                append(case('NOT NULL'))\n            else:\n                if column.is_unique: append(case('UNIQUE'))", expect='C26-FLAGS.column-flag'),
    dict(id='C26-m4', file='pony/orm/dbschema.py', fn='ForeignKey.__init__', old="        if name is not None and name in schema.names:\n            throw(DBSchemaError, 'Foreign key %s cannot be created, name is already in use' % name)\n", new='', expect='C26-UNIQUE'),
    dict(id='C26-m5', file='pony/orm/dbschema.py', fn='Column.__init__', old='        if name in table.column_dict:\n            throw(DBSchemaError, "Column %r already exists in table %r" % (name, table.name))\n', new='', expect='C26-UNIQUE'),
    dict(id='C26-m6', file='pony/orm/dbproviders/postgres.py', fn='PGProvider.normalize_name', old='return name[:provider.max_name_len].lower()', new='return name.lower()', expect='C26-LIMIT.normalize'),
    dict(id='C26-m7', file='pony/orm/dbschema.py', fn='Column.get_sql', old="                if column.is_not_null: append(case('NOT NULL'))", new="                if column.is_not_null and not column.is_unique: append(case('NOT NULL'))", expect='C26-FLAGS.column-flag'),
]
