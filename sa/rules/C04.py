"""C04  Outer-scope expressions inside a query are evaluated exactly as Python would (source regeneration)."""
import ast, copy, itertools
from ..loader import dotted, walk_no_nested, norm, head, calls_in, AnalysisError

EXPLANATION = """
Static clauses decided (necessary conditions of C04: "regenerating source text from an expression tree and compiling it again
never changes its meaning"):
 GROUP   grouping is preserved for every (parent kind, child position, child kind) pair of expression nodes that
         PythonTranslator handles.  Pony's parenthesisation policy is read from the source: a handler decorated with
         @priority(p) wraps a child in parentheses when the decorator's condition holds for (child.priority, p, child index) --
         the condition expression itself is extracted from the decorator and evaluated abstractly; an undecorated handler never
         parenthesises; a node's own priority is the decorator argument, or the constant it assigns to node.priority, or 0.
         The reference "this child needs parentheses here" is computed from CPython's grammar alone: the two-node tree is
         printed with the child unparenthesised and re-parsed; if the parse fails or yields a different tree, parentheses are
         required.  Over-parenthesising is accepted, under-parenthesising is reported with the pair.
 FIELDS  no semantic field of a handled node kind is dropped: for every post<K> handler each field in ast.<K>._fields
         (minus ctx/type_comment/kind) is read by the handler, or the handler raises.
 ESCAPE  literal text of an f-string re-enters a lexical context where { and } are special: postJoinedStr re-escapes them.
 ESCAPE+ with a delimiter given, every definition of the literal text that reaches the output of fstring_body went through an escaping
         operation (reaching definitions under that scenario): no guard on the text itself lets a backslash through.
"""
NOT_DECIDED = "evaluation in the caller's frame, closure cells, which sub-expressions are classified as outer-scope"

AT = 'pony.orm.asttranslation'
IGNORED_FIELDS = {'ctx', 'type_comment', 'kind', 'type_params'}
FIELD_EXCEPTIONS = {
    ('arg', 'annotation'): "lambda parameters cannot carry annotations (grammar)",
    ('comprehension', 'is_async'): "an async comprehension inside a generator expression makes it an async generator, which pony's entry points reject before translation",
    ('arguments', 'kw_defaults'): "only meaningful together with kwonlyargs, which postarguments rejects",
}


# ------------------------------------------------------------------------------------------------ policy extraction
def handler_table(repo):
    PT = repo.cls(AT, 'PythonTranslator')
    table = {}
    for name, f in PT.methods.items():
        if not name.startswith('post'): continue
        kind = name[4:]
        dec = None
        for d in f.node.decorator_list:
            if isinstance(d, ast.Call) and dotted(d.func) == 'priority' and d.args and isinstance(d.args[0], ast.Constant): dec = d.args[0].value
        own = dec
        if own is None:
            for s in walk_no_nested(f.node):
                if isinstance(s, ast.Assign) and any(isinstance(t, ast.Attribute) and t.attr == 'priority' for t in s.targets) and isinstance(s.value, ast.Constant):
                    own = s.value.value
        table[kind] = (dec, own if own is not None else 0, f)
    return table


def decorator_condition(repo):
    """-> (cond expr, names) from `priority`: the test guarding `child.src = '(%s)' % child.src`"""
    pr = repo.fn(AT, 'priority')
    inner = None
    for f in pr.nested.values():
        for g in f.nested.values(): inner = g
    if inner is None: raise AnalysisError('C04: priority decorator shape changed')
    loops = [s for s in walk_no_nested(inner.node) if isinstance(s, ast.For)]
    if len(loops) != 1: raise AnalysisError('C04: priority decorator: expected one loop over the children')
    lp = loops[0]
    idx = child = None
    if isinstance(lp.iter, ast.Call) and dotted(lp.iter.func) == 'enumerate' and isinstance(lp.target, ast.Tuple):
        idx, child = lp.target.elts[0].id, lp.target.elts[1].id
        it = lp.iter.args[0]
    else:
        child = lp.target.id; it = lp.iter
    if not (isinstance(it, ast.Call) and dotted(it.func) == 'get_child_nodes'): raise AnalysisError('C04: priority decorator does not iterate get_child_nodes(node)')
    cond = None; aliases = {}
    for s in lp.body:
        if isinstance(s, ast.Assign) and isinstance(s.targets[0], ast.Name): aliases[s.targets[0].id] = s.value
        if isinstance(s, ast.If) and any(isinstance(x, ast.Assign) and norm(x.targets[0]) == child + '.src' for x in s.body): cond = s.test
    if cond is None: raise AnalysisError('C04: priority decorator: parenthesising statement not found')
    pname = pr.params[0]
    def ev(e, cp, p, i):
        if isinstance(e, ast.BoolOp):
            vals = [ev(v, cp, p, i) for v in e.values]
            return all(vals) if isinstance(e.op, ast.And) else any(vals)
        if isinstance(e, ast.UnaryOp) and isinstance(e.op, ast.Not): return not ev(e.operand, cp, p, i)
        if isinstance(e, ast.Compare):
            left = ev(e.left, cp, p, i); res = True
            for op, c in zip(e.ops, e.comparators):
                right = ev(c, cp, p, i)
                res = res and {ast.GtE: left >= right, ast.Gt: left > right, ast.LtE: left <= right, ast.Lt: left < right, ast.Eq: left == right, ast.NotEq: left != right}[type(op)]
                left = right
            return res
        if isinstance(e, ast.Constant): return e.value
        if isinstance(e, ast.Name):
            if e.id == pname: return p
            if e.id == idx: return i
            if e.id in aliases: return ev(aliases[e.id], cp, p, i)
            raise AnalysisError('C04: unknown name %s in the priority condition' % e.id)
        if isinstance(e, ast.Call) and dotted(e.func) == 'getattr' and len(e.args) == 3 and norm(e.args[0]) == child and isinstance(e.args[1], ast.Constant) and e.args[1].value == 'priority':
            return cp
        raise AnalysisError('C04: cannot interpret `%s` in the priority condition' % norm(e))
    return cond, ev


def helper_policy(repo):
    """base_src(node): returns '(%s)' % node.src under a condition -> evaluator(child node, child priority) or None if absent"""
    f = repo.fn_opt(AT, 'base_src')
    if f is None: return None
    # the condition under which the function returns the parenthesised text: the disjunction, over all paths from the entry to a
    # `return '(%s)' % ...`, of the conjunction of the branch outcomes along the path (tiny function: paths are enumerated), with local flags
    # replaced by their definitions -- so `if C: return '(%s)'..`, `if not C: return src; return '(%s)'..`, `flag = C; if flag: ...` agree
    from ..cfg import CFG
    from ..typestate import resolve_flags
    g = CFG(f.node, name='base_src')
    paren = {n.id for n in g.nodes if n.kind == 'stmt' and isinstance(n.ast, ast.Return) and n.ast.value is not None and "'(%s)'" in norm(n.ast.value)}
    if not paren: raise AnalysisError('C04: base_src no longer returns a parenthesised form')
    disj = []
    def walk(nid, lits, seen):
        if nid in paren: disj.append(list(lits)); return
        if nid in seen or len(seen) > 60: return
        for y, lab in g.succ[nid]:
            n_ = g.nodes[nid]
            if lab in ('exc', 'unmatched'): continue
            if n_.kind == 'test' and lab in ('T', 'F'):
                t = resolve_flags(f.node, n_.ast, depth=3)
                walk(y, lits + [t if lab == 'T' else ast.UnaryOp(op=ast.Not(), operand=t)], seen | {nid})
            else: walk(y, lits, seen | {nid})
    walk(g.entry.id, [], frozenset())
    if not disj: raise AnalysisError('C04: no path to the parenthesised return of base_src')
    ors = [ast.BoolOp(op=ast.And(), values=l) if len(l) > 1 else (l[0] if l else ast.Constant(value=True)) for l in disj]
    conds = [ast.BoolOp(op=ast.Or(), values=ors) if len(ors) > 1 else ors[0]]
    param = f.params[0]
    import builtins
    def ev(e, child, cp):
        if isinstance(e, ast.BoolOp):
            vals = [ev(v, child, cp) for v in e.values]
            return all(vals) if isinstance(e.op, ast.And) else any(vals)
        if isinstance(e, ast.UnaryOp) and isinstance(e.op, ast.Not): return not ev(e.operand, child, cp)
        if isinstance(e, ast.Compare) and len(e.ops) == 1:
            l, r = ev(e.left, child, cp), ev(e.comparators[0], child, cp)
            return {ast.GtE: l >= r, ast.Gt: l > r, ast.LtE: l <= r, ast.Lt: l < r, ast.Eq: l == r, ast.NotEq: l != r}[type(e.ops[0])]
        if isinstance(e, ast.Constant): return e.value
        if isinstance(e, ast.Call) and dotted(e.func) == 'getattr' and norm(e.args[0]) == param and e.args[1].value == 'priority': return cp
        if isinstance(e, ast.Call) and dotted(e.func) == 'isinstance':
            subj = child if norm(e.args[0]) == param else getattr(child, e.args[0].attr, None) if isinstance(e.args[0], ast.Attribute) and norm(e.args[0].value) == param else AnalysisError
            if subj is AnalysisError: raise AnalysisError('C04: cannot interpret %s' % norm(e))
            names = [dotted(x) for x in (e.args[1].elts if isinstance(e.args[1], ast.Tuple) else [e.args[1]])]
            types_ = tuple(getattr(ast, n.split('.')[-1]) if n.startswith('ast.') else getattr(builtins, n) for n in names)
            return isinstance(subj, types_)
        raise AnalysisError('C04: cannot interpret `%s` in base_src' % norm(e))
    return lambda child, cp: bool(ev(conds[0], child, cp))


def excluded_child_classes(repo):
    f = repo.fn(AT, 'get_child_nodes')
    for c in calls_in(f.node):
        if dotted(c.func) == 'isinstance' and isinstance(c.args[1], ast.Tuple):
            return tuple(getattr(ast, dotted(e).split('.')[-1]) for e in c.args[1].elts)
    raise AnalysisError('C04: get_child_nodes exclusion list not found')


# ------------------------------------------------------------------------------------------------ test universe
def N(x): return ast.Name(id=x, ctx=ast.Load())


CHILDREN = {
    'Or': lambda: ast.BoolOp(op=ast.Or(), values=[N('p'), N('q')]),
    'And': lambda: ast.BoolOp(op=ast.And(), values=[N('p'), N('q')]),
    'Not': lambda: ast.UnaryOp(op=ast.Not(), operand=N('p')),
    'USub': lambda: ast.UnaryOp(op=ast.USub(), operand=N('p')),
    'Compare': lambda: ast.Compare(left=N('p'), ops=[ast.Lt()], comparators=[N('q')]),
    'BitOr': lambda: ast.BinOp(left=N('p'), op=ast.BitOr(), right=N('q')),
    'BitXor': lambda: ast.BinOp(left=N('p'), op=ast.BitXor(), right=N('q')),
    'BitAnd': lambda: ast.BinOp(left=N('p'), op=ast.BitAnd(), right=N('q')),
    'LShift': lambda: ast.BinOp(left=N('p'), op=ast.LShift(), right=N('q')),
    'Add': lambda: ast.BinOp(left=N('p'), op=ast.Add(), right=N('q')),
    'Sub': lambda: ast.BinOp(left=N('p'), op=ast.Sub(), right=N('q')),
    'Mult': lambda: ast.BinOp(left=N('p'), op=ast.Mult(), right=N('q')),
    'Div': lambda: ast.BinOp(left=N('p'), op=ast.Div(), right=N('q')),
    'Mod': lambda: ast.BinOp(left=N('p'), op=ast.Mod(), right=N('q')),
    'Pow': lambda: ast.BinOp(left=N('p'), op=ast.Pow(), right=N('q')),
    'Attribute': lambda: ast.Attribute(value=N('p'), attr='z', ctx=ast.Load()),
    'Call': lambda: ast.Call(func=N('p'), args=[N('q')], keywords=[]),
    'Subscript': lambda: ast.Subscript(value=N('p'), slice=N('q'), ctx=ast.Load()),
    'Name': lambda: N('p'),
    'Constant': lambda: ast.Constant(value=7),
    # the compiler folds `-2` into one constant: a negative number prints with a leading minus sign and groups like a unary minus expression
    'NegInt': lambda: ast.Constant(value=-7),
    'NegFloat': lambda: ast.Constant(value=-2.5),
    'Float': lambda: ast.Constant(value=2.5),
    'Str': lambda: ast.Constant(value='s'),
    'NoneConst': lambda: ast.Constant(value=None),
    'List': lambda: ast.List(elts=[N('p')], ctx=ast.Load()),
    'Tuple': lambda: ast.Tuple(elts=[N('p'), N('q')], ctx=ast.Load()),
    'Dict': lambda: ast.Dict(keys=[N('p')], values=[N('q')]),
    'IfExp': lambda: ast.IfExp(test=N('t'), body=N('p'), orelse=N('q')),
    'Lambda': lambda: ast.Lambda(args=ast.arguments(posonlyargs=[], args=[], vararg=None, kwonlyargs=[], kw_defaults=[], kwarg=None, defaults=[]), body=N('p')),
}
KIND_OF = {'Or': 'Or', 'And': 'And'}


def parents():
    """(label, handler kind, builder(child) -> tree, position label)"""
    P = []
    for op in ('Or', 'And'):
        cls = getattr(ast, op)
        P.append((op, op, lambda c, cls=cls: ast.BoolOp(op=cls(), values=[c, N('b')]), 'values[0]'))
        P.append((op, op, lambda c, cls=cls: ast.BoolOp(op=cls(), values=[N('a'), c]), 'values[1]'))
    for op in ('Not', 'USub', 'UAdd', 'Invert'):
        cls = getattr(ast, op)
        P.append((op, op, lambda c, cls=cls: ast.UnaryOp(op=cls(), operand=c), 'operand'))
    P.append(('Compare', 'Compare', lambda c: ast.Compare(left=c, ops=[ast.Lt()], comparators=[N('b')]), 'left'))
    P.append(('Compare', 'Compare', lambda c: ast.Compare(left=N('a'), ops=[ast.Lt()], comparators=[c]), 'comparators[0]'))
    for op in ('BitOr', 'BitXor', 'BitAnd', 'LShift', 'RShift', 'Add', 'Sub', 'Mult', 'Div', 'FloorDiv', 'Mod', 'Pow'):
        cls = getattr(ast, op)
        P.append((op, op, lambda c, cls=cls: ast.BinOp(left=c, op=cls(), right=N('b')), 'left'))
        P.append((op, op, lambda c, cls=cls: ast.BinOp(left=N('a'), op=cls(), right=c), 'right'))
    P.append(('Attribute', 'Attribute', lambda c: ast.Attribute(value=c, attr='x', ctx=ast.Load()), 'value'))
    P.append(('Call', 'Call', lambda c: ast.Call(func=c, args=[N('b')], keywords=[]), 'func'))
    P.append(('Call', 'Call', lambda c: ast.Call(func=N('f'), args=[c, N('b')], keywords=[]), 'args[0]'))
    P.append(('Call', 'Call', lambda c: ast.Call(func=N('f'), args=[], keywords=[ast.keyword(arg='k', value=c)]), 'keywords[0].value'))
    P.append(('Subscript', 'Subscript', lambda c: ast.Subscript(value=c, slice=N('b'), ctx=ast.Load()), 'value'))
    P.append(('Subscript', 'Subscript', lambda c: ast.Subscript(value=N('a'), slice=c, ctx=ast.Load()), 'slice'))
    P.append(('IfExp', 'IfExp', lambda c: ast.IfExp(test=c, body=N('a'), orelse=N('b')), 'test'))
    P.append(('IfExp', 'IfExp', lambda c: ast.IfExp(test=N('t'), body=c, orelse=N('b')), 'body'))
    P.append(('IfExp', 'IfExp', lambda c: ast.IfExp(test=N('t'), body=N('a'), orelse=c), 'orelse'))
    P.append(('Lambda', 'Lambda', lambda c: ast.Lambda(args=ast.arguments(posonlyargs=[], args=[], vararg=None, kwonlyargs=[], kw_defaults=[], kwarg=None, defaults=[]), body=c), 'body'))
    P.append(('List', 'List', lambda c: ast.List(elts=[c, N('b')], ctx=ast.Load()), 'elts[0]'))
    P.append(('Tuple', 'Tuple', lambda c: ast.Tuple(elts=[c, N('b')], ctx=ast.Load()), 'elts[0]'))
    P.append(('Dict', 'Dict', lambda c: ast.Dict(keys=[c], values=[N('b')]), 'keys[0]'))
    P.append(('Dict', 'Dict', lambda c: ast.Dict(keys=[N('a')], values=[c]), 'values[0]'))
    return P


def kind_of(node):
    if isinstance(node, (ast.BoolOp, ast.BinOp, ast.UnaryOp)): return type(node.op).__name__
    return type(node).__name__


def dump(t): return ast.dump(t, annotate_fields=True, include_attributes=False)


class _FoldNeg(ast.NodeTransformer):
    """-<number> and the folded constant are the same value: compare trees modulo this folding"""
    def visit_UnaryOp(self, node):
        self.generic_visit(node)
        if isinstance(node.op, ast.USub) and isinstance(node.operand, ast.Constant) and type(node.operand.value) in (int, float, complex):
            return ast.Constant(value=-node.operand.value)
        return node


def needs_parens(build, child):
    """grammar ground truth: print the tree with the child un-parenthesised, re-parse, compare (modulo folding of negated numeric literals)"""
    want = ast.fix_missing_locations(ast.Expression(body=build(child)))
    holder = ast.fix_missing_locations(ast.Expression(body=build(N('__C__'))))
    text = ast.unparse(holder).replace('__C__', ast.unparse(child))
    try: got = ast.parse(text, mode='eval')
    except SyntaxError: return True, text
    return dump(_FoldNeg().visit(got)) != dump(_FoldNeg().visit(copy.deepcopy(want))), text


def own_priority(table, child):
    """the priority pony gives to `child`: the handler's decorator argument, or what the handler assigns to node.priority -- when the
    assigned value depends on the node (postConstant: a negative number), the handler's statements are interpreted for this child with a
    small evaluator (names: the node parameter, locals, isinstance/repr/str/type and the numeric types)"""
    dec, own, f = table[kind_of(child)]
    if dec is not None: return dec
    param = f.params[1] if len(f.params) > 1 else 'node'
    env = {param: child}
    from ..q import concrete_eval, Unknown
    ev = lambda e: concrete_eval(e, env)
    result = [None]
    def interp(stmts):
        for st in stmts:
            if isinstance(st, ast.Assign) and len(st.targets) == 1:
                t = st.targets[0]
                if isinstance(t, ast.Attribute) and t.attr == 'priority' and dotted(t.value) == param: result[0] = ev(st.value)
                elif isinstance(t, ast.Name):
                    try: env[t.id] = ev(st.value)
                    except Unknown: env.pop(t.id, None)
            elif isinstance(st, ast.If):
                if any(isinstance(x, ast.Attribute) and x.attr == 'priority' and isinstance(x.ctx, ast.Store) for b in (st.body, st.orelse) for y in b for x in ast.walk(y)):
                    interp(st.body if ev(st.test) else st.orelse)
            elif isinstance(st, ast.Return): return
    try: interp(f.node.body)
    except Unknown: return own
    return result[0] if isinstance(result[0], int) else own


def run(ctx):
    repo = ctx.repo
    table = handler_table(repo)
    ctx.floor('C04-GROUP', len(table), 50, 'post-handlers of PythonTranslator')
    cond, ev = decorator_condition(repo)
    excl = excluded_child_classes(repo)
    helper = helper_policy(repo)
    pt = repo.cls(AT, 'PythonTranslator')
    n = viol = 0
    for plabel, pkind, build, pos in parents():
        if pkind not in table: continue
        pdec, pown, pfn = table[pkind]
        for ckind, mk in CHILDREN.items():
            child = mk()
            hk = kind_of(child)
            if hk not in table: continue
            n += 1
            need, text = needs_parens(build, child)
            tree = build(child)
            kids = [k for k in ast.iter_child_nodes(tree) if not isinstance(k, excl)]
            # keyword / Starred wrappers: the child sits one level down, handled by an undecorated wrapper handler
            direct = any(k is child for k in kids)
            fld = pos.split('[')[0].split('.')[0]
            uses_helper = helper is not None and any(dotted(c.func) == 'base_src' and c.args and isinstance(c.args[0], ast.Attribute) and c.args[0].attr == fld
                                                     for c in calls_in(pfn.node))
            if not direct: pony = False
            elif uses_helper: pony = helper(child, own_priority(table, child))
            elif pdec is None: pony = False
            else:
                i = [j for j, k in enumerate(kids) if k is child][0]
                pony = bool(ev(cond, own_priority(table, child), pdec, i))
            ok = pony or not need
            ob = ctx.ob('C04-GROUP.child-parenthesised-when-grammar-requires', pfn, '%s.%s <- %s' % (plabel, pos, ckind), ok,
                        '' if ok else 'a %s node in position %s of a %s node needs parentheses (without them the text `%s` parses to a different tree or not at all), '
                        'but pony\'s policy does not add them: %s handler %s, child priority %s' % (
                            ckind, pos, plabel, text, plabel, ('is @priority(%s)' % pdec) if pdec is not None else 'is not decorated with @priority and never parenthesises',
                            own_priority(table, child)),
                        node=pfn.node, nontrivial=need, expected='parentheses around the child')
            if not ok: viol += 1
    ctx.count('C04-GROUP: (parent, position, child) pairs', n)
    ctx.floor('C04-GROUP', n, 900, 'pairs enumerated')
    # ---------------------------------------------------------------- FIELDS
    m = 0
    for kind, (dec, own, f) in sorted(table.items()):
        cls = getattr(ast, kind, None)
        if cls is None or not hasattr(cls, '_fields'): continue
        if issubclass(cls, (ast.boolop, ast.operator, ast.unaryop)):
            # handlers of operator kinds render the BoolOp/BinOp/UnaryOp node that carries the operator
            fields = ('values',) if issubclass(cls, ast.boolop) else ('left', 'right') if issubclass(cls, ast.operator) else ('operand',)
        elif issubclass(cls, ast.cmpop): continue
        else: fields = tuple(x for x in cls._fields if x not in IGNORED_FIELDS)
        if kind in ('Index', 'NameConstant', 'Num', 'Str', 'Bytes'): continue          # pre-3.8 node kinds, never produced by this interpreter
        raises = any(dotted(c.func) == 'throw' for c in calls_in(f.node)) and len(f.node.body) == 1
        param = f.params[1] if len(f.params) > 1 else 'node'
        used = {a.attr for a in ast.walk(f.node) if isinstance(a, ast.Attribute) and dotted(a.value) == param}
        used |= {c.args[1].value for c in calls_in(f.node) if dotted(c.func) == 'getattr' and len(c.args) >= 2 and dotted(c.args[0]) == param and isinstance(c.args[1], ast.Constant)}
        # a handler that reads an attribute the node class does not have fails with AttributeError: an error, not a silent drop
        if used - set(cls._fields) - {'priority', 'src', 'lineno', 'col_offset'}: raises = True
        # helper methods of the class called with the node read fields on its behalf (postJoinedStr -> fstring_body)
        for c in calls_in(f.node):
            if isinstance(c.func, ast.Attribute) and dotted(c.func.value) == f.params[0] and c.func.attr in pt.methods and any(dotted(a) == param for a in c.args):
                h = pt.methods[c.func.attr]; hp = h.params[1] if len(h.params) > 1 else 'node'
                used |= {a.attr for a in ast.walk(h.node) if isinstance(a, ast.Attribute) and dotted(a.value) == hp}
        if kind == 'FormattedValue':      # rendered by the enclosing f-string code, which iterates the items
            for h in pt.methods.values():
                used |= {a.attr for a in ast.walk(h.node) if isinstance(a, ast.Attribute) and dotted(a.value) == 'item'}
        helper_all = any(dotted(c.func) == 'binop_src' for c in calls_in(f.node))
        for fld in fields:
            if (kind, fld) in FIELD_EXCEPTIONS:
                ctx.exception('C04-FIELDS', '%s.%s' % (kind, fld), FIELD_EXCEPTIONS[(kind, fld)]); continue
            m += 1
            ok = raises or fld in used or helper_all and fld in ('left', 'right')
            ctx.ob('C04-FIELDS.handler-reads-every-semantic-field', f, '%s.%s' % (kind, fld), ok,
                   '' if ok else 'post%s never reads node.%s: that part of the expression is silently dropped from the regenerated source' % (kind, fld), node=f.node,
                   nontrivial=not ok)
    ctx.floor('C04-FIELDS', m, 60, 'semantic fields of handled node kinds')
    # ---------------------------------------------------------------- ESCAPE
    js = table.get('JoinedStr')
    if js:
        f = js[2]
        bodies_ = [f] + [pt.methods[c.func.attr] for c in calls_in(f.node) if isinstance(c.func, ast.Attribute) and c.func.attr in pt.methods]
        esc = all(any(isinstance(c.func, ast.Attribute) and c.func.attr == 'replace' and c.args and isinstance(c.args[0], ast.Constant) and c.args[0].value == br
                      for h in bodies_ for c in calls_in(h.node)) for br in ('{', '}'))
        ctx.ob('C04-ESCAPE.fstring-literal-braces-re-escaped', f, f.node, esc,
               '' if esc else 'postJoinedStr copies the literal parts of an f-string verbatim: a literal `{{x}}` is regenerated as `{x}` and evaluated as an expression')

    # ---------------------------------------------------------------- OPTIONAL
    # an optional part of a node is left out of the regenerated text only when it is ABSENT (None; -1 for FormattedValue.conversion; empty
    # list): a guard that also excludes a meaningful value (`conversion not in (-1, ord('s'))`) silently drops `!s`, which matters for
    # `f'{x!s:>5}'` and for objects whose __format__ differs from __str__
    ABSENT = {'conversion': {-1}}
    nopt = 0
    for name, f in sorted(pt.methods.items()):
        if not (name.startswith('post') or name == 'fstring_body'): continue
        for t in [x for x in ast.walk(f.node) if isinstance(x, (ast.If, ast.IfExp))]:
            flds = {a.attr for a in ast.walk(t.test) if isinstance(a, ast.Attribute) and isinstance(a.value, ast.Name) and a.attr in
                    ('conversion', 'format_spec', 'lower', 'upper', 'step', 'vararg', 'kwarg', 'defaults', 'keywords', 'starargs', 'kwargs', 'orelse', 'ifs')}
            for fld in sorted(flds):
                nopt += 1
                tt = t.test; ok = True; why = ''
                for cmp_ in [c for c in ast.walk(tt) if isinstance(c, ast.Compare) and any(isinstance(a, ast.Attribute) and a.attr == fld for a in ast.walk(c.left))]:
                    consts = []
                    for comp in cmp_.comparators:
                        for c_ in ast.walk(comp):
                            if isinstance(c_, ast.Constant): consts.append(c_.value)
                            elif isinstance(c_, ast.UnaryOp) and isinstance(c_.op, ast.USub) and isinstance(c_.operand, ast.Constant): consts.append(-c_.operand.value)
                            elif isinstance(c_, ast.Call): consts.append(norm(c_))
                    consts = [c for c in consts if not (isinstance(c, int) and not isinstance(c, bool) and -c in consts and c > 0 and isinstance(cmp_.comparators[0], ast.UnaryOp))]
                    allowed = {None} | ABSENT.get(fld, set())
                    extra = [c for c in consts if c not in allowed]
                    if extra: ok = False; why = 'the guard `%s` also excludes %s' % (norm(tt), extra)
                ctx.ob('C04-FIELDS.optional-part-omitted-only-when-absent', f, '%s: %s' % (fld, norm(tt)), ok,
                       '' if ok else '%s: a value of `%s` that is present in the source is left out of the regenerated text' % (why, fld), node=t)
    ctx.floor('C04-FIELDS', nopt, 4, 'guards on optional parts of a node')
    # ---------------------------------------------------------------- ARITY
    # a tuple display rendered as a bare comma-separated list (the key of a subscript, a parenthesised tuple) needs the
    # trailing comma when it has exactly one element: `d[x,]` is not `d[x]`, `(x,)` is not `(x)`
    from ..typestate import eval_test
    from ..q import cfg_node_of, resolve_local, resolve_names
    sites = 0
    for name, f in sorted(pt.methods.items()):
        if not name.startswith('post'): continue
        param = f.params[1] if len(f.params) > 1 else 'node'
        tuple_typed = set()
        if name == 'postTuple': tuple_typed.add(param)
        const_tuples = set()          # X such that isinstance(X.value, tuple) is tested: a tuple folded into one constant, d[1,] -> Constant((1,))
        for c in calls_in(f.node):
            if dotted(c.func) == 'isinstance' and len(c.args) == 2 and dotted(c.args[1]) in ('ast.Tuple', 'Tuple'): tuple_typed.add(norm(c.args[0]))
            if dotted(c.func) == 'isinstance' and len(c.args) == 2 and dotted(c.args[1]) == 'tuple' and isinstance(c.args[0], ast.Attribute) and c.args[0].attr == 'value':
                const_tuples.add(norm(c.args[0].value))
        if not tuple_typed and not const_tuples: continue
        g = None
        for c in calls_in(f.node):
            if not (isinstance(c.func, ast.Attribute) and c.func.attr == 'join' and isinstance(c.func.value, ast.Constant) and isinstance(c.func.value.value, str)
                    and ',' in c.func.value.value and c.args and isinstance(c.args[0], (ast.ListComp, ast.GeneratorExp))): continue
            it = resolve_local(f.node, c.args[0].generators[0].iter)          # `elts = x.elts; ', '.join(e.src for e in elts)`
            if isinstance(it, ast.Attribute) and it.attr == 'elts' and norm(it.value) in tuple_typed: fld = 'elts'
            elif isinstance(it, ast.Attribute) and it.attr == 'value' and norm(it.value) in const_tuples: fld = 'value'
            else: continue
            X = norm(it.value); sites += 1
            g = g or ctx.cg.cfg(f)
            def atom(text, node, X=X, fld=fld):
                t = text.replace(' ', '')
                L = 'len(%s.%s)' % (X, fld)
                if fld == 'value':
                    if t in ('isinstance(%s.value,tuple)' % X, 'isinstance(%s,ast.Constant)' % X, X + '.value'): return True
                    if t in ('isinstance(%s,ast.Tuple)' % X, 'isinstance(%s,Tuple)' % X): return False           # the key is one folded constant, not a tuple display
                if t == L + '==1': return True
                if t in (L + '!=1', L + '>1', L + '>=2', L + '==0', L + '<1'): return False
                if t == 'isinstance(%s,ast.Tuple)' % X or t == 'isinstance(%s,Tuple)' % X or t == X + '.elts' or t == L: return True
                return None
            def edge_ok(x, y, lab):
                n_ = g.nodes[x]
                if n_.kind != 'test' or lab not in ('T', 'F'): return True
                v = eval_test(resolve_names(f.node, n_.ast), atom)
                return v is None or v == (lab == 'T')
            here = cfg_node_of(g, c)
            r = g.reach([g.entry], edge_ok=edge_ok)
            bad = [h for h in here if h.id in r]
            ctx.ob('C04-ARITY.one-element-tuple-keeps-its-comma', f, c, not bad,
                   '' if not bad else 'the elements of a tuple (%s) are joined with commas on a path that a one-element tuple also takes: `d[x,]` is regenerated as '
                   '`d[x]` (resp. `(x,)` as `(x)`), which is a different value' % X, node=c, expected='a branch for len(%s.elts) == 1 that emits the trailing comma' % X)
    ctx.floor('C04-ARITY', sites, 2, 'bare comma-joined tuple renderings')
    # ---------------------------------------------------------------- LISTFIELD
    LIST_FIELDS = {'values', 'ops', 'comparators', 'elts', 'keys', 'args', 'keywords', 'generators', 'ifs', 'defaults'}
    for kind, (dec, own, f) in sorted(table.items()):
        cls = getattr(ast, kind, None)
        if cls is None: continue
        param = f.params[1] if len(f.params) > 1 else 'node'
        par = {}
        for x in ast.walk(f.node):
            for ch in ast.iter_child_nodes(x): par[id(ch)] = x
        for fld in [x for x in getattr(cls, '_fields', ()) if x in LIST_FIELDS]:
            uses = [a for a in ast.walk(f.node) if isinstance(a, ast.Attribute) and a.attr == fld and dotted(a.value) == param and isinstance(a.ctx, ast.Load)]
            if not uses: continue
            only_indexed = all(isinstance(par.get(id(a)), ast.Subscript) and par[id(a)].value is a and isinstance(par[id(a)].slice, ast.Constant) for a in uses)
            ctx.ob('C04-FIELDS.list-field-rendered-completely', f, '%s.%s' % (kind, fld), not only_indexed,
                   '' if not only_indexed else 'post%s reads node.%s only at a constant index: the other items of the list are dropped from the regenerated source' % (kind, fld),
                   node=f.node)

    # ---------------------------------------------------------------- SCOPE
    # outer-scope expressions are evaluated by extract_vars with eval-like extractors over (globals, locals); for a lambda that
    # was created in another function the free variables live in closure cells, and Python resolves a free variable to its
    # cell, never to a same-named local of whoever happens to call: the cell contents must override the frame's locals
    ev = repo.fn('pony.orm.core', 'extract_vars')
    def absval(e, env):
        if isinstance(e, ast.Name): return list(env.get(e.id, [e.id]))
        if isinstance(e, ast.Call) and isinstance(e.func, ast.Attribute) and e.func.attr == 'copy' and not e.args: return absval(e.func.value, env)
        if isinstance(e, ast.Call) and dotted(e.func) == 'dict':
            out = []
            for a in e.args: out += absval(a, env)
            for k in e.keywords:
                if k.arg is None: out += absval(k.value, env)
            return out
        if isinstance(e, ast.Dict):
            out = []
            for k, v in zip(e.keys, e.values):
                if k is None: out += absval(v, env)
            return out
        if isinstance(e, ast.BinOp) and isinstance(e.op, ast.BitOr): return absval(e.left, env) + absval(e.right, env)
        if isinstance(e, ast.DictComp) and 'cell_contents' in norm(e.value) and 'cells' in norm(e.generators[0].iter): return ['cells']
        if isinstance(e, ast.Call) and dotted(e.func) in ('ChainMap', 'collections.ChainMap'):
            out = []
            for a in reversed(e.args): out += absval(a, env)
            return out
        return ['?' + norm(e)[:30]]
    env = {p_: [p_] for p_ in ev.params}
    uses = []
    def interp(stmts):
        for st in stmts:
            if isinstance(st, ast.Assign) and len(st.targets) == 1 and isinstance(st.targets[0], ast.Name):
                env[st.targets[0].id] = absval(st.value, env)
            elif isinstance(st, ast.Assign) and len(st.targets) == 1 and isinstance(st.targets[0], ast.Subscript) and isinstance(st.targets[0].value, ast.Name) \
                    and 'cell_contents' in norm(st.value):
                env.setdefault(st.targets[0].value.id, [st.targets[0].value.id]).append('cells')
            elif isinstance(st, ast.Expr) and isinstance(st.value, ast.Call) and isinstance(st.value.func, ast.Attribute) and st.value.func.attr == 'update' \
                    and isinstance(st.value.func.value, ast.Name) and st.value.args:
                env.setdefault(st.value.func.value.id, [st.value.func.value.id]).extend(absval(st.value.args[0], env))
            elif isinstance(st, ast.If): interp(st.body)                    # scenario: a closure is present (`if cells:` taken)
            elif isinstance(st, (ast.For, ast.While)): interp(st.body)
            elif isinstance(st, ast.Try): interp(st.body)
            for c in ([x for x in ast.walk(st) if isinstance(x, ast.Call)] if not isinstance(st, (ast.If, ast.For, ast.While, ast.Try)) else []):
                if isinstance(c.func, ast.Name) and c.func.id in ('extractor', 'eval') and len(c.args) >= 2:
                    uses.append((c, absval(c.args[-1], env)))
    interp(ev.node.body)
    ctx.need(bool(uses), 'C04-SCOPE: no extractor(globals, locals) call found in extract_vars')
    for c, val in uses:
        unknown = [v for v in val if v.startswith('?')]
        ctx.need(not unknown, 'C04-SCOPE: cannot interpret how the evaluation namespace is built in extract_vars: %s' % unknown)
        ok = 'cells' in val and 'locals' in val and max(i for i, v in enumerate(val) if v == 'cells') > max(i for i, v in enumerate(val) if v == 'locals')
        ctx.ob('C04-SCOPE.closure-cells-override-frame-locals', ev, c, ok,
               '' if ok else 'the namespace outer-scope expressions are evaluated in is built as %s (later entries win): a free variable of a lambda created '
               'elsewhere is resolved to a same-named local of the calling frame instead of its closure cell' % ' < '.join(val), node=c,
               expected='locals < cells')
    # ---------------------------------------------------------------- FIELDS per return path
    # a handler with several returns: each return either renders every semantic field of the node or is unreachable when the field it leaves out is
    # non-empty (`if len(node.args) == 1 and not node.keywords and ...: return <func + the generator>` may ignore keywords only because there are none)
    from ..typestate import scenario_edges
    from ..q import reaching_defs, value_of_def
    npaths = 0
    for kind, (dec, own, f) in sorted(table.items()):
        cls = getattr(ast, kind, None)
        if cls is None or not hasattr(cls, '_fields') or issubclass(cls, (ast.boolop, ast.operator, ast.unaryop, ast.cmpop)): continue
        if kind in ('Index', 'NameConstant', 'Num', 'Str', 'Bytes'): continue
        param = f.params[1] if len(f.params) > 1 else 'node'
        g = ctx.cg.cfg(f)
        rets = [x for x in g.nodes if x.kind == 'stmt' and isinstance(x.ast, ast.Return) and x.ast.value is not None]
        if len(rets) < 2: continue
        fields = [x for x in cls._fields if x not in IGNORED_FIELDS and (kind, x) not in FIELD_EXCEPTIONS]
        for r in rets:
            seen = set(); work = [(r.ast.value, r, 0)]; used = set()
            while work:
                e, at, depth = work.pop()
                for a in ast.walk(e):
                    if isinstance(a, ast.Attribute) and dotted(a.value) == param: used.add(a.attr)
                    if isinstance(a, ast.Call) and dotted(a.func) == 'getattr' and len(a.args) >= 2 and dotted(a.args[0]) == param and isinstance(a.args[1], ast.Constant): used.add(a.args[1].value)
                    if isinstance(a, ast.Name) and isinstance(a.ctx, ast.Load) and depth < 4:
                        for d in reaching_defs(g, at, a.id):
                            if (d.id, a.id) in seen: continue
                            seen.add((d.id, a.id))
                            v = value_of_def(d, a.id)
                            if v is not None: work.append((v, d, depth + 1))
                            elif d.kind == 'iter': work.append((d.ast.iter, d, depth + 1))
            # statements that feed a result list through .append / .extend count as well
            for x in g.nodes:
                if x.kind == 'stmt' and x.ast is not None and r.id in g.reach([x]) and any(isinstance(c.func, ast.Attribute) and c.func.attr in ('append', 'extend') for c in x.calls()):
                    for a in ast.walk(x.ast):
                        if isinstance(a, ast.Attribute) and dotted(a.value) == param: used.add(a.attr)
            for F in fields:
                if F in used: continue
                npaths += 1
                def nonempty(text, node, F=F):
                    t = text.replace(' ', '')
                    if t == '%s.%s' % (param, F): return True
                    if t == 'len(%s.%s)==0' % (param, F): return False
                    if t in ('%s.%sisNone' % (param, F),): return False
                    if t in ('%s.%sisnotNone' % (param, F),): return True
                    return None
                live = g.reach([g.entry], edge_ok=scenario_edges(g, f.node, nonempty, resolve=False))
                ok = r.id not in live
                ctx.ob('C04-FIELDS.return-path-renders-every-field-or-proves-it-empty', f, r.ast, ok,
                       '' if ok else 'post%s can take `%s` for a node whose `%s` is not empty: that part of the expression is missing from the regenerated source '
                       '(e.g. max((x for x in T), default=0) -> max(x for x in T))' % (kind, norm(r.ast)[:70], F), node=r.ast).key += '::' + F
    ctx.count('C04-FIELDS: (return, omitted field) pairs shown unreachable for a non-empty field', npaths)
    # the source of a replacement field is code: its own string literals are escaped already.  Whatever escapes text for the new string literal (repr / %r,
    # unicode_escape, replace of quotes or backslashes) is applied to the literal parts only -- never to something that contains <item>.value.src
    if js:
        from ..q import reaching_defs, value_of_def
        nesc = 0
        for h in bodies_:
            gh = ctx.cg.cfg(h)
            for x in gh.nodes:
                if x.ast is None or x.kind not in ('stmt', 'test'): continue
                for e in ast.walk(x.ast):
                    operand = None
                    if isinstance(e, ast.BinOp) and isinstance(e.op, ast.Mod) and isinstance(e.left, ast.Constant) and isinstance(e.left.value, str) and '%r' in e.left.value: operand = e.right
                    elif isinstance(e, ast.Call) and dotted(e.func) in ('repr', 'ascii') and e.args: operand = e.args[0]
                    elif isinstance(e, ast.Call) and isinstance(e.func, ast.Attribute) and e.func.attr == 'encode' and e.args and isinstance(e.args[0], ast.Constant) and 'escape' in str(e.args[0].value): operand = e.func.value
                    if operand is None: continue
                    nesc += 1
                    # does the operand (through local definitions and through calls to the class's own helpers) contain field source?
                    seen = set(); work = [(operand, x, 0)]; tainted = False
                    while work and not tainted:
                        ex, at, depth = work.pop()
                        for a in ast.walk(ex):
                            if isinstance(a, ast.Attribute) and a.attr == 'src': tainted = True
                            if isinstance(a, ast.Call) and isinstance(a.func, ast.Attribute) and a.func.attr in pt.methods and len(a.args) == 1:
                                # self.fstring_body(node) without the escaping argument returns text that embeds field source
                                if any(isinstance(y, ast.Attribute) and y.attr == 'src' for y in ast.walk(pt.methods[a.func.attr].node)): tainted = True
                            if isinstance(a, ast.Name) and isinstance(a.ctx, ast.Load) and depth < 3:
                                for d in reaching_defs(gh, at, a.id):
                                    if (d.id, a.id) in seen: continue
                                    seen.add((d.id, a.id))
                                    v = value_of_def(d, a.id)
                                    if v is not None: work.append((v, d, depth + 1))
                    ctx.ob('C04-ESCAPE.field-source-is-not-re-escaped', h, e, not tainted,
                           '' if not tainted else '`%s` escapes text that contains the source of replacement fields: the backslashes and quotes of string literals inside a field are '
                           'escaped a second time (a newline escape inside a field becomes a backslash followed by n)' % norm(e)[:70], node=x.ast)
        ctx.count('C04-ESCAPE: escaping operations in the f-string handlers', nesc)
        ctx.ob('C04-ESCAPE.the-f-string-handlers-escape-at-all', f, f.node, nesc > 0,
               '' if nesc else 'no escaping operation (repr / %r / encode(<..._escape>)) is left in the f-string handlers: backslashes and control characters of the literal parts are '
               'written into the regenerated source as they are and read back as escape sequences')
        # ... and it is applied to *every* literal part: under the scenario "a delimiter is given" each definition of the text that reaches the output
        # list has gone through an escaping operation (a guard on the text itself -- `if not text.isprintable()` -- lets a backslash through unescaped)
        def is_esc(e):
            return any(isinstance(c, ast.Call) and isinstance(c.func, ast.Attribute) and c.func.attr == 'encode' and c.args and isinstance(c.args[0], ast.Constant)
                       and 'escape' in str(c.args[0].value) or isinstance(c, ast.Call) and dotted(c.func) in ('repr', 'ascii') for c in ast.walk(e))
        nlit = 0
        for h in {id(b_): b_ for b_ in bodies_}.values():
            if len(h.params) < 3: continue               # the handler that takes the delimiter (fstring_body(self, node, quote))
            gh = ctx.cg.cfg(h)
            qparams = [p_ for p_ in h.params if p_ not in (h.recv,)]
            def given(text, node):
                for qp in qparams[1:]:
                    if text == qp + ' is None': return False
                    if text == qp: return True
                return None
            eo_q = scenario_edges(gh, h.node, given, resolve=False)
            live_q = gh.reach([gh.entry], edge_ok=eo_q)
            for x in gh.nodes:
                if x.ast is None or x.kind != 'stmt' or x.id not in live_q: continue
                for c in x.calls():
                    if not (isinstance(c.func, ast.Attribute) and c.func.attr in ('append', 'extend') and c.args and isinstance(c.args[0], ast.Name)): continue
                    var = c.args[0].id
                    seen = set(); bad = []
                    def escaped(at, name, depth=0):
                        ds = reaching_defs(gh, at, name, edge_ok=eo_q)
                        if not ds: return False
                        for d in ds:
                            if (d.id, name) in seen: continue
                            seen.add((d.id, name))
                            v = value_of_def(d, name)
                            if v is None: return False
                            if any(isinstance(a, ast.Attribute) and a.attr == 'src' for a in ast.walk(v)): continue      # field source, not literal text
                            if is_esc(v): continue
                            subj = v                                        # the text a chain of string methods is applied to
                            while True:
                                if isinstance(subj, ast.Call) and isinstance(subj.func, ast.Attribute): subj = subj.func.value
                                elif isinstance(subj, (ast.Attribute, ast.Subscript)): subj = subj.value
                                else: break
                            if isinstance(subj, ast.Name) and depth < 4 and escaped(d, subj.id, depth + 1): continue
                            bad.append(d); return False
                        return True
                    # only text variables that hold literal parts: some definition derives from a Constant's value
                    lit = any(any(isinstance(a, ast.Attribute) and a.attr == 'value' for a in ast.walk(value_of_def(d, var) or ast.Pass())) for d in gh.nodes
                              if d.ast is not None and d.kind == 'stmt' and value_of_def(d, var) is not None)
                    if not lit: continue
                    nlit += 1
                    ok = escaped(x, var)
                    ctx.ob('C04-ESCAPE.every-literal-part-is-escaped-when-a-delimiter-is-given', h, c, ok,
                           '' if ok else 'with a delimiter given, `%s` can reach the output through `%s` without an escaping operation: a backslash in the literal text of an f-string is '
                           'written out as it is and read back as an escape sequence' % (var, norm(bad[0].ast)[:70] if bad else '?'), node=x.ast)
        ctx.floor('C04-ESCAPE', nlit, 1, 'literal parts appended to the output of the f-string handlers')


MUTANTS = [
    dict(id='C04-esc5', file='pony/orm/asttranslation.py', fn='PythonTranslator.fstring_body', old="text.encode('unicode_escape').decode('ascii')", new="text.encode('ascii', 'backslashreplace').decode('ascii')", expect='C04-ESCAPE'),
    dict(id='C04-esc3', file='pony/orm/asttranslation.py', fn='PythonTranslator.fstring_body', old="                    text = text.encode('unicode_escape').decode('ascii').replace(quote[0], '\\\\' + quote[0])",
         new="                    if not text.isascii(): text = text.encode('unicode_escape').decode('ascii')\n                    text = text.replace(quote[0], '\\\\' + quote[0])", expect='C04-ESCAPE.every-literal-part'),
    dict(id='C04-esc4', file='pony/orm/asttranslation.py', fn='PythonTranslator.fstring_body', old="                    text = text.encode('unicode_escape').decode('ascii').replace(quote[0], '\\\\' + quote[0])",
         new="                    escaped = text.encode('unicode_escape').decode('ascii')\n                    text = escaped.replace(quote[0], '\\\\' + quote[0])", benign=True),
    dict(id='C04-esc2', file='pony/orm/asttranslation.py', fn='PythonTranslator.postJoinedStr', old="                return 'f' + quote + self.fstring_body(node, quote) + quote", new="                return 'f%r' % self.fstring_body(node)", expect='C04-ESCAPE.field-source'),
    dict(id='C04-kw', file='pony/orm/asttranslation.py', fn='PythonTranslator.postCall', old="        if len(node.args) == 1 and not node.keywords and isinstance(node.args[0], ast.GeneratorExp):", new="        if len(node.args) == 1 and isinstance(node.args[0], ast.GeneratorExp):", expect='C04-FIELDS.return-path'),
    dict(id='C04-arity-const', file='pony/orm/asttranslation.py', fn='PythonTranslator.postSubscript', old="            key = repr(x.value)[1:-1]", new="            key = ', '.join([repr(item) for item in x.value])", expect='C04-ARITY'),
    dict(id='C04-neg', file='pony/orm/asttranslation.py', fn='PythonTranslator.postConstant', old="        node.priority = 4 if isinstance(value, (int, float, complex)) and repr(value).startswith('-') else 1", new="        node.priority = 1", expect='C04-GROUP'),
    dict(id='C04-neg2', file='pony/orm/asttranslation.py', fn='PythonTranslator.postConstant', old="        node.priority = 4 if isinstance(value, (int, float, complex)) and repr(value).startswith('-') else 1", new="        node.priority = 4 if type(value) in (int, float, complex) and value < 0 else 1", expect='C04-GROUP', benign=True),
    dict(id='C04-m1', file='pony/orm/asttranslation.py', fn='priority',
         old="            for child in get_child_nodes(node):\n                if getattr(child, 'priority', 0) >= p:",
         new="            for i, child in enumerate(get_child_nodes(node)):\n                child_priority = getattr(child, 'priority', 0)\n                if child_priority > p or child_priority == p and i:", expect='C04-GROUP'),
    dict(id='C04-m2', file='pony/orm/asttranslation.py', fn='PythonTranslator.postAdd', old='    @priority(6)\n    def postAdd', new='    @priority(7)\n    def postAdd', expect='C04-GROUP'),
    dict(id='C04-m3', file='pony/orm/asttranslation.py', fn='PythonTranslator.postNot', old='    @priority(12)\n    def postNot', new='    def postNot', expect='C04-GROUP'),
    dict(id='C04-m4', file='pony/orm/asttranslation.py', fn='PythonTranslator.postCompare', old='        for op, expr in zip(node.ops, node.comparators):\n            result.extend((op.src, expr.src))', new="        result.extend((node.ops[0].src, node.comparators[0].src))", expect='C04-FIELDS.list-field'),
    dict(id='C04-m5', file='pony/orm/asttranslation.py', fn='PythonTranslator.postSlice', old="        if node.step:\n            result.append(':')\n            result.append(node.step.src)\n", new='', expect='C04-FIELDS'),
    dict(id='C04-m7', file='pony/orm/asttranslation.py', fn='PythonTranslator.postSubscript', old="        if isinstance(x, ast.Tuple) and len(x.elts) == 1:\n            key = x.elts[0].src + ','\n        elif isinstance(x, ast.Tuple) and x.elts:", new="        if isinstance(x, ast.Tuple):", expect='C04-ARITY'),
    dict(id='C04-m8', file='pony/orm/asttranslation.py', fn='PythonTranslator.postTuple', old="        if len(node.elts) == 1:\n            return '(%s,)' % node.elts[0].src\n", new='', expect='C04-ARITY'),
    dict(id='C04-m9', file='pony/orm/core.py', fn='extract_vars',
         old="        locals = locals.copy()\n        for name, cell in cells.items():\n            try:\n                locals[name] = cell.cell_contents\n            except ValueError:\n                throw(NameError, 'Free variable `%s` referenced before assignment in enclosing scope' % name)\n",
         new="        closure_vars = {}\n        for name, cell in cells.items():\n            try:\n                closure_vars[name] = cell.cell_contents\n            except ValueError:\n                throw(NameError, 'Free variable `%s` referenced before assignment in enclosing scope' % name)\n        locals = dict(closure_vars, **locals)\n", expect='C04-SCOPE'),
    dict(id='C04-m10', file='pony/orm/core.py', fn='extract_vars',
         old="        locals = locals.copy()\n        for name, cell in cells.items():\n            try:\n                locals[name] = cell.cell_contents\n            except ValueError:\n                throw(NameError, 'Free variable `%s` referenced before assignment in enclosing scope' % name)\n",
         new="        closure_vars = {}\n        for name, cell in cells.items():\n            try:\n                closure_vars[name] = cell.cell_contents\n            except ValueError:\n                throw(NameError, 'Free variable `%s` referenced before assignment in enclosing scope' % name)\n        locals = dict(locals, **closure_vars)\n", benign=True),
    dict(id='C04-m11', file='pony/orm/asttranslation.py', fn='PythonTranslator.fstring_body', old="if item.conversion != -1: src += '!' + chr(item.conversion)", new="if item.conversion not in (-1, ord('s')): src += '!' + chr(item.conversion)", expect='C04-FIELDS.optional'),
    dict(id='C04-m6', file='pony/orm/asttranslation.py', fn='PythonTranslator.postPow', old='    @priority(3)\n    def postPow', new='    @priority(5)\n    def postPow', expect='C04-GROUP'),
]
