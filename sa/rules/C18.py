"""C18  A db_session commits exactly when its body succeeds."""
import ast, re
from ..loader import dotted, walk_no_nested, norm, head, calls_in, const
from ..q import resolve_local, nodes_calling, is_call_to

EXPLANATION = """
Static clauses decided (necessary conditions of C18):
 CALL   every explicit call site of DBSessionContextManager.__exit__ in the package (decorator retry loop, Flask
        teardown, ...) that supplies an exception value also supplies its type: __exit__ decides commit/rollback from
        exc_type alone, so a call `__exit__(exc=e)` commits a failed body.
 GATE   in _commit_or_rollback, commit() is reachable only through the true edge of `if can_commit`; every definition
        of can_commit is one of {True under `exc_type is None`, issubclass(exc_type, tuple(allowed_exceptions)),
        allowed_exceptions(exc)}; the false edge cannot reach an exit without rollback().
        (round 8) Every exception edge of the allowed_exceptions predicate call reaches the raise only through a rollback, whatever the class.
 NEST   __exit__ decrements the nesting counter first and calls _commit_or_rollback only under
        `not local.db_context_counter`; _enter increments it.
 RETRY  the decorator's loop is `for ... in range(db_session.retry+1)` (bounded, no while-loop); in the handler the next
        attempt is reachable only through rollback(); `do_retry` is defined only from should_retry / retry_exceptions;
        a non-retryable exception re-raises; __exit__(exc_type, exc, tb) lies on every path leaving an attempt;
        the result is returned only after commit().
 GEN    in the generator wrapper commit() is reachable only inside `except StopIteration`; every other exception
        reaches rollback_and_reraise.
 MULTI  a session spanning several databases commits none of them when the flush of any of them fails: the module-level commit()
        flushes every cache before the first commit and rolls everything back on a flush error (rules shared with C17-ABORT).
 BOTTLE the plug-in passes its allowed_exceptions predicate to db_session and the predicate excludes HTTPError.
"""
NOT_DECIDED = "what Flask/Bottle pass to the hooks at run time; behaviour of commit()/rollback() themselves"

CM = ('pony.orm.core', 'DBSessionContextManager')


def arg_of(call, fn, pname):
    """expression bound to parameter pname of fn (a method: first param is the receiver) at this call, or None"""
    params = fn.params[1:]
    for kw in call.keywords:
        if kw.arg == pname: return kw.value
        if kw.arg is None: return 'UNKNOWN'
    if any(isinstance(a, ast.Starred) for a in call.args): return 'UNKNOWN'
    if pname in params:
        i = params.index(pname)
        if i < len(call.args): return call.args[i]
    return None


def is_none(e):
    return e is None or (isinstance(e, ast.Constant) and e.value is None)


def maybe_not_none(e):
    if e is None: return False
    if isinstance(e, ast.IfExp): return maybe_not_none(e.body) or maybe_not_none(e.orelse)
    return not is_none(e)


def run(ctx):
    repo, cg = ctx.repo, ctx.cg
    cm = repo.cls(*CM)
    exit_fn = repo.fn(CM[0], 'DBSessionContextManager.__exit__')
    ctx.need(exit_fn.params[1:4] == ['exc_type', 'exc', 'tb'], 'C18: __exit__ signature changed: %s' % exit_fn.params)

    # ------------------------------------------------------------- CALL
    n = 0
    for fn in repo.rule_funcs():
        for c in calls_in(fn.node):
            if not (isinstance(c.func, ast.Attribute) and c.func.attr == '__exit__'): continue
            t = cg.type_of(fn, c.func.value)
            if t is not None and cm not in repo.mro(t): continue     # another context manager class
            if t is None:
                # untyped receiver: in scope only if the module can see db_session
                r = repo.resolve_name(fn.mod, 'db_session')
                if r is None: continue
            n += 1
            et, ev = arg_of(c, exit_fn, 'exc_type'), arg_of(c, exit_fn, 'exc')
            ctx.need(et != 'UNKNOWN' and ev != 'UNKNOWN', 'C18-CALL: star-args at %s' % fn.at(c))
            ok = (not maybe_not_none(ev)) or maybe_not_none(et)
            ctx.ob('C18-CALL.exit-gets-type-with-exception', fn, c, ok,
                   '' if ok else '__exit__ is given an exception value (%s) but no exc_type: _commit_or_rollback sees '
                   'exc_type is None and commits the failed body' % norm(ev),
                   expected='__exit__(type, value, tb) or __exit__()')
    ctx.floor('C18-CALL', n, 2, 'explicit __exit__ call sites on a db_session')

    # ------------------------------------------------------------- GATE
    cr = repo.fn(CM[0], 'DBSessionContextManager._commit_or_rollback')
    g = cg.cfg(cr)
    commits = nodes_calling(g, lambda c: isinstance(c.func, ast.Name) and c.func.id == 'commit')
    # the gate: the test (whatever the flag is called) whose true edge leads to commit() and whose false edge cannot reach it
    def to_commit(t, lab_): return any(cn.id in g.reach([y for y, lab in g.succ[t.id] if lab == lab_]) for cn in commits)
    gate = [t for t in g.nodes if t.kind == 'test' and commits and to_commit(t, 'T') != to_commit(t, 'F')]          # `if can_commit:` or `if not can_commit: ...; return`
    commit_edge = {t.id: ('T' if to_commit(t, 'T') else 'F') for t in gate}
    ctx.floor('C18-GATE', len(commits), 1, 'commit() sites in _commit_or_rollback')
    ctx.floor('C18-GATE', len(gate), 1, 'tests that decide between commit and rollback')
    gate_ids = {t.id for t in gate}
    r = g.reach([g.entry], edge_ok=lambda x, y, lab: not (x in gate_ids and lab == commit_edge[x]))
    for cn in commits:
        ok = cn.id not in r
        ctx.ob('C18-GATE.commit-only-if-can_commit', cr, cn.ast, ok,
               '' if ok else 'commit() reachable without passing the true edge of the deciding test', node=cn.ast)
    rb = nodes_calling(g, lambda c: isinstance(c.func, ast.Name) and c.func.id == 'rollback')
    for t in gate:
        fs = [y for y, lab in g.succ[t.id] if lab in ('T', 'F') and lab != commit_edge[t.id]]
        rr = g.reach(fs, avoid=rb)
        ok = bool(rb) and g.exit.id not in rr and g.raise_.id not in rr
        ctx.ob('C18-GATE.else-rolls-back', cr, t.stmt, ok,
               '' if ok else 'the not-can_commit branch can leave without rollback()')
    # a failure of the decision itself (round 8): the allowed_exceptions predicate is user code and may raise anything -- KeyboardInterrupt and
    # SystemExit included; whatever it raises, nothing may be committed, so every exception edge of the predicate call reaches the raise only
    # through a rollback (a handler narrowed to one exception family leaves the modified cache registered, and the next session commits it)
    pc_ = nodes_calling(g, lambda c: isinstance(c.func, ast.Attribute) and c.func.attr == 'allowed_exceptions' or isinstance(c.func, ast.Name) and 'allowed' in c.func.id)
    rbs_ = nodes_calling(g, lambda c: isinstance(c.func, ast.Name) and c.func.id in ('rollback_and_reraise', 'rollback'))
    okp = bool(pc_) and bool(rbs_)
    for n_ in pc_:
        es_ = [y for y, lab in g.succ[n_.id] if lab == 'exc']
        if g.raise_.id in g.reach(es_, avoid=rbs_): okp = False
    ctx.ob('C18-GATE.failing-predicate-rolls-back', cr, pc_[0].ast if pc_ else cr.node, okp,
           '' if okp else 'an exception raised by the allowed_exceptions predicate can leave _commit_or_rollback without rollback(): the changes of the failed body '
           'stay in the session cache of the thread and are committed by the next db_session')
    # the decision itself: evaluate the function for "an exception is present and the session does not allow it" (exc_type is not None; neither
    # issubclass(exc_type, allowed_exceptions) nor the allowed_exceptions predicate says yes), tracking local flags; commit() must be
    # unreachable.  Whatever else the decision might consult is unknown (both outcomes explored), so a decision based on anything but the
    # documented criteria is reported as well.  (Local aliases such as `allowed = db_session.allowed_exceptions` make no difference.)
    from ..typestate import Machine, eval_test
    recv = cr.recv
    p_type, p_exc = cr.params[1], cr.params[2]
    names = sorted({t_.id for st in ast.walk(cr.node) if isinstance(st, ast.Assign) for t_ in st.targets if isinstance(t_, ast.Name)})
    def crit(text):
        t_ = text.replace(' ', '')
        if t_ == p_type + 'isNone': return False
        if t_ == p_type + 'isnotNone': return True
        if t_.startswith('issubclass(%s,' % p_type) and 'allowed_exceptions' in t_: return False
        if re.fullmatch(r'(\w+\.)?allowed_exceptions\(%s\)' % p_exc, t_): return False
        return None
    def atom(text, env):
        c = crit(text)
        if c is not None: return c
        return env.get(text)
    def effect(node, env):
        st = node.ast
        if node.kind == 'stmt' and isinstance(st, ast.Assign) and len(st.targets) == 1 and isinstance(st.targets[0], ast.Name):
            v = eval_test(st.value, lambda t_, n_: atom(t_, env)) if isinstance(st.value, (ast.Constant, ast.Call, ast.Compare, ast.BoolOp, ast.UnaryOp, ast.Name)) else None
            if isinstance(st.value, ast.Constant) and not isinstance(st.value.value, bool): v = None
            return {'normal': [{st.targets[0].id: v}]}
        return None
    IN = Machine(g, names, effect, atom).run([{n_: None for n_ in names}])
    bad = [cn for cn in commits if cn.id in IN]
    ctx.ob('C18-GATE.disallowed-exception-never-commits', cr, bad[0].ast if bad else cr.node, not bad,
           '' if not bad else 'with an exception present that is neither a subclass of allowed_exceptions nor accepted by the allowed_exceptions predicate, commit() at line %d is '
           'still reachable: the failed body is committed (or the decision depends on something other than the documented criteria)' % bad[0].lineno,
           node=bad[0].ast if bad else None)
    # and a body that finished normally does commit: with exc_type None, rollback() is not reached before commit()
    def crit2(text):
        t_ = text.replace(' ', '')
        if t_ == p_type + 'isNone': return True
        if t_ == p_type + 'isnotNone': return False
        return None
    def atom2(text, env):
        c = crit2(text)
        return c if c is not None else env.get(text)
    def effect2(node, env):
        st = node.ast
        if node.kind == 'stmt' and isinstance(st, ast.Assign) and len(st.targets) == 1 and isinstance(st.targets[0], ast.Name):
            v = eval_test(st.value, lambda t_, n_: atom2(t_, env)) if isinstance(st.value, (ast.Constant, ast.Call, ast.Compare, ast.BoolOp, ast.UnaryOp, ast.Name)) else None
            if isinstance(st.value, ast.Constant) and not isinstance(st.value.value, bool): v = None
            return {'normal': [{st.targets[0].id: v}]}
        return None
    IN2 = Machine(g, names, effect2, atom2).run([{n_: None for n_ in names}])
    okc = any(cn.id in IN2 for cn in commits) and not any(x.id in IN2 for x in rb if not any(x.id in g.reach([cn], include_src=False) for cn in commits))
    ctx.ob('C18-GATE.normal-finish-commits', cr, commits[0].ast if commits else cr.node, okc,
           '' if okc else 'with no exception (exc_type is None) the function does not reach commit(), or reaches rollback() first')

    # ------------------------------------------------------------- NEST
    g = cg.cfg(exit_fn)
    dec = [n for n in g.nodes if n.kind == 'stmt' and isinstance(n.ast, ast.AugAssign) and isinstance(n.ast.op, ast.Sub)
           and dotted(n.ast.target) == 'local.db_context_counter']
    calls = nodes_calling(g, lambda c: is_call_to(c, exit_fn.recv, '_commit_or_rollback'))
    ctx.floor('C18-NEST', len(calls), 1, '_commit_or_rollback call in __exit__')
    from ..typestate import scenario_edges
    # scenario "still inside an outer db_session" (the counter is not zero after the decrement): the commit-or-rollback decision is unreachable
    def nested_atom(text, node):
        if text == 'local.db_context_counter': return True
        if text.replace(' ', '') in ('local.db_context_counter==0', 'local.db_context_counter<=0', 'local.db_context_counter<1'): return False
        if text.replace(' ', '') in ('local.db_context_counter!=0', 'local.db_context_counter>0', 'local.db_context_counter>=1'): return True
        return None
    for cn in calls:
        rr = g.reach([g.entry], edge_ok=scenario_edges(g, exit_fn.node, nested_atom, resolve=False))
        ok = bool(dec) and g.dominated(cn, dec) and cn.id not in rr
        ctx.ob('C18-NEST.commit-only-at-outermost-exit', exit_fn, cn.ast, ok,
               '' if ok else '_commit_or_rollback not guarded by counter decrement + `not local.db_context_counter`', node=cn.ast)
    en = repo.fn(CM[0], 'DBSessionContextManager._enter')
    g = cg.cfg(en)
    inc = [n for n in g.nodes if n.kind == 'stmt' and isinstance(n.ast, ast.AugAssign) and isinstance(n.ast.op, ast.Add)
           and dotted(n.ast.target) == 'local.db_context_counter']
    ok = bool(inc) and g.must_pass_after(g.entry, inc)
    ctx.ob('C18-NEST.enter-increments-counter', en, inc[0].ast if inc else en.node, ok,
           '' if ok else '_enter can return without incrementing local.db_context_counter')

    # ------------------------------------------------------------- RETRY
    nf = repo.fn(CM[0], 'DBSessionContextManager._wrap_function.<locals>.new_func')
    g = cg.cfg(nf); recv = nf.parent.recv
    loops = [n for n in g.nodes if n.kind == 'iter' and norm(n.ast.target) != '__once']      # `__once` = one-trip loop of an inlined helper
    whiles = [st for st in walk_no_nested(nf.node) if isinstance(st, ast.While)]
    def bound_of(it):
        # range(<expr>) with a local bound once read as the expression it was given: `max_attempts = db_session.retry + 1`
        if isinstance(it, ast.Call) and dotted(it.func) == 'range' and len(it.args) == 1: return norm(resolve_local(nf.node, it.args[0]))
        return None
    retry_loops = [l for l in loops if bound_of(l.ast.iter) == '%s.retry + 1' % recv]
    ok = len(retry_loops) == 1 and not whiles and len(loops) == 1
    ctx.ob('C18-RETRY.bounded-loop', nf, retry_loops[0].ast if retry_loops else nf.node, ok,
           '' if ok else 'retry loop is not exactly `for _ in range(%s.retry+1)` (loops=%s, whiles=%d)' % (
               recv, [norm(l.ast.iter) for l in loops], len(whiles)))
    ctx.need(loops, 'C18-RETRY: no loop found in new_func')
    loop = retry_loops[0] if retry_loops else loops[0]
    enter = nodes_calling(g, lambda c: is_call_to(c, recv, '_enter'))
    exits_ = nodes_calling(g, lambda c: is_call_to(c, recv, '__exit__'))
    ctx.need(enter, 'C18-RETRY: _enter call not found in new_func')
    for e in enter:
        if not g.reach([loop]) & {e.id}: continue
        if e.lineno < loop.lineno: continue
        rr = g.reach([e], avoid=exits_, include_src=False, edge_ok=lambda x, y, lab: not (x == e.id and lab == 'exc'))
        bad = [t for t in (g.exit, g.raise_, loop) if t.id in rr]
        ctx.ob('C18-RETRY.exit-on-every-path-out-of-attempt', nf, e.ast, not bad,
               '' if not bad else 'an attempt can be left (to %s) without %s.__exit__(...)' % ([b.kind for b in bad], recv), node=e.ast)
    # every exception of the body must reach __exit__ *with its type recorded*: from the exceptional edge of the body call,
    # each path to an __exit__ call passes `exc_type, exc, tb = sys.exc_info()` (a handler that does not catch
    # BaseException lets KeyboardInterrupt/SystemExit/GeneratorExit reach `__exit__(None, None, None)` = commit)
    body_calls = [n for n in nodes_calling(g, lambda c: isinstance(c.func, ast.Name) and c.func.id == 'func') if n.lineno > loop.lineno]
    ctx.floor('C18-RETRY', len(body_calls), 1, 'body call inside an attempt')
    rec = [n for n in g.nodes if n.kind == 'stmt' and isinstance(n.ast, ast.Assign) and norm(n.ast.value) == 'sys.exc_info()'
           and isinstance(n.ast.targets[0], ast.Tuple) and dotted(n.ast.targets[0].elts[0]) == 'exc_type']
    for b in body_calls:
        srcs = [y for y, lab in g.succ[b.id] if lab == 'exc']
        rr = g.reach(srcs, avoid=rec)
        bad = [e for e in exits_ if e.id in rr]
        ctx.ob('C18-RETRY.exception-type-reaches-exit', nf, b.ast, bool(rec) and not bad,
               '' if rec and not bad else 'an exception raised by the body can reach %s.__exit__(exc_type, ...) at line %s with exc_type still '
               'None (the handler does not catch every BaseException): the failed body is committed' % (recv, [e.lineno for e in bad][:1]),
               node=b.ast, expected='a bare `except:` (or BaseException) that records sys.exc_info() before __exit__')
    handlers = [n for n in g.nodes if n.kind == 'handler' and n.lineno > loop.lineno]
    ctx.floor('C18-RETRY', len(handlers), 1, 'except handler of an attempt')
    rbs = nodes_calling(g, lambda c: isinstance(c.func, ast.Name) and c.func.id == 'rollback')
    for h in handlers:
        rr = g.reach([h], avoid=rbs)
        ok = bool(rbs) and loop.id not in rr
        ctx.ob('C18-RETRY.rollback-before-next-attempt', nf, h.ast, ok,
               '' if ok else 'the next attempt is reachable from the handler without rollback()')
        # a non-retryable exception re-raises: evaluate the handler with every retry criterion answering "no" (exc.should_retry falsy, the
        # exception not in retry_exceptions / the predicate returning false) -- local flags are tracked -- and require that neither the next
        # attempt nor a normal return is reachable.  Anything else the decision consults is unknown (both outcomes explored), so a decision
        # that depends on something other than the documented criteria is reported too.
        from ..typestate import Machine, eval_test
        names = sorted({t_.id for st in ast.walk(nf.node) if isinstance(st, ast.Assign) for t_ in st.targets if isinstance(t_, ast.Name)})
        def crit(text):
            t_ = text.replace(' ', '')
            if t_ == "getattr(exc,'should_retry',False)": return False
            if t_.startswith('issubclass(exc_type,') and 'retry_exceptions' in t_: return False
            if re.fullmatch(r'(\w+\.)?retry_exceptions\(exc\)', t_): return False
            return None
        def atom(text, env):
            c = crit(text)
            if c is not None: return c
            if text in env: return env[text]
            return None
        def effect(node, env):
            st = node.ast
            if node.kind == 'stmt' and isinstance(st, ast.Assign) and len(st.targets) == 1 and isinstance(st.targets[0], ast.Name):
                v = eval_test(st.value, lambda t_, n_: atom(t_, env)) if isinstance(st.value, (ast.Constant, ast.Call, ast.Compare, ast.BoolOp, ast.UnaryOp, ast.Name)) else None
                if isinstance(st.value, ast.Constant) and not isinstance(st.value.value, bool): v = None
                return {'normal': [{st.targets[0].id: v}]}
            return None
        mach = Machine(g, names, effect, atom)
        IN = mach.run([{n_: None for n_ in names}], start=h)
        bad = [x for x in (loop, g.exit) if x.id in IN]
        ctx.ob('C18-RETRY.non-retryable-reraises', nf, h.ast, not bad,
               '' if not bad else 'with exc.should_retry falsy and the exception outside retry_exceptions the handler can still reach %s: a non-retryable exception '
               'starts another attempt or is swallowed (or the decision depends on something else than the documented criteria)' % ['the next attempt' if x is loop else 'a normal return' for x in bad])
    rets = [n for n in g.nodes if n.kind == 'stmt' and isinstance(n.ast, ast.Return) and n.lineno > loop.lineno
            and n.copy == '']
    cms = nodes_calling(g, lambda c: isinstance(c.func, ast.Name) and c.func.id == 'commit')
    for rnode in rets:
        body_calls = nodes_calling(g, lambda c: isinstance(c.func, ast.Name) and c.func.id == 'func')
        ok = g.dominated(rnode, cms)
        ctx.ob('C18-RETRY.return-after-commit', nf, rnode.ast, ok, '' if ok else 'result returned without commit()')

    # ------------------------------------------------------------- GEN
    wi = repo.fn(CM[0], 'DBSessionContextManager._wrap_coroutine_or_generator_function.<locals>.new_gen_func.<locals>.wrapped_interact')
    g = cg.cfg(wi)
    cms = nodes_calling(g, lambda c: isinstance(c.func, ast.Name) and c.func.id == 'commit')
    si = [n for n in g.nodes if n.kind == 'handler' and n.ast.type is not None and norm(n.ast.type) == 'StopIteration']
    ctx.floor('C18-GEN', len(cms), 1, 'commit() in generator wrapper')
    for cn in cms:
        ok = bool(si) and g.dominated(cn, si)
        ctx.ob('C18-GEN.commit-only-on-StopIteration', wi, cn.ast, ok,
               '' if ok else 'generator wrapper commits outside `except StopIteration`', node=cn.ast)
    bare = [n for n in g.nodes if n.kind == 'handler' and n.ast.type is None]
    rr_nodes = nodes_calling(g, lambda c: isinstance(c.func, ast.Name) and c.func.id == 'rollback_and_reraise')
    inter = nodes_calling(g, lambda c: isinstance(c.func, ast.Name) and c.func.id == 'interact')
    ctx.need(inter, 'C18-GEN: interact() call not found')
    ok = bool(bare) and bool(rr_nodes)
    if ok:
        # exceptional edge of interact(): every path to RAISE passes rollback_and_reraise, or the StopIteration handler
        srcs = [y for y, lab in g.succ[inter[0].id] if lab == 'exc']
        rr = g.reach(srcs, avoid=rr_nodes + si)
        ok = g.raise_.id not in rr and g.exit.id not in rr
    ctx.ob('C18-GEN.other-exceptions-roll-back', wi, inter[0].ast, ok,
           '' if ok else 'an exception of the generator body can leave wrapped_interact without rollback_and_reraise')

    # a generator session may only be suspended with nothing pending: the guard refuses whenever a cache is modified OR inside a transaction -- each of the
    # two alone must be enough, whatever else the test mentions (another session on the thread would otherwise roll the suspended transaction back)
    from ..typestate import eval_test
    guards = [t for t in g.nodes if t.kind == 'test' and any(isinstance(x, ast.Attribute) and x.attr in ('modified', 'in_transaction') for x in ast.walk(t.ast))
              and any(th.id in g.reach([y for y, lab in g.succ[t.id] if lab == 'T']) for th in g.nodes if th.kind == 'stmt' and th.ast is not None and g.is_noreturn_stmt(th.ast))]
    ctx.need(guards, 'C18-GEN: the suspension guard of the generator wrapper was not found')
    for t in guards:
        for flag in ('modified', 'in_transaction'):
            v = eval_test(t.ast, lambda text, node, flag=flag: True if text.endswith('.' + flag) else None)
            ctx.ob('C18-GEN.suspension-refused-while-anything-is-pending', wi, t.stmt, v is True,
                   '' if v is True else 'with cache.%s set the guard `%s` does not necessarily refuse the suspension: the generator keeps an open transaction across a yield, another '
                   'db_session on the thread rolls it back, and the generator later "commits" only the second half of its work' % (flag, norm(t.ast)[:80]), node=t.stmt).key += '::' + flag
    # ------------------------------------------------------------- MULTI (shared with C17): nothing is committed when the session's flush fails
    from . import C17
    C17.global_commit_rules(ctx, P='C18-MULTI')
    # ------------------------------------------------------------- BOTTLE
    bp = repo.fn('pony.orm.integration.bottle_plugin', 'PonyPlugin.apply')
    kw = None
    for c in calls_in(bp.node):
        if isinstance(c.func, ast.Name) and c.func.id == 'db_session':
            for k in c.keywords:
                if k.arg == 'allowed_exceptions': kw = k.value
    ok = kw is not None and isinstance(kw, ast.Name)
    detail = '' if ok else 'PonyPlugin.apply does not pass allowed_exceptions to db_session'
    if ok:
        r = repo.resolve_name(bp.mod, kw.id)
        ok = bool(r and r[0] == 'func')
        if ok:
            pred = r[1]
            rets = [s for s in walk_no_nested(pred.node) if isinstance(s, ast.Return)]
            txt = [norm(s.value) for s in rets]
            ok = len(rets) == 1 and 'not isinstance(e, HTTPError)' in txt[0] and 'isinstance(e, HTTPResponse)' in txt[0] \
                and isinstance(rets[0].value, ast.BoolOp) and isinstance(rets[0].value.op, ast.And)
            detail = '' if ok else 'is_allowed_exception is not `HTTPResponse and not HTTPError`: %s' % txt
    ctx.ob('C18-BOTTLE.allowed-predicate', bp, bp.node, ok, detail)


MUTANTS = [
    dict(id='C18-p8', file='pony/orm/core.py', fn='DBSessionContextManager._commit_or_rollback', old='                except: rollback_and_reraise(sys.exc_info())', new='                except Exception: rollback_and_reraise(sys.exc_info())', expect='C18-GATE.failing-predicate-rolls-back'),
    dict(id='C18-susp', file='pony/orm/core.py', fn='DBSessionContextManager._wrap_coroutine_or_generator_function', old="                        if cache.modified or cache.in_transaction: throw(TransactionError,", new="                        if cache.modified and cache.in_transaction: throw(TransactionError,", expect='C18-GEN.suspension'),
    dict(id='C18-m1', file='pony/orm/core.py', fn='DBSessionContextManager._commit_or_rollback',
         old='if exc_type is None: can_commit = True', new='if exc is None: can_commit = True', expect='C18-GATE.disallowed-exception-never-commits'),
    dict(id='C18-m2', file='pony/orm/core.py', fn='DBSessionContextManager._commit_or_rollback',
         old='                try: rollback()\n                except:\n                    if exc_type is None: raise  # if exc_type is not None it will be reraised outside of __exit__\n',
         new='                pass\n', expect='C18-GATE.else-rolls-back'),
    dict(id='C18-m3', file='pony/orm/core.py', fn='DBSessionContextManager.__exit__',
         old='            if not local.db_context_counter:\n', new='            if True:\n', expect='C18-NEST'),
    dict(id='C18-m4', file='pony/orm/core.py', fn='DBSessionContextManager._wrap_function',
         old='                        rollback()\n', new='                        pass\n', expect='C18-RETRY.rollback-before-next-attempt'),
    dict(id='C18-m5', file='pony/orm/core.py', fn='DBSessionContextManager._wrap_function',
         old='for i in range(db_session.retry+1):', new='for i in range(db_session.retry+2):', expect='C18-RETRY.bounded-loop'),
    dict(id='C18-m6', file='pony/orm/core.py', fn='DBSessionContextManager._wrap_function',
         old='                        if not do_retry:\n                            raise\n', new='', expect='C18-RETRY.non-retryable'),
    dict(id='C18-m7', file='pony/orm/core.py', fn='DBSessionContextManager._wrap_function',
         old='db_session.__exit__(exc_type, exc, tb)', new='db_session.__exit__(None, exc, tb)', expect='C18-CALL'),
    dict(id='C18-m8', file='pony/orm/core.py', fn='DBSessionContextManager._wrap_coroutine_or_generator_function',
         old='                    except StopIteration as e:\n                        commit()',
         new='                    except Exception as e:\n                        commit()', expect='C18-GEN.commit-only'),
    dict(id='C18-m13', file='pony/orm/core.py', fn='DBSessionContextManager._wrap_function',
         old='                    except:\n                        exc_type, exc, tb = sys.exc_info()',
         new='                    except Exception:\n                        exc_type, exc, tb = sys.exc_info()', expect='C18-RETRY.exception-type-reaches-exit'),
    dict(id='C18-m14', file='pony/orm/core.py', fn='DBSessionContextManager._wrap_function',
         old='                    except:\n                        exc_type, exc, tb = sys.exc_info()',
         new='                    except BaseException:\n                        exc_type, exc, tb = sys.exc_info()', benign=True),
    dict(id='C18-m9', file='pony/orm/integration/bottle_plugin.py', fn='PonyPlugin.apply',
         old='db_session(allowed_exceptions=is_allowed_exception)(callback)', new='db_session()(callback)', expect='C18-BOTTLE'),
    dict(id='C18-m10', file='pony/orm/core.py', fn='DBSessionContextManager._wrap_function',
         old='                        commit()\n                        return result', new='                        return result', expect='C18-RETRY.return-after-commit'),
    dict(id='C18-m11', file='pony/orm/core.py', fn='DBSessionContextManager._wrap_function',
         old='                    finally:\n                        db_session.__exit__(exc_type, exc, tb)',
         new='                    else:\n                        db_session.__exit__(exc_type, exc, tb)', expect='C18-RETRY.exit-on-every-path'),
    dict(id='C18-m12', file='pony/orm/core.py', fn='DBSessionContextManager._wrap_function',
         old="if getattr(exc, 'should_retry', False):", new="if getattr(exc, 'should_retry', True):", expect='C18-RETRY.non-retryable-reraises'),
]
