"""C35  Locked rows and serializable sessions cannot be overwritten concurrently."""
import ast
from ..loader import dotted, walk_no_nested, norm, head, calls_in
from ..q import nodes_calling, alias_map, deref
from ..typestate import Machine, scenario_edges

EXPLANATION = """
Static clauses decided (necessary conditions of C35):
 LOCKSET  the session's set of locked objects (cache.for_update), which exempts an object from the optimistic check and
          lets get_for_update skip the locking SELECT, is written only by the protocol: objects are added only in
          EntityMeta._get_from_identity_map_ (for rows just read with FOR UPDATE, after `assert cache.in_transaction`, and for
          objects created in this session), discarded only by the undo of a failed creation, and cleared by
          SessionCache.commit (locks end with the transaction).  No other function may add to it.
 RELOCK   _find_in_cache_ refuses to answer a for_update lookup from the cache unless the object is in that set (forces the
          locking SELECT).
 BEGIN    every path that executes a for_update statement sets cache.immediate = True before the statement
          (Query._actual_fetch, EntityMeta._find_in_db_): on SQLite this is what takes the database lock (BEGIN IMMEDIATE under
          the provider's process lock, clause LOCK of C19), on the other dialects it opens the transaction the row locks live in.
 SQL      a for_update query builds a SELECT_FOR_UPDATE ast; the base SQL builder appends FOR UPDATE [NOWAIT|SKIP LOCKED];
          SQLite's builder is the only override that omits the clause.
 ADOPT    a db_session that adopts a leftover (interactive-mode) cache merges its own immediate flag into the cache on every path.
 SERIAL   a serializable db_session is immediate (DBSessionContextManager.__init__) and PostgreSQL/MySQL/Cockroach set the
          isolation level in set_transaction_mode.
 LOCKSET+ every normal path through a SessionCache method that commits empties cache.for_update; additions decided by scenario
         (lock requested / not, creation / not).
"""
NOT_DECIDED = "blocking behaviour of the engines; interleavings"

CORE = 'pony.orm.core'


def lockset_commit_rule(ctx, P='C35-LOCKSET'):
    # shared with C20: the exemption from the optimistic check (`obj in cache.for_update`) is only sound while the row lock is held
    repo, cg = ctx.repo, ctx.cg
    sc_ = repo.cls(CORE, 'SessionCache')
    nce = 0
    for name_, m_ in sorted(sc_.methods.items()):
        if not any(isinstance(c.func, ast.Attribute) and c.func.attr == 'commit' and 'provider' in norm(c.func.value) for c in calls_in(m_.node)): continue
        gm_ = cg.cfg(m_)
        clears = nodes_calling(gm_, lambda c: isinstance(c.func, ast.Attribute) and c.func.attr == 'clear' and norm(c.func.value).endswith('.for_update'))
        clears += [x for x in gm_.nodes if x.kind == 'stmt' and isinstance(x.ast, ast.Assign) and any(isinstance(t, ast.Attribute) and t.attr == 'for_update' for t in x.ast.targets)]
        nce += 1
        r_ = gm_.reach([gm_.entry], avoid=clears, edge_ok=lambda x, y, lab: lab != 'exc')
        ok = bool(clears) and gm_.exit.id not in r_
        ctx.ob(P + '.emptied-on-every-path-through-commit', m_, clears[0].ast if clears else m_.node, ok,
               '' if ok else 'SessionCache.%s can return normally without emptying cache.for_update: the objects locked (or created) in the finished transaction keep their exemption from '
               'the optimistic check, and get_for_update() finds them "already locked" although the database lock is gone' % name_)
    ctx.floor(P, nce, 1, 'SessionCache methods that commit the transaction')


def run(ctx):
    repo, cg = ctx.repo, ctx.cg
    # ---------------------------------------------------------------- LOCKSET
    allowed = {'add': {'EntityMeta._get_from_identity_map_'}, 'discard': {'EntityMeta._get_from_identity_map_.<locals>.undo_func'},
               'clear': {'SessionCache.commit'}, 'remove': set(), 'update': set(), 'pop': set()}
    n = 0
    for fn in repo.rule_funcs():
        if fn.mod.name != CORE: continue
        for c in calls_in(fn.node):
            if isinstance(c.func, ast.Attribute) and isinstance(c.func.value, ast.Attribute) and c.func.value.attr == 'for_update' and c.func.attr in allowed:
                n += 1
                ok = fn.qual in allowed[c.func.attr]
                ctx.ob('C35-LOCKSET.written-only-by-the-locking-protocol', fn, c, ok,
                       '' if ok else '%s() on cache.for_update in %s: an object is recorded as locked (exempt from the optimistic check, answered from the '
                       'cache by get_for_update) without a FOR UPDATE read inside the current transaction -- locks do not survive commit(), object status does'
                       % (c.func.attr, fn.qual), node=c)
        for s in walk_no_nested(fn.node):
            if isinstance(s, ast.Assign) and any(isinstance(t, ast.Attribute) and t.attr == 'for_update' and not isinstance(t.value, ast.Name) or
                                                 isinstance(t, ast.Attribute) and t.attr == 'for_update' and dotted(t.value) == 'cache' for t in s.targets):
                ok = fn.qual in ('SessionCache.__init__', 'SessionCache.close')
                ctx.ob('C35-LOCKSET.written-only-by-the-locking-protocol', fn, s, ok, '' if ok else 'cache.for_update is rebound in %s' % fn.qual, node=s)
    ctx.floor('C35-LOCKSET', n, 4, 'writes to cache.for_update')
    idm = repo.fn(CORE, 'EntityMeta._get_from_identity_map_'); g = cg.cfg(idm)
    adds = nodes_calling(g, lambda c: isinstance(c.func, ast.Attribute) and c.func.attr == 'add' and norm(c.func.value).endswith('.for_update'))
    asserts = [x for x in g.nodes if x.kind == 'stmt' and isinstance(x.ast, ast.Assert) and norm(x.ast.test).endswith('.in_transaction')]
    # decided by scenario, whatever way the tests are written (`if for_update:`, `if not for_update: return obj`, ...)
    def lock_scen(fu_val, created_val):
        def atom(text, node):
            if isinstance(node, ast.Name) and node.id == 'for_update': return fu_val
            if isinstance(node, ast.Compare) and len(node.ops) == 1 and isinstance(node.comparators[0], ast.Constant) and node.comparators[0].value == 'created' and dotted(node.left) == 'status':
                if isinstance(node.ops[0], ast.Eq): return created_val
                if isinstance(node.ops[0], ast.NotEq): return not created_val
            return None
        return scenario_edges(g, idm.node, atom, resolve=False)
    plain = g.reach([g.entry], edge_ok=lock_scen(False, False))          # no lock requested, not a creation: nothing may be added
    locking = lock_scen(True, False)
    for a in adds:
        guarded = a.id not in plain
        under_fu = a.id in g.reach([g.entry], edge_ok=locking)
        ok = guarded and (not under_fu or g.dominated(a, asserts, edge_ok=locking))
        ctx.ob('C35-LOCKSET.added-only-for-locked-or-created-objects', idm, a.ast, ok,
               '' if ok else 'an object is added to cache.for_update outside `if for_update:` (with in_transaction asserted) / the created branch', node=a.ast)
    # ... and the set does not outlive the transaction that took the locks: a session object survives commit() (it is dead after rollback / release,
    # where the set is replaced), so every normal path through a SessionCache method that calls provider.commit empties the set -- whatever the
    # state of `cache.modified` / `cache.in_transaction`.  Otherwise get_for_update() after an intermediate commit() is served from the cache without
    # a new lock or re-read, and the optimistic check is skipped for a row that is no longer locked.
    lockset_commit_rule(ctx)
    # ---------------------------------------------------------------- RELOCK
    fc = repo.fn(CORE, 'EntityMeta._find_in_cache_'); g = cg.cfg(fc)
    # scenario evaluation: for_update requested and the object not in cache.for_update (tested directly or through a local holding the set)
    amap = alias_map(fc.node)
    def scen(fu, locked):
        def atom(text, node):
            if isinstance(node, ast.Name) and node.id == 'for_update': return fu
            if isinstance(node, ast.Compare) and len(node.ops) == 1 and isinstance(node.ops[0], (ast.In, ast.NotIn)) and \
                    (deref(fc.node, node.comparators[0], amap) or '').endswith('.for_update') and dotted(node.left) == 'obj':
                return locked == isinstance(node.ops[0], ast.In)
            return None
        return scenario_edges(g, fc.node, atom, resolve=False)
    tests = [t for t in g.nodes if t.kind == 'test' and any(isinstance(x, ast.Attribute) and x.attr == 'for_update' for x in ast.walk(t.ast))]
    if not tests: tests = [t for t in g.nodes if t.kind == 'test' and any(isinstance(x, ast.Name) and amap.get(x.id, '').endswith('.for_update') for x in ast.walk(t.ast))]
    rets = [x for x in g.nodes if x.kind == 'stmt' and isinstance(x.ast, ast.Return) and norm(x.ast.value).startswith('(obj,')]
    ok = bool(rets)
    if ok:
        ok = not any(r.id in g.reach([g.entry], edge_ok=scen(True, False)) for r in rets) and \
            any(r.id in g.reach([g.entry], edge_ok=scen(True, True)) for r in rets) and any(r.id in g.reach([g.entry], edge_ok=scen(False, False)) for r in rets)
    ctx.ob('C35-RELOCK.cached-unlocked-object-not-returned-for-update', fc, tests[0].stmt if tests else fc.node, ok,
           '' if ok else 'a for_update lookup can be answered from the session cache for an object that is not in cache.for_update (no locking SELECT is issued)')
    # ---------------------------------------------------------------- BEGIN
    for qual, flag in (('Query._actual_fetch', 'query._for_update'), ('EntityMeta._find_in_db_', 'for_update')):
        f = repo.fn(CORE, qual); g = cg.cfg(f)
        def effect(nd, env):
            if nd.kind == 'stmt' and isinstance(nd.ast, ast.Assign) and any(norm(t).endswith('.immediate') for t in nd.ast.targets) \
                    and isinstance(nd.ast.value, ast.Constant) and nd.ast.value.value is True: return {'normal': [{'imm': True}]}
            return None
        m = Machine(g, ['fu', 'imm'], effect, lambda t, env, flag=flag: env['fu'] if t == flag else None)
        IN = m.run([{'fu': True, 'imm': False}, {'fu': False, 'imm': False}])
        ex = nodes_calling(g, lambda c: isinstance(c.func, ast.Attribute) and c.func.attr in ('_exec_sql', 'prepare_connection_for_query_execution'))
        ctx.floor('C35-BEGIN', len(ex), 1, 'statement executions in %s' % qual)
        for e in ex:
            bad = [s for s in m.states_at(IN, e) if s['fu'] and not s['imm']]
            ctx.ob('C35-BEGIN.immediate-before-locking-statement', f, e.ast, not bad,
                   '' if not bad else 'a for_update statement can be executed at line %d while cache.immediate was not set: on SQLite no BEGIN IMMEDIATE is '
                   'issued, so the "locked" rows can be changed by another session' % e.lineno, node=e.ast)
    # ---------------------------------------------------------------- SQL
    cs = repo.fn(CORE, 'EntityMeta._construct_sql_')
    ok = any(isinstance(s, ast.If) and norm(s.test) == 'not for_update' and any("'SELECT_FOR_UPDATE'" in norm(x) for x in s.orelse) for s in walk_no_nested(cs.node))
    ctx.ob('C35-SQL.lookup-builds-select-for-update', cs, cs.node, ok, '' if ok else '_construct_sql_ does not build SELECT_FOR_UPDATE for for_update lookups')
    tr = repo.fn('pony.orm.sqltranslation', 'SQLTranslator.construct_sql_ast')
    ok = any(isinstance(s, ast.If) and norm(s.test) == 'for_update' and any("'SELECT_FOR_UPDATE'" in norm(x) for x in s.body) for s in walk_no_nested(tr.node))
    ctx.ob('C35-SQL.query-builds-select-for-update', tr, tr.node, ok, '' if ok else 'construct_sql_ast does not build SELECT_FOR_UPDATE for for_update queries')
    SB = repo.cls('pony.orm.sqlbuilding', 'SQLBuilder')
    for cls in repo.subclasses(SB):
        f = cls.methods.get('SELECT_FOR_UPDATE')
        if f is None: continue
        emits = any(isinstance(x, ast.Constant) and x.value == 'FOR UPDATE' for x in ast.walk(f.node))
        rets = [s for s in walk_no_nested(f.node) if isinstance(s, ast.Return)]
        all_emit = emits and all(any(isinstance(x, ast.Constant) and x.value == 'FOR UPDATE' for x in ast.walk(r)) or 'sql' in norm(r.value) for r in rets)
        if cls.name == 'SQLiteBuilder':
            ctx.exception('C35-SQL', 'SQLiteBuilder.SELECT_FOR_UPDATE', 'SQLite has no row locks: the whole database is locked by BEGIN IMMEDIATE (clause BEGIN)')
            ctx.ob('C35-SQL.builder-emits-for-update', f, f.node, True, 'excepted: SQLite locks the database with BEGIN IMMEDIATE', nontrivial=False); continue
        ok = emits and any('nowait' in norm(r.value) and 'skip_locked' in norm(r.value) for r in rets)
        ctx.ob('C35-SQL.builder-emits-for-update', f, f.node, ok, '' if ok else '%s.SELECT_FOR_UPDATE does not emit FOR UPDATE [NOWAIT|SKIP LOCKED]' % cls.name)
    # ---------------------------------------------------------------- SERIAL
    init = repo.fn(CORE, 'DBSessionContextManager.__init__')
    ok = any(isinstance(s, ast.Assign) and norm(s.targets[0]) == init.recv + '.immediate' and 'serializable' in norm(s.value) and isinstance(s.value, ast.BoolOp) and isinstance(s.value.op, ast.Or)
             for s in walk_no_nested(init.node))
    ctx.ob('C35-SERIAL.serializable-session-is-immediate', init, init.node, ok, '' if ok else 'db_session(serializable=True) is not immediate')
    for modn, cn in (('pony.orm.dbproviders.postgres', 'PGProvider'), ('pony.orm.dbproviders.mysql', 'MySQLProvider')):
        f = repo.fn(modn, cn + '.set_transaction_mode')
        ok = any(isinstance(s, ast.If) and 'serializable' in norm(s.test) and any('SERIALIZABLE' in norm(x) for x in s.body) for s in walk_no_nested(f.node))
        ctx.ob('C35-SERIAL.isolation-level-set', f, f.node, ok, '' if ok else '%s.set_transaction_mode does not set SERIALIZABLE isolation for serializable sessions' % cn)
    # ---------------------------------------------------------------- ADOPT
    # a db_session that adopts a session cache created outside of any db_session (interactive mode) takes over with ITS OWN transaction mode:
    # wherever `cache.db_session = db_session` is executed, `cache.immediate` has been merged with db_session.immediate on the same path
    # (a serializable / immediate / non-optimistic session would otherwise read in autocommit mode, without BEGIN IMMEDIATE)
    pc = repo.fn(CORE, 'SessionCache.prepare_connection_for_query_execution'); g = cg.cfg(pc); R = pc.recv
    adopts = [n for n in g.nodes if n.kind == 'stmt' and isinstance(n.ast, ast.Assign) and any(dotted(t) == R + '.db_session' for t in n.ast.targets) and dotted(n.ast.value) == 'db_session']
    merges = [n for n in g.nodes if n.kind == 'stmt' and isinstance(n.ast, ast.Assign) and any(dotted(t) == R + '.immediate' for t in n.ast.targets) and 'db_session.immediate' in norm(n.ast.value)]
    ctx.need(bool(adopts), 'C35-ADOPT: `%s.db_session = db_session` not found in prepare_connection_for_query_execution' % R)
    for a_ in adopts:
        ok = bool(merges) and (g.dominated(a_, merges) or g.must_pass_after(a_, merges, exits=[g.exit]))
        ctx.ob('C35-ADOPT.adopted-cache-takes-the-sessions-transaction-mode', pc, a_.ast, ok,
               '' if ok else 'the cache is attached to the db_session on a path that does not merge db_session.immediate into cache.immediate: a serializable/immediate session that '
               'adopts a leftover cache runs its reads in autocommit mode and takes no lock', node=a_.ast, expected='cache.immediate = cache.immediate or db_session.immediate next to the adoption')
    # ---------------------------------------------------------------- FLAGS
    # a session that is not optimistic sends no optimistic checks with its UPDATEs, so it must hold the write lock from its first statement: whatever
    # value makes db_session.optimistic false also makes db_session.immediate true.  The two defining expressions of DBSessionContextManager.__init__ are
    # evaluated (q.concrete_eval) for optimistic in {True, False, 0, None, ''} x serializable in {True, False}, immediate = ddl = False
    from ..q import concrete_eval, Unknown
    init = repo.fn(CORE, 'DBSessionContextManager.__init__')
    defs_ = {}
    for st in walk_no_nested(init.node):
        if isinstance(st, ast.Assign) and len(st.targets) == 1 and isinstance(st.targets[0], ast.Attribute) and st.targets[0].attr in ('immediate', 'optimistic') and dotted(st.targets[0].value) == init.recv:
            defs_[st.targets[0].attr] = st
    ctx.need(set(defs_) == {'immediate', 'optimistic'}, 'C35-FLAGS: the definitions of db_session.immediate / .optimistic were not found')
    wrong = []
    for opt in (True, False, 0, None, ''):
        for ser in (True, False):
            env = {'optimistic': opt, 'serializable': ser, 'immediate': False, 'ddl': False}
            try: o, i = concrete_eval(defs_['optimistic'].value, env), concrete_eval(defs_['immediate'].value, env)
            except Unknown: wrong.append('unreadable definition'); break
            if not o and not i: wrong.append('optimistic=%r serializable=%r -> not optimistic and not immediate' % (opt, ser))
    ctx.ob('C35-FLAGS.non-optimistic-session-is-immediate', init, defs_['immediate'], not wrong,
           '' if not wrong else 'a session can be neither optimistic nor immediate (%s): it reads without the write lock and then overwrites without any check, so a concurrent '
           'locked update is lost' % '; '.join(wrong[:3]), node=defs_['immediate'])


MUTANTS = [
    dict(id='C35-flags', file='pony/orm/core.py', fn='DBSessionContextManager.__init__', old="        db_session.immediate = immediate or ddl or serializable or not optimistic", new="        db_session.immediate = immediate or ddl or serializable or optimistic is False", expect='C35-FLAGS'),
    dict(id='C35-a1', file='pony/orm/core.py', fn='SessionCache.prepare_connection_for_query_execution', old="            cache.db_session = db_session\n            cache.immediate = cache.immediate or db_session.immediate\n", new="            cache.db_session = db_session\n", expect='C35-ADOPT'),
    dict(id='C35-m1', file='pony/orm/core.py', fn='EntityMeta._find_in_cache_', old='                return None, unique  # object is found, but it is not locked',
         new="                if obj._status_ not in ('inserted', 'updated'):\n                    return None, unique\n                cache.for_update.add(obj)", expect='C35-LOCKSET'),
    dict(id='C35-m2', file='pony/orm/core.py', fn='EntityMeta._find_in_cache_', old='            if for_update and obj not in cache.for_update:\n                return None, unique  # object is found, but it is not locked\n', new='', expect='C35-RELOCK'),
    dict(id='C35-m3', file='pony/orm/core.py', fn='EntityMeta._find_in_db_', old='        if for_update: cache.immediate = True\n', new='', expect='C35-BEGIN'),
    dict(id='C35-m4', file='pony/orm/core.py', fn='Query._actual_fetch', old='            if query._for_update: cache.immediate = True\n', new='', expect='C35-BEGIN'),
    dict(id='C35-m5', file='pony/orm/sqlbuilding.py', fn='SQLBuilder.SELECT_FOR_UPDATE', old="        return result, 'FOR UPDATE', nowait, skip_locked, '\\n'", new="        return result, '\\n'", expect='C35-SQL.builder'),
    dict(id='C35-ce1', file='pony/orm/core.py', fn='SessionCache.commit', old="            if cache.modified: cache.flush()\n", new="            if cache.modified:\n                cache.flush()\n                cache.for_update.clear()\n", nth=0, expect=None, benign=True),
    dict(id='C35-ce2', file='pony/orm/core.py', fn='SessionCache.commit', old="                cache.database.provider.commit(cache.connection, cache)\n            cache.for_update.clear()\n", new="                cache.database.provider.commit(cache.connection, cache)\n                cache.for_update.clear()\n", expect='C35-LOCKSET.emptied'),
    dict(id='C35-m6', file='pony/orm/core.py', fn='SessionCache.flush', old='                cache.max_id_cache.clear()\n', new='                cache.max_id_cache.clear()\n                cache.for_update.update(o for o, s in cache.saved_objects)\n', expect='C35-LOCKSET'),
    dict(id='C35-m7', file='pony/orm/core.py', fn='DBSessionContextManager.__init__', old='db_session.immediate = immediate or ddl or serializable or not optimistic', new='db_session.immediate = immediate or ddl or not optimistic', expect='C35-SERIAL'),
]
