"""C11  One in-memory object per primary key per session."""
import ast
from ..loader import dotted, walk_no_nested, norm, head, calls_in
from ..q import nodes_calling
from ._index import guard_rule
from . import C13

EXPLANATION = """
Static clauses decided (necessary conditions of C11):
 NEW     instances of entities are materialised (`object.__new__(<entity>)`) only inside
         EntityMeta._get_from_identity_map_, and there only on the path where the primary-key index lookup returned
         nothing; Entity.__init__ routes the object under construction through the same function (obj_to_init).
 VIA     every other producer of instances (raw-pk lookup, row fetching, unpickling, proxies, lookups by key) reaches
         instances only through _get_from_identity_map_ or by reading the session's key index (resolved call graph).
 GUARD   every store that binds a key value to an object in a key index is guarded against an existing owner
         (shared with C14).
 UNDO    every key-index mutation performed by a function of the undo protocol is restored when the enclosing
         operation fails (the index clause of C13's COVER rule): otherwise a live object disappears from its index and a
         second object with the same key can be created in the session.
 RELEASE "each unique key value present in the session maps to the single object that currently holds it": when an object gives up a
         key value the four index updaters (update_simple_index, update_composite_index and their db_ variants) remove the old
         entry, and that removal depends on the OLD value only (it is not nested under a test of the new value): giving up a key
         for None / a partially-None composite must release the old value too, otherwise the value stays mapped to an object
         that no longer holds it and nobody else can take it.
 UNDO-REG the registration clause of C13 (REG) for closures that restore index maps: no failure point is reachable after an index
         update without the undo closure registered.
"""
NOT_DECIDED = "consistency of the indexes across arbitrary histories (inductive invariant); class refinement on reload"

CORE = 'pony.orm.core'
PRODUCERS = ['EntityMeta._get_by_raw_pkval_', 'EntityMeta._fetch_objects', 'unpickle_entity', 'EntityProxy._get_object',
             'EntityMeta._find_in_db_', 'EntityMeta._find_one_', 'EntityMeta.__getitem__', 'EntityMeta.get', 'Entity.__init__']


def failsafe_rule(ctx, P='C11-FAILSAFE'):
    repo, cg = ctx.repo, ctx.cg
    # ---------------------------------------------------------------- FAILSAFE
    # update_simple_index / update_composite_index can refuse a key (CacheIndexError).  Whatever they have already taken out of the index at that point is
    # lost unless it was recorded in `undo` first: from every `del <index>[...]` / `<index>.pop(...)` no throw is reachable without passing undo.append(...)
    nfs = 0
    for qual in ('SessionCache.update_simple_index', 'SessionCache.update_composite_index'):
        f = repo.fn(CORE, qual); g = cg.cfg(f)
        removals = [x for x in g.nodes if x.kind == 'stmt' and (isinstance(x.ast, ast.Delete) or any(isinstance(c.func, ast.Attribute) and c.func.attr == 'pop' for c in x.calls()))
                    and 'index' in norm(x.ast)]
        recs = nodes_calling(g, lambda c: dotted(c.func) == 'undo.append')
        throws_ = [x for x in g.nodes if x.kind == 'stmt' and x.ast is not None and g.is_noreturn_stmt(x.ast)]
        for rm in removals:
            nfs += 1
            r_ = g.reach([rm], avoid=recs, include_src=False)
            bad = [t for t in throws_ if t.id in r_]
            ctx.ob(P + '.key-removed-from-the-index-is-recorded-before-anything-can-fail', f, rm.ast, not bad,
                   '' if not bad else 'after `%s` the refusal at line %d can be reached before undo.append(...): the caller\'s rollback restores the attribute value but not the '
                   'index entry, so the object keeps a key the index no longer maps to it and a second object can take that key' % (norm(rm.ast), bad[0].lineno), node=rm.ast)
    ctx.floor(P, nfs, 2, 'removals of a key from a session index')


def run(ctx):
    repo, cg = ctx.repo, ctx.cg
    from . import C08
    C08.decimal_norm_rule(ctx, prefix='C11-KEYNORM')      # the key in the identity map equals the key the database hands back
    core = repo.mod(CORE)
    idm = repo.fn(CORE, 'EntityMeta._get_from_identity_map_')
    n = 0
    for fn in repo.rule_funcs():
        if fn.mod is not core: continue
        for c in calls_in(fn.node):
            if dotted(c.func) == 'object.__new__' and c.args:
                r = repo.resolve_name(fn.mod, dotted(c.args[0]) or '') if isinstance(c.args[0], ast.Name) else None
                if r and r[0] == 'class': continue               # a concrete helper class (Query, QueryStat), not an entity
                n += 1
                ok = fn is idm
                ctx.ob('C11-NEW.instances-created-only-in-identity-map', fn, c, ok,
                       '' if ok else 'an entity instance is materialised outside _get_from_identity_map_: nothing consults the pk index, so a second '
                       'object for the same primary key can exist in the session', node=c)
    ctx.floor('C11-NEW', n, 1, 'object.__new__(<entity>) sites')
    g = cg.cfg(idm)
    news = nodes_calling(g, lambda c: dotted(c.func) == 'object.__new__')
    getv = {dotted(s.targets[0]) for s in walk_no_nested(idm.node) if isinstance(s, ast.Assign) and len(s.targets) == 1
            and isinstance(s.value, ast.Call) and isinstance(s.value.func, ast.Attribute) and s.value.func.attr == 'get' and 'index' in norm(s.value.func.value)}
    tests = {t.id for t in g.nodes if t.kind == 'test' and any(norm(t.ast) == '%s is None' % v for v in getv)}
    rr = g.reach([g.entry], edge_ok=lambda x, y, lab: not (x in tests and lab == 'T'))
    for nn in news:
        ok = bool(tests) and nn.id not in rr
        ctx.ob('C11-NEW.created-only-when-index-lookup-missed', idm, nn.ast, ok,
               '' if ok else 'a new instance can be created although the pk index was not consulted (or returned an object)', node=nn.ast)
    # ... and is registered under its key before the function returns (unless it has no key yet)
    stores = [x for x in g.nodes if x.kind == 'stmt' and isinstance(x.ast, ast.Assign) and any(
        isinstance(t, ast.Subscript) and 'index' in norm(t.value) and norm(t.slice) == idm.params[1] for t in x.ast.targets)]
    nokey = {t.id for t in g.nodes if t.kind == 'test' and norm(t.ast) == '%s is not None' % idm.params[1]}
    for nn in news:
        rr2 = g.reach([nn], avoid=stores, include_src=False, edge_ok=lambda x, y, lab: not (x in nokey and lab == 'F'))
        ok = bool(stores) and g.exit.id not in rr2
        ctx.ob('C11-NEW.new-instance-is-registered-in-pk-index', idm, nn.ast, ok,
               '' if ok else 'a newly materialised object with a primary key can be returned without being stored in the pk index: the next '
               'lookup of the same key creates a second object', node=nn.ast)
    # the lookup must use the caller's pkval on the session's pk index
    gets = [s for s in walk_no_nested(idm.node) if isinstance(s, ast.Assign) and isinstance(s.value, ast.Call) and isinstance(s.value.func, ast.Attribute)
            and s.value.func.attr == 'get' and 'index' in norm(s.value.func.value)]
    ok = bool(gets) and all(norm(s.value.args[0]) == idm.params[1] for s in gets)
    ctx.ob('C11-NEW.lookup-uses-requested-key', idm, gets[0] if gets else idm.node, ok, '' if ok else 'pk index is not looked up with the requested pkval')
    init = repo.fn(CORE, 'Entity.__init__')
    cs = [c for c in calls_in(init.node) if isinstance(c.func, ast.Attribute) and c.func.attr == '_get_from_identity_map_']
    ok = bool(cs) and all(any(k.arg == 'obj_to_init' and dotted(k.value) == init.recv for k in c.keywords) for c in cs)
    ctx.ob('C11-NEW.constructor-registers-through-identity-map', init, cs[0] if cs else init.node, ok,
           '' if ok else 'Entity.__init__ does not register the new object through _get_from_identity_map_(..., obj_to_init=obj)')
    # ---------------------------------------------------------------- VIA
    for q in PRODUCERS:
        f = repo.fn(CORE, q)
        chain = cg.reaches(f, lambda t: t is idm, kinds=('exact', 'dispatch', 'super', 'ctor'))
        reads_index = any(isinstance(x, ast.Attribute) and x.attr == 'indexes' for x in walk_no_nested(f.node))
        ok = chain is not None or reads_index
        ctx.ob('C11-VIA.producer-reaches-identity-map', f, f.node, ok,
               '' if ok else '%s hands out entity instances but neither calls _get_from_identity_map_ (transitively) nor reads the key index' % q)
    guard_rule(ctx, 'C11-GUARD')
    # ---------------------------------------------------------------- UNDO (index clause of C13-COVER)
    for f, creates in C13.protocol_functions(ctx):
        C13.check_function(ctx, f, creates, only_cover_locs=('index',), prefix='C11-UNDO')
        C13.check_function(ctx, f, creates, prefix='C11-UNDO', reg_for=('index',))

    # ---------------------------------------------------------------- RELEASE
    nrel = 0
    for q in ('SessionCache.update_simple_index', 'SessionCache.update_composite_index', 'SessionCache.db_update_simple_index', 'SessionCache.db_update_composite_index'):
        f = repo.fn('pony.orm.core', q)
        old, new = f.params[3], f.params[4]
        par = {}
        for x in ast.walk(f.node):
            for ch in ast.iter_child_nodes(x): par[id(ch)] = x
        rem = [x for x in walk_no_nested(f.node) if (isinstance(x, ast.Delete) and any(isinstance(t, ast.Subscript) and norm(t.slice) == old for t in x.targets))
               or (isinstance(x, ast.Expr) and isinstance(x.value, ast.Call) and isinstance(x.value.func, ast.Attribute) and x.value.func.attr == 'pop'
                   and x.value.args and norm(x.value.args[0]) == old)]
        nrel += 1
        ok = bool(rem); why = 'no statement removes the old key value `%s` from the index' % old
        for r in rem:
            x = r
            while id(x) in par:
                x = par[id(x)]
                if isinstance(x, (ast.If, ast.While)) and any(isinstance(nm, ast.Name) and nm.id == new for nm in ast.walk(x.test)):
                    ok = False; why = 'the removal `%s` is nested under `%s`, a test of the NEW value: when the object gives the key up for None the old value stays in the index' % (norm(r), norm(x.test))
        ctx.ob('C11-RELEASE.given-up-key-value-leaves-the-index', f, rem[0] if rem else f.node, ok, '' if ok else why, node=rem[0] if rem else None,
               expected='`if %s is not None: del cache_index[%s]` at the top level of the function' % (old, old))
    ctx.floor('C11-RELEASE', nrel, 4, 'index updaters')
    failsafe_rule(ctx)


MUTANTS = [
    dict(id='C11-reg1', file='pony/orm/core.py', fn='Attribute.__set__', old="            undo_funcs.append(undo_func)\n            if old_val == new_val: return\n", new="            if old_val == new_val:\n                undo_funcs.append(undo_func)\n                return\n", expect='C11-UNDO-REG'),
    dict(id='C11-fs', file='pony/orm/core.py', fn='SessionCache.update_simple_index', old="        undo.append((cache_index, old_val, new_val))", new="        pass", expect='C11'),
    dict(id='C11-norm1', file='pony/orm/dbapiprovider.py', fn='DecimalConverter.validate', old="        if exp is not None and val.is_finite(): val = val.quantize(exp)", new="        if exp is not None and val.is_finite() and not isinstance(val, Decimal): val = val.quantize(exp)", expect='C11-KEYNORM'),
    dict(id='C11-r1', file='pony/orm/core.py', fn='SessionCache.update_composite_index', old="        if prev_vals is not None: del cache_index[prev_vals]", new="            if prev_vals is not None: del cache_index[prev_vals]", expect='C11-RELEASE'),
    dict(id='C11-m1', file='pony/orm/core.py', fn='EntityMeta._get_from_identity_map_', old='        else: obj = cache_index.get(pkval)\n', new='        else: obj = None\n', expect='C11-'),
    dict(id='C11-m2', file='pony/orm/core.py', fn='Entity._delete_', old='                        undo_list.append((pk_index, obj._pkval_))\n', new='', expect='C11-UNDO'),
    dict(id='C11-m3', file='pony/orm/core.py', fn='unpickle_entity', old="    obj = entity._get_from_identity_map_(pkval, 'loaded')", new="    obj = object.__new__(entity); obj._pkval_ = pkval; obj._status_ = 'loaded'", expect='C11-NEW'),
    dict(id='C11-m4', file='pony/orm/core.py', fn='Entity.__init__', old="entity._get_from_identity_map_(pkval, 'created', undo_funcs=undo_funcs, obj_to_init=obj)", new="entity._get_from_identity_map_(pkval, 'created', undo_funcs=undo_funcs)", expect='C11-NEW.constructor'),
    dict(id='C11-m5', file='pony/orm/core.py', fn='EntityMeta._get_from_identity_map_', old='                    cache_index[pkval] = obj\n                    obj._newid_ = None', new='                    obj._newid_ = None', expect='C11-NEW.new-instance-is-registered'),
]
