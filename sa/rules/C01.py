"""C01  Declarative queries return what Python evaluation of the same expression returns."""
import ast, itertools
from ..loader import dotted, walk_no_nested, norm, head, calls_in, AnalysisError
from ..typestate import Machine, eval_test
from . import C05, C25

EXPLANATION = """
Static clauses decided (necessary conditions of C01; the SQL/Python equivalence of translated operators is NOT decided):
 NULLTRUTH "missing values are falsy in truth tests": for the monad classes that build their truth-test SQL from templates
           (NumericMixin, StringMixin: nonzero and negate; JsonMixin/ArrayMixin nonzero), every SQL-AST template the method can
           return -- all paths over dialect in {SQLite, PostgreSQL, MySQL, Oracle}, monad.type is bool, monad.nullable,
           isinstance(monad, AttrMonad) are enumerated on the method's CFG -- is evaluated in Kleene three-valued logic with
           the operand bound to NULL: nonzero() must give FALSE or UNKNOWN, negate() of a nullable operand must give TRUE
           (`not x` is True for a missing x in Python).  The generic monads reduce to `x IS [NOT] NULL` through CmpMonad.
 FAILCLOSED a query Pony cannot translate raises: the default handlers on the translation path (default_post of both
           translators, every default operator of Monad, the unknown-symbol branch of SQLBuilder.__call__, the JSON_*/ARRAY_*
           defaults of the base builder) end in throw/raise on every path.
 SLICE     string slicing: explicit versus omitted bounds (shared with C25).
 LEX       tuple comparisons expanded for dialects without row values compare every component but the last strictly.
 INCLUDED  the clauses of C03 (decompiled tree), C04 (outer-scope expressions), C24 (query methods), C25 (string slicing) and C29 (JSON and
           array operations) are necessary conditions of C01 as well and are evaluated under C01 too (rule ids keep their own prefix).
 FIXED     value-dependent translation is recorded on the root translator (shared with C05), otherwise a cached translation
           built for one parameter value answers the same query for another value.
"""
# C01 is the umbrella ("the rows Pony returns equal the result of evaluating the same expression in Python"): the clauses decided for the
# narrower query properties are necessary conditions of C01 too and are evaluated here as well (their findings are reported under C01)
INCLUDES = ('C03', 'C04', 'C05', 'C24', 'C25', 'C29')       # C05: an answer served from a cache filed under too coarse a key is not the Python answer
NOT_DECIDED = "SQL/Python equivalence of each translated operator, DISTINCT inference, row decoding: need execution against the engines"

ST = 'pony.orm.sqltranslation'
DIALECTS = ('SQLite', 'PostgreSQL', 'MySQL', 'Oracle')
NULL = ('NULL',)
X = ('X',)          # the operand


def tmpl(e, env):
    """AST expression -> nested tuple template"""
    if isinstance(e, ast.List) or isinstance(e, ast.Tuple): return tuple(tmpl(x, env) for x in e.elts)
    if isinstance(e, ast.Constant): return ('const', e.value) if not isinstance(e.value, str) or False else e.value
    if isinstance(e, ast.Name):
        if e.id in env and env[e.id] is not None: return env[e.id]
        raise AnalysisError('C01: unbound template variable %s' % e.id)
    if isinstance(e, ast.IfExp):
        v = eval_test(e.test, lambda t, n: atom(t, env))
        if v is None: raise AnalysisError('C01: undecidable template condition %s' % norm(e.test))
        return tmpl(e.body if v else e.orelse, env)
    if isinstance(e, ast.Subscript) and norm(e) == 'monad.getsql()[0]': return X
    raise AnalysisError('C01: unreadable template expression %s' % norm(e))


def atom(t, env):
    if t.startswith('translator.dialect == '): return env['dialect'] == t.split('== ')[1].strip("'")
    if t.startswith('translator.dialect != '): return env['dialect'] != t.split('!= ')[1].strip("'")
    if t == 'monad.type is bool': return env['tbool']
    if t == 'monad.nullable': return env['nullable']
    if t == 'isinstance(monad, AttrMonad)': return env['attr']
    if t in env and isinstance(env[t], bool): return env[t]
    return None


def kleene(t):
    """evaluate a template with the operand bound to NULL -> True / False / NULL / ('val', v)"""
    if t == X: return NULL
    if isinstance(t, tuple) and t and t[0] == 'const': return ('val', t[1]) if t[1] is not None else NULL
    if isinstance(t, str): return ('val', t)
    op = t[0]
    a = [kleene(x) for x in t[1:]]
    if op == 'VALUE':
        v = t[1][1] if isinstance(t[1], tuple) and t[1][0] == 'const' else t[1]
        return NULL if v is None else ('val', v)
    def truth(v):
        if v is NULL: return NULL
        if isinstance(v, tuple) and v[0] == 'val': return bool(v[1])
        return v
    if op in ('EQ', 'NE', 'GT', 'GE', 'LT', 'LE'):
        if a[0] is NULL or a[1] is NULL: return NULL
        l, r = a[0][1], a[1][1]
        return {'EQ': l == r, 'NE': l != r, 'GT': l > r, 'GE': l >= r, 'LT': l < r, 'LE': l <= r}[op]
    if op == 'NOT':
        v = truth(a[0]); return NULL if v is NULL else (not v)
    if op == 'OR':
        vs = [truth(v) for v in a]
        return True if any(v is True for v in vs) else NULL if any(v is NULL for v in vs) else False
    if op == 'AND':
        vs = [truth(v) for v in a]
        return False if any(v is False for v in vs) else NULL if any(v is NULL for v in vs) else True
    if op == 'IS_NULL': return a[0] is NULL
    if op == 'IS_NOT_NULL': return a[0] is not NULL
    if op == 'COALESCE':
        for v in a:
            if v is not NULL: return v
        return NULL
    if op in ('ARRAY_LENGTH', 'LENGTH', 'ABS', 'JSON_NONZERO'): return NULL if a[0] is NULL else ('val', 1)
    raise AnalysisError('C01: SQL operator %s is not modelled by the three-valued evaluator' % op)


def method_templates(ctx, f):
    """enumerate (env, returned template) for a nonzero/negate method"""
    g = ctx.cg.cfg(f)
    out = []
    def effect(n, env):
        if n.kind != 'stmt': return None
        a = n.ast
        if isinstance(a, ast.Assign) and len(a.targets) == 1 and isinstance(a.targets[0], ast.Name):
            name = a.targets[0].id
            if name in ('sql', 'result_sql'):
                return {'normal': [{name: tmpl(a.value, env)}]}
            if name == 'pg_bool':
                v = eval_test(a.value, lambda t, nn: atom(t, env))
                if v is None: raise AnalysisError('C01: cannot evaluate %s' % norm(a.value))
                return {'normal': [{'pg_bool': v}]}
            if name == 'result' and isinstance(a.value, ast.Call) and dotted(a.value.func) == 'BoolExprMonad':
                return {'normal': [{'ret': tmpl(a.value.args[0], env)}]}
        if isinstance(a, ast.Return) and isinstance(a.value, ast.Call) and dotted(a.value.func) == 'BoolExprMonad':
            return {'normal': [{'ret': tmpl(a.value.args[0], env)}]}
        return None
    vars_ = ['dialect', 'tbool', 'nullable', 'attr', 'sql', 'result_sql', 'pg_bool', 'ret']
    m = Machine(g, vars_, effect, atom)
    inits = [dict(dialect=d, tbool=tb, nullable=nl, attr=at, sql=None, result_sql=None, pg_bool=None, ret=None)
             for d in DIALECTS for tb in (True, False) for nl in (True, False) for at in (True, False)]
    IN = m.run(inits)
    for e in m.states_at(IN, g.exit):
        if e['ret'] is None: raise AnalysisError('C01: %s can return something that is not BoolExprMonad(<template>)' % f.qual)
        out.append(e)
    return out


def show(t):
    if t == X: return 'x'
    if isinstance(t, tuple) and t and t[0] == 'const': return repr(t[1])
    if isinstance(t, str): return t
    return '[%s]' % ', '.join(show(x) for x in t)


def run(ctx):
    repo, cg = ctx.repo, ctx.cg
    # ---------------------------------------------------------------- NULLTRUTH
    n = 0
    for cname in ('NumericMixin', 'StringMixin'):
        for meth in ('nonzero', 'negate'):
            f = repo.fn(ST, '%s.%s' % (cname, meth))
            seen = {}
            for e in method_templates(ctx, f):
                if meth == 'negate' and not e['nullable']: continue          # a non-nullable operand is never NULL
                if cname == 'StringMixin' and e['tbool']: continue
                key = (show(e['ret']),)
                cond = 'dialect=%s, type is bool=%s, nullable=%s, AttrMonad=%s' % (e['dialect'], e['tbool'], e['nullable'], e['attr'])
                seen.setdefault(key, []).append(cond)
                v = kleene(e['ret'])
                ok = (v is NULL or v is False) if meth == 'nonzero' else (v is True)
                n += 1
                ob = ctx.ob('C01-NULLTRUTH.template-is-falsy-for-NULL', f, show(e['ret']), ok,
                            '' if ok else '%s.%s() returns the SQL template %s under (%s); with the operand NULL it evaluates to %s in three-valued logic, '
                            'but %s' % (cname, meth, show(e['ret']), cond, 'NULL' if v is NULL else v,
                                        '`not x` must select the row (Python: not None is True)' if meth == 'negate' else 'a missing value must be falsy'),
                            node=f.node, expected='TRUE' if meth == 'negate' else 'FALSE or UNKNOWN')
                ob.key += '::' + cond
    ctx.floor('C01-NULLTRUTH', n, 60, 'template x condition combinations evaluated')
    # generic monads go through CmpMonad is / is not None
    M = repo.cls(ST, 'Monad')
    for meth, want in (('nonzero', "CmpMonad('is not', monad, NoneMonad())"),):
        f = M.methods[meth]
        rets = [norm(s.value) for s in walk_no_nested(f.node) if isinstance(s, ast.Return)]
        ok = rets == [want]
        ctx.ob('C01-NULLTRUTH.generic-monad-tests-for-NULL', f, f.node, ok, '' if ok else 'Monad.%s returns %s' % (meth, rets))
    om = repo.cls(ST, 'ObjectMixin')
    for meth, op in (('nonzero', 'is not'), ('negate', 'is')):
        f = om.methods[meth]
        rets = [norm(s.value) for s in walk_no_nested(f.node) if isinstance(s, ast.Return)]
        ok = rets == ["CmpMonad('%s', monad, NoneMonad())" % op]
        ctx.ob('C01-NULLTRUTH.generic-monad-tests-for-NULL', f, f.node, ok, '' if ok else 'ObjectMixin.%s returns %s' % (meth, rets))
    nm = repo.fn(ST, 'NotMonad.__init__')
    ok = any(isinstance(s, ast.If) and norm(s.test) == 'operand.type is not bool' and any('operand.nonzero()' in norm(x) for x in s.body) for s in walk_no_nested(nm.node))
    ctx.ob('C01-NULLTRUTH.not-of-non-boolean-goes-through-nonzero', nm, nm.node, ok, '' if ok else 'NotMonad no longer converts a non-boolean operand with nonzero()')
    # ---------------------------------------------------------------- FAILCLOSED
    m = 0
    targets = [repo.fn('pony.orm.asttranslation', 'PythonTranslator.default_post'), repo.fn(ST, 'SQLTranslator.default_post')]
    for f in targets:
        g = cg.cfg(f); m += 1
        ok = g.exit.id not in g.reachable_nodes()
        ctx.ob('C01-FAILCLOSED.default-handler-raises', f, f.node, ok, '' if ok else '%s can return normally: an untranslatable node is silently ignored' % f.qual)
    for name, f in M.methods.items():
        if name in ('__init__', 'mixin_init', 'to_int', 'to_str', 'to_real', 'cast_from_json', 'nonzero', 'negate', 'getattr', 'to_single_cell_value', 'count', 'aggregate', '__call__') or name.startswith('call_'):
            continue
        body = [s for s in f.node.body if not (isinstance(s, ast.Expr) and isinstance(s.value, ast.Constant))]
        if len(body) == 1 and isinstance(body[0], ast.Expr) and isinstance(body[0].value, ast.Call) and dotted(body[0].value.func) == 'throw':
            g = cg.cfg(f); m += 1
            ok = g.exit.id not in g.reachable_nodes()
            ctx.ob('C01-FAILCLOSED.default-handler-raises', f, f.node, ok, '' if ok else 'Monad.%s default can return normally' % name)
    sb = repo.fn('pony.orm.sqlbuilding', 'SQLBuilder.__call__'); g = cg.cfg(sb)
    tests = [t for t in g.nodes if t.kind == 'test' and norm(t.ast) == 'method is None']
    ok = bool(tests) and all(g.exit.id not in g.reach([y for y, lab in g.succ[t.id] if lab == 'T']) for t in tests)
    ctx.ob('C01-FAILCLOSED.unknown-sql-symbol-raises', sb, tests[0].stmt if tests else sb.node, ok, '' if ok else 'an unknown SQL AST symbol does not raise'); m += 1
    ctx.floor('C01-FAILCLOSED', m, 15, 'default handlers on the translation path')
    # ---------------------------------------------------------------- SLICE / FIXED (shared)
    C05.fixed_rule(ctx, prefix='C01-FIXED')
    C05.embedded_rule(ctx, prefix='C01-FIXED')
    C05.vars_rule(ctx, prefix='C01-FIXED')
    # ---------------------------------------------------------------- LEX
    # tuple comparisons on dialects without row values are expanded lexicographically: (a1..an) OP (b1..bn) = OR_i (a1=b1 and .. a(i-1)=b(i-1) and
    # ai OP_i bi).  For <= and >= only the LAST component may use the non-strict operator; a non-strict operator at an earlier position makes
    # (1, 1) >= (1, 2) true.  The operator expression of the expansion loop is evaluated for every (op, position) with a small constant evaluator.
    cm = repo.fn(ST, 'CmpMonad.getsql')
    loops = [l for l in walk_no_nested(cm.node) if isinstance(l, ast.For) and isinstance(l.iter, ast.Call) and dotted(l.iter.func) == 'range' and norm(l.iter.args[0]) == 'size']
    ctx.need(len(loops) == 1, 'C01-LEX: lexicographic expansion loop not found in CmpMonad.getsql')
    L = loops[0]; iv = L.target.id
    keys = [x.slice for st in L.body for x in ast.walk(st) if isinstance(x, ast.Subscript) and dotted(x.value) == 'cmp_ops' and isinstance(x.ctx, ast.Load)]
    ctx.need(bool(keys), 'C01-LEX: cmp_ops[...] not used in the expansion loop')
    local_defs = {}
    for st in walk_no_nested(cm.node):
        if isinstance(st, ast.Assign) and len(st.targets) == 1 and isinstance(st.targets[0], ast.Name): local_defs.setdefault(st.targets[0].id, []).append(st.value)
    def cev(e, env, depth=0):
        if isinstance(e, ast.Constant): return e.value
        if isinstance(e, ast.Name):
            if e.id in env: return env[e.id]
            if len(local_defs.get(e.id, ())) == 1 and depth < 4: return cev(local_defs[e.id][0], env, depth + 1)
            raise AnalysisError('C01-LEX: cannot evaluate name %s' % e.id)
        if isinstance(e, ast.IfExp): return cev(e.body if cev(e.test, env, depth) else e.orelse, env, depth)
        if isinstance(e, ast.Subscript):
            base = cev(e.value, env, depth); idx = cev(e.slice, env, depth)
            return base[idx]
        if isinstance(e, ast.Dict): return {cev(k, env, depth): cev(v, env, depth) for k, v in zip(e.keys, e.values)}
        if isinstance(e, ast.Call) and isinstance(e.func, ast.Attribute) and e.func.attr == 'get' and len(e.args) in (1, 2):
            d = cev(e.func.value, env, depth); k = cev(e.args[0], env, depth)
            return d.get(k, cev(e.args[1], env, depth) if len(e.args) == 2 else None)
        if isinstance(e, ast.Call) and isinstance(e.func, ast.Attribute) and e.func.attr in ('rstrip', 'strip', 'replace') and all(isinstance(a, ast.Constant) for a in e.args):
            return getattr(cev(e.func.value, env, depth), e.func.attr)(*[a.value for a in e.args])
        if isinstance(e, ast.BinOp) and isinstance(e.op, (ast.Add, ast.Sub)):
            l, r = cev(e.left, env, depth), cev(e.right, env, depth); return l + r if isinstance(e.op, ast.Add) else l - r
        if isinstance(e, ast.Compare) and len(e.ops) == 1:
            l, r = cev(e.left, env, depth), cev(e.comparators[0], env, depth)
            return {ast.Eq: l == r, ast.NotEq: l != r, ast.Lt: l < r, ast.LtE: l <= r, ast.Gt: l > r, ast.GtE: l >= r, ast.In: l in r if hasattr(r, '__contains__') else False}[type(e.ops[0])]
        if isinstance(e, ast.Tuple): return tuple(cev(x, env, depth) for x in e.elts)
        if isinstance(e, ast.BoolOp):
            vs = [cev(v, env, depth) for v in e.values]; return all(vs) if isinstance(e.op, ast.And) else any(vs)
        if isinstance(e, ast.UnaryOp) and isinstance(e.op, ast.Not): return not cev(e.operand, env, depth)
        raise AnalysisError('C01-LEX: cannot evaluate `%s`' % norm(e))
    for k in keys:
        bad = []
        for op_ in ('<', '<=', '>', '>='):
            for size_, i_ in ((2, 0), (2, 1), (3, 0), (3, 1), (3, 2)):
                got = cev(k, {'op': op_, iv: i_, 'size': size_})
                want = op_ if i_ == size_ - 1 else op_[0]
                if got != want: bad.append('%s at position %d of %d -> %s (must be %s)' % (op_, i_ + 1, size_, got, want))
        ctx.ob('C01-LEX.only-the-last-component-may-be-non-strict', cm, k, not bad,
               '' if not bad else 'the lexicographic expansion of a tuple comparison uses %s: with a non-strict operator before the last component a tuple that is smaller in a '
               'later component still compares greater-or-equal, e.g. (1, 1) >= (1, 2)' % '; '.join(bad[:3]), node=k, expected='strict operator for every component but the last')
    # ---------------------------------------------------------------- NOTIN
    # `x not in <subquery>`: SQL's NOT IN is never true once the subquery yields a NULL, Python's `not in` simply ignores None.  construct_sql_ast adds
    # IS NOT NULL conditions for every selected expression that can be NULL.  The only expressions excused from the `nullable` test are monads whose
    # columns are the primary key of their own table reference (getsql() built from make_join(pk_only=True)): a class excused by isinstance() must
    # have that getsql, and so must every class that inherits from it.
    STN = 'pony.orm.sqltranslation'
    csa = repo.fn(STN, 'SQLTranslator.construct_sql_ast')
    blocks = [st for st in walk_no_nested(csa.node) if isinstance(st, ast.If) and norm(st.test) == 'is_not_null_checks']
    ctx.need(blocks, 'C01-NOTIN: the is_not_null_checks block of construct_sql_ast was not found')
    excused = []
    for st in ast.walk(blocks[0]):
        if isinstance(st, ast.If):
            for c in ast.walk(st.test):
                if isinstance(c, ast.Call) and dotted(c.func) == 'isinstance' and len(c.args) == 2:
                    body_adds = any(isinstance(x, ast.Constant) and x.value == 'IS_NOT_NULL' for b in st.body for x in ast.walk(b))
                    if not body_adds:
                        names = [dotted(e) for e in (c.args[1].elts if isinstance(c.args[1], ast.Tuple) else [c.args[1]])]
                        excused += [(n_, st) for n_ in names]
    nn = 0
    for cname, st in excused:
        k = repo.cls(STN, cname)
        for sub in repo.subclasses(k):
            if not any(b.name == 'Monad' for b in repo.mro(sub)): continue            # a mixin alone is never instantiated
            nn += 1
            gs = repo.lookup(sub, 'getsql')
            pk_only = gs is not None and any(isinstance(c, ast.Call) and isinstance(c.func, ast.Attribute) and c.func.attr == 'make_join'
                                            and any(kw.arg == 'pk_only' and isinstance(kw.value, ast.Constant) and kw.value.value is True for kw in c.keywords) for c in calls_in(gs.node))
            other_cols = gs is not None and any(isinstance(x, ast.Attribute) and x.attr == 'columns' for x in ast.walk(gs.node))
            ok = pk_only and not other_cols
            ctx.ob('C01-NOTIN.only-primary-key-expressions-are-excused-from-the-null-guard', csa, '%s <- %s' % (cname, sub.name), ok,
                   '' if ok else 'NOT IN (subquery) skips the IS NOT NULL guard for %s (through isinstance(monad, %s)), whose getsql() is %s: a nullable column (an optional reference) '
                   'puts NULL into the subquery and `x not in ...` returns no rows at all' % (sub.name, cname, gs.full if gs is not None else 'missing'), node=st)
    ctx.floor('C01-NOTIN', nn, 1, 'monad classes excused from the NOT IN null guard')
    # and the guard itself: under "nullable", IS NOT NULL conditions are added
    adds = [x for x in ast.walk(blocks[0]) if isinstance(x, ast.Constant) and x.value == 'IS_NOT_NULL']
    ctx.ob('C01-NOTIN.null-guard-present', csa, blocks[0], bool(adds), '' if adds else 'construct_sql_ast no longer adds IS NOT NULL conditions for NOT IN subqueries', node=blocks[0])


MUTANTS = [
    dict(id='C01-notin', file='pony/orm/sqltranslation.py', fn='SQLTranslator.construct_sql_ast', old="                if isinstance(monad, ObjectIterMonad): pass", new="                if isinstance(monad, (ObjectIterMonad, AttrMonad)): pass", expect='C01-NOTIN'),
    dict(id='C01-lx1', file='pony/orm/sqltranslation.py', fn='CmpMonad.getsql', old="clause.append([ cmp_ops[op if i == size - 1 else strict_op], left_sql[i], right_sql[i] ])", new="clause.append([ cmp_ops[op], left_sql[i], right_sql[i] ])", expect='C01-LEX'),
    dict(id='C01-m1', file='pony/orm/sqltranslation.py', fn='NumericMixin.negate', old="result_sql = [ 'NOT', [ 'COALESCE', sql, [ 'VALUE', False ] ] ]", new="result_sql = [ 'NOT', [ 'COALESCE', sql, [ 'VALUE', True ] ] ]", expect='C01-NULLTRUTH'),
    dict(id='C01-m2', file='pony/orm/sqltranslation.py', fn='StringMixin.negate', old="                    result_sql = [ 'OR', result_sql, [ 'IS_NULL', sql ] ]\n                else:\n                    result_sql = [ 'EQ', [ 'COALESCE', sql, [ 'VALUE', '' ] ], [ 'VALUE', '' ]]",
         new="                    pass\n                else:\n                    result_sql = [ 'EQ', [ 'COALESCE', sql, [ 'VALUE', '' ] ], [ 'VALUE', '' ]]", expect='C01-NULLTRUTH'),
    dict(id='C01-m3', file='pony/orm/sqltranslation.py', fn='NumericMixin.nonzero', old="            sql = [ 'NE', sql, [ 'VALUE', 0 ] ]", new="            sql = [ 'NE', [ 'COALESCE', sql, [ 'VALUE', 1 ] ], [ 'VALUE', 0 ] ]", expect='C01-NULLTRUTH'),
    dict(id='C01-m4', file='pony/orm/asttranslation.py', fn='PythonTranslator.default_post', old='        throw(NotImplementedError, node)', new='        return None', expect='C01-FAILCLOSED'),
    dict(id='C01-m5', file='pony/orm/sqltranslation.py', fn='StringMixin.__getitem__', old='        root_translator = monad.translator.root_translator', new='        root_translator = monad.translator', expect='C01-FIXED'),
    dict(id='C01-m6', file='pony/orm/sqlbuilding.py', fn='SQLBuilder.__call__', old="        if method is None: throw(AstError, 'Method not found: %s' % symbol)", new="        if method is None: return ''", expect='C01-FAILCLOSED'),
]
