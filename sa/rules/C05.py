"""C05  Query, SQL and result caches are transparent."""
import ast, re
from ..loader import dotted, walk_no_nested, norm, head, calls_in, names_in, parents
from ..q import nodes_calling, cfg_node_of

EXPLANATION = """
Static clauses decided (necessary conditions of C05):
 KEY     key agreement for every keyed cache in the package (any dict whose name ends in _cache/_cache_ or starts with
         cached_): when a function looks a value up under key K and later stores the computed value, the store uses the
         same key expression and no variable occurring in K is reassigned on a path between the lookup and the store
         (otherwise the entry is filed under a different key than it is asked for, and another input is served it).
 PROJ    a cache key keeps what the cached value depends on: when a function computes the cached value from the *values* of a
         mapping parameter (it reads p.items() / p[k] / p.values() on the miss path), the key must contain those values too --
         the parameter may enter the key whole or as p.items(), but not only under a projection that keeps its keys alone
         (frozenset(p), tuple(p), sorted(p), set(p), list(p), p.keys()).  Two inputs with the same keys and different values
         (attr -> `is None`) would otherwise share one entry.
 SHAPE   one key, one tree: the code key handed to Query(...) / create_extractors(...) identifies the syntax tree that the
         extractor and translator caches store under it.  A call site that passes a tree it *constructed itself* around the
         decompiled one (EntityMeta._query_from_args_ wraps a lambda body into a generator expression) must not pass the bare key
         of the inner tree (id(code) / the source string), because filter()/where()/order_by() file the unwrapped body of the
         same lambda under that key: the second user would be served a tree of the wrong shape.
 PIN     a cache key built from id(<code object>) is only sound while the code object is alive: every function that
         builds such a key also passes the same function/generator to decompile()/get_lambda_args(), whose
         get_codeobject_id stores a strong reference; decompile() keys ast_cache by get_codeobject_id, not id().
 FIXED   translation that depends on a concrete parameter *value* (string index from a parameter, getattr name) reads it
         from the ROOT translator's vars and records it in the ROOT translator's fixed_param_values on every path;
         Query._get_translator compares every recorded value before reusing a cached translator; every translator
         attribute that _get_translator uses to declare a cached translator stale (or an attribute updated together with
         it) is part of the key of the constructed-SQL cache; every argument of construct_sql_ast is part of that key.
 ALIAS   a list stored in the per-session result cache is shared with every QueryResult that was served it: QueryResult
         never mutates that list in place (reverse/sort/shuffle must work on a copy).
 FRESH   the per-session result cache is never served stale: the rules A and C of C10 (cache read only after the auto-flush;
         flush clears the cache after the before_* hooks and before emitting statements; bulk delete clears it) are evaluated
         here as well, under the ids C05-FRESH-*.
"""
NOT_DECIDED = "completeness of keys in general (whether a key contains every input the cached value depends on)"

CACHE_RE = re.compile(r'(^|[._])(\w*_cache_?|cached_\w+)$')
# lookup/store pairs that differ on purpose: (function, cache expr) -> reason
EXCEPTIONS = {
    ('has_perm', 'perm_cache'): "dead cache: looked up by the checked thing x, stored under the permission name; the two key domains are "
                                "disjoint, so the entry is never served (a missed optimisation, cannot return a wrong answer)",
    ('Entity.load', '_load_sql_cache_'): "dead cache: looked up by the not-yet-loaded attributes (never primary-key attributes: their bit is 0) and "
                                  "stored under pk_attrs + attrs; the key domains are disjoint, the entry is never served",
}
PIN_EXCEPTIONS = {
    'Query._get_translator': "func is a key of translator.func_extractors_map held by the cached translator (strong reference keeps "
                             "func.__code__ alive); the same function was pinned by decompile() when the map entry was created",
}


def cache_accesses(fn):
    """-> lookups [(cache expr text, key node, stmt-ish node)], stores [...]"""
    looks, stores = [], []
    pm = parents(fn.node)
    from ..q import alias_map, deref
    am = alias_map(fn.node)
    # a local that merely names the container (`sql_cache = database._constructed_sql_cache`) is the container
    dotted_ = lambda e: deref(fn.node, e, am) if isinstance(e, ast.Name) and e.id in am and CACHE_RE.search(am[e.id]) else dotted(e)
    for n in walk_no_nested(fn.node):
        if isinstance(n, ast.Call) and isinstance(n.func, ast.Attribute) and n.func.attr == 'get' and n.args:
            d = dotted_(n.func.value)
            if d and CACHE_RE.search(d): looks.append((d, n.args[0], n))
        elif isinstance(n, ast.Subscript):
            d = dotted_(n.value)
            if d and CACHE_RE.search(d):
                if isinstance(n.ctx, ast.Store): stores.append((d, n.slice, n))
                elif isinstance(n.ctx, ast.Load): looks.append((d, n.slice, n))
        elif isinstance(n, ast.Call) and isinstance(n.func, ast.Attribute) and n.func.attr == 'setdefault' and n.args:
            d = dotted_(n.func.value)
            if d and CACHE_RE.search(d): stores.append((d, n.args[0], n)); looks.append((d, n.args[0], n))
    return looks, stores


def run(ctx):
    repo, cg = ctx.repo, ctx.cg
    key_rule(ctx)
    inputs_rule(ctx)
    pin_rule(ctx)
    fixed_rule(ctx)
    embedded_rule(ctx)
    vars_rule(ctx)
    shape_rule(ctx)
    proj_rule(ctx)
    alias_rule(ctx)
    from . import C10
    C10.run(ctx, P='C05-FRESH', cache_only=True)


def key_rule(ctx, only=None, prefix='C05-KEY', floor=20):
    repo, cg = ctx.repo, ctx.cg
    pairs = 0
    for fn in repo.rule_funcs():
        if only is not None and fn.qual not in only: continue
        looks, stores = cache_accesses(fn)
        if not looks or not stores: continue
        g = cg.cfg(fn)
        for d, k2, snode in stores:
            ls = [(kd, k1, ln) for kd, k1, ln in looks if kd == d and ln is not snode]
            if not ls: continue
            pairs += 1
            qual = fn.qual.split('.<locals>.')[0]
            exc = EXCEPTIONS.get((qual, d.split('.')[-1])) or EXCEPTIONS.get((fn.name, d.split('.')[-1]))
            texts = {norm(k1) for _, k1, _ in ls}
            same = norm(k2) in texts
            detail = ''
            copies = {}
            if not same:
                # the store key may use a copy taken before the lookup variable is reassigned:  v2 = v1
                k2c, copies = subst_copies(fn, k2)
                same = k2c in texts
            ok = same
            if not same:
                detail = 'cache %s is looked up under %s but the computed value is stored under %s' % (d, sorted(texts), norm(k2))
            else:
                # reaching definitions: no variable of the key is reassigned between lookup and store
                snodes = cfg_node_of(g, snode)
                for _, k1, ln in ls:
                    if norm(k1) != norm(k2) and not copies: continue
                    lnodes = cfg_node_of(g, ln)
                    # a copied variable must be copied before its source is reassigned
                    for v2, (v1, cnode) in copies.items():
                        cn = cfg_node_of(g, cnode)
                        defs = [n for n in g.nodes if n.ast is not None and n.kind in ('stmt', 'iter', 'with') and assigns(n, v1)]
                        for dn in defs:
                            for l in lnodes:
                                if dn.id in g.reach([l], include_src=False) and any(c.id in g.reach([dn], include_src=False) for c in cn):
                                    ok = False; detail = '`%s = %s` copies the key variable after it was reassigned at line %d' % (v2, v1, dn.lineno)
                    for v in sorted(names_in(k2) - set(copies)):
                        defs = [n for n in g.nodes if n.ast is not None and n.kind in ('stmt', 'iter', 'with') and assigns(n, v)]
                        for dn in defs:
                            for l in lnodes:
                                if dn.id in g.reach([l], include_src=False) and dn.id != l.id:
                                    if any(s.id in g.reach([dn], include_src=False) for s in snodes):
                                        ok = False
                                        detail = ('key variable `%s` is reassigned at line %d (`%s`) between the lookup %s[%s] and the store: '
                                                  'the entry is filed under a different key than the one it is asked for, so another input '
                                                  'with that key is served this value' % (v, dn.lineno, head(dn.ast, 70), d, norm(k1)))
            if not ok and exc:
                ctx.exception(prefix, '%s:%s' % (qual, d), exc)
                ctx.ob(prefix + '.lookup-and-store-use-the-same-key', fn, snode, True, 'excepted: ' + exc, nontrivial=False); continue
            ctx.ob(prefix + '.lookup-and-store-use-the-same-key', fn, snode, ok, detail, expected='store under exactly the key that was looked up')
    ctx.floor(prefix, pairs, floor, 'cache lookup/store pairs')


INPUT_EXCEPTIONS = {
    ('create_extractors', 'extractors_cache'): "code_key identifies the code object the tree, the scope and the outer names were taken from (the protocol C05-SHAPE checks at the call sites)",
    ('has_perm', 'perm_cache'): "dead cache (see EXCEPTIONS): the entry is never served",
}
LOSSLESS_CALLS = {'HashableDict', 'tuple', 'frozenset', 'dict', 'sorted', 'list'}


def lossless_names(e, out, resolve):
    """names whose value is carried into the key expression `e` without loss: direct elements of tuples / dicts / HashableDict(...), concatenations,
    sorted(x.items()), -x, comprehensions over x, and (through `resolve`) the definitions of locals.  A name that only occurs under a comparison,
    a boolean operator, bool(), len() ... is not carried: different values give the same key"""
    if isinstance(e, ast.Name):
        if e.id in out: return
        out.add(e.id)
        for v in resolve(e.id): lossless_names(v, out, resolve)
    elif isinstance(e, (ast.Tuple, ast.List)):
        for x in e.elts: lossless_names(x, out, resolve)
    elif isinstance(e, ast.Dict):
        for x in list(e.keys) + list(e.values):
            if x is not None: lossless_names(x, out, resolve)
    elif isinstance(e, ast.Starred): lossless_names(e.value, out, resolve)
    elif isinstance(e, ast.Call) and dotted(e.func) in LOSSLESS_CALLS:
        for a in e.args: lossless_names(a, out, resolve)
        for k in e.keywords: lossless_names(k.value, out, resolve)
    elif isinstance(e, ast.IfExp): lossless_names(e.body, out, resolve); lossless_names(e.orelse, out, resolve)
    elif isinstance(e, ast.BinOp) and isinstance(e.op, ast.Add): lossless_names(e.left, out, resolve); lossless_names(e.right, out, resolve)
    elif isinstance(e, ast.UnaryOp) and isinstance(e.op, ast.USub): lossless_names(e.operand, out, resolve)
    elif isinstance(e, ast.Call) and isinstance(e.func, ast.Attribute) and e.func.attr in ('items', 'keys', 'values', 'copy') and not e.args: lossless_names(e.func.value, out, resolve)
    elif isinstance(e, (ast.GeneratorExp, ast.ListComp, ast.SetComp)):
        for gen in e.generators: lossless_names(gen.iter, out, resolve)


def inputs_rule(ctx, prefix='C05-KEY'):
    """a compute-and-store cache: every parameter of the function that the computation between the lookup and the store reads is carried, without
    loss, by the key (or selects the cache container).  `aggr_func=(name, distinct, sep is not None)` files the SQL built for one separator under
    a key that every other separator shares."""
    from ..q import reaching_defs, value_of_def
    repo, cg = ctx.repo, ctx.cg
    n = 0
    for fn in repo.rule_funcs():
        looks, stores = cache_accesses(fn)
        if not looks or not stores: continue
        g = cg.cfg(fn)
        params = set(fn.params[1:] if fn.cls else fn.params)
        for d, k2, snode in stores:
            ls = [(kd, k1, ln) for kd, k1, ln in looks if kd == d and ln is not snode]
            sn = cfg_node_of(g, snode)
            if not ls or not sn: continue
            def resolve(name, sn=sn):
                return [v for dn in reaching_defs(g, sn[0], name) for v in [value_of_def(dn, name)] if v is not None]
            have = set(); lossless_names(k2, have, resolve)
            for v in resolve(d.split('.')[0]):            # the container is selected by an input: roles_cache = local.user_roles_cache[user]
                have |= {x.id for x in ast.walk(v) if isinstance(x, ast.Name)}
            have |= {x.id for x in ast.walk(ast.parse(d, mode='eval')) if isinstance(x, ast.Name)}
            lnodes = [x for _, _, ln in ls for x in cfg_node_of(g, ln)]
            region = g.reach(lnodes) & g.reach(sn, backward=True)
            used = {x.id for i in region if g.nodes[i].ast is not None for x in ast.walk(g.nodes[i].ast)
                    if isinstance(x, ast.Name) and isinstance(x.ctx, ast.Load) and x.id in params}
            miss = sorted(used - have)
            qual = fn.qual.split('.<locals>.')[0]
            exc = INPUT_EXCEPTIONS.get((qual, d.split('.')[-1])) or INPUT_EXCEPTIONS.get((fn.name, d.split('.')[-1]))
            n += 1
            if miss and exc:
                ctx.exception(prefix, '%s:%s inputs' % (qual, d), exc)
                ctx.ob(prefix + '.key-carries-every-parameter-the-computation-reads', fn, snode, True, 'excepted: ' + exc, nontrivial=False); continue
            ctx.ob(prefix + '.key-carries-every-parameter-the-computation-reads', fn, snode, not miss,
                   '' if not miss else 'the value stored in %s is computed from the parameter(s) %s, but the key `%s` does not carry them without loss (they occur only under a '
                   'comparison / boolean / lossy call, or not at all): calls that differ only in %s are served each other\'s entry' % (d, miss, norm(k2)[:80], miss),
                   expected='every parameter read between the lookup and the store is an element of the key')
    ctx.floor(prefix, n, 15, 'compute-and-store caches whose key is compared with the parameters read')


def vars_rule(ctx, prefix='C05-FIXED'):
    """a translation that folds parameter values into the SQL (string slice bounds, getattr names, inlined functions read `root_translator.vars`) must be
    given the values: every construction of a translator and every apply_lambda(...) in core.py passes something for `vars` -- never the constant None --
    and Query._reapply_filters, which replays remembered apply_lambda calls (stored without values), substitutes the current ones"""
    repo = ctx.repo
    n = 0
    for fn in repo.rule_funcs():
        if fn.mod.name != 'pony.orm.core': continue
        for c in calls_in(fn.node):
            pos = None
            if isinstance(c.func, ast.Attribute) and c.func.attr == 'apply_lambda': pos = 7
            elif isinstance(c.func, ast.Name) and c.func.id == 'translator_cls': pos = 5
            if pos is None or len(c.args) <= pos: continue
            n += 1
            a = c.args[pos]
            ok = not (isinstance(a, ast.Constant) and a.value is None)
            ctx.ob(prefix + '.translation-is-given-the-variable-values', fn, c, ok,
                   '' if ok else '%s translates with vars=None: a query whose translation folds a parameter value into the SQL (s[:n], getattr(x, name)) fails with TypeError when it '
                   'is translated again (e.g. after a filter that makes it optimizable)' % fn.qual, node=c)
    rf = repo.fn('pony.orm.core', 'Query._reapply_filters')
    ok = 'vars' in ''.join(rf.params) and any(isinstance(x, ast.Name) and x.id in rf.params[2:] and isinstance(x.ctx, ast.Load) for x in ast.walk(rf.node))
    ctx.ob(prefix + '.replayed-filters-receive-the-current-values', rf, rf.node, ok,
           '' if ok else 'Query._reapply_filters replays the remembered apply_lambda calls with the None that was stored in place of the values')
    ctx.floor(prefix, n, 3, 'translator constructions / apply_lambda calls in core.py')


def subst_copies(fn, key):
    """replace names in the key that are plain copies (`v2 = v1`, the only binding of v2) by their source -> (text, {v2: (v1, stmt)})"""
    import copy
    copies = {}
    for v in names_in(key):
        defs = [s for s in walk_no_nested(fn.node) if isinstance(s, ast.Assign) and any(dotted(t) == v for t in s.targets)]
        if len(defs) == 1 and isinstance(defs[0].value, ast.Name) and v not in fn.params:
            copies[v] = (defs[0].value.id, defs[0])
    k = copy.deepcopy(key)
    for n in ast.walk(k):
        if isinstance(n, ast.Name) and n.id in copies: n.id = copies[n.id][0]
    return norm(k), copies


def assigns(n, v):
    a = n.ast
    tg = []
    if n.kind == 'iter': tg = [a.target]
    elif n.kind == 'with': tg = [i.optional_vars for i in a.items if i.optional_vars is not None]
    elif isinstance(a, ast.Assign): tg = a.targets
    elif isinstance(a, (ast.AugAssign, ast.AnnAssign)): tg = [a.target]
    for t in tg:
        for x in ast.walk(t):
            if isinstance(x, ast.Name) and x.id == v and isinstance(x.ctx, ast.Store): return True
    return False


def pin_rule(ctx, P='C05-PIN'):
    repo, cg = ctx.repo, ctx.cg
    n = 0
    for fn in repo.rule_funcs():
        for c in calls_in(fn.node):
            if isinstance(c.func, ast.Name) and c.func.id == 'id' and len(c.args) == 1:
                a = c.args[0]
                if isinstance(a, ast.Attribute) and a.attr in ('__code__', 'f_code', 'gi_code'):
                    n += 1
                    owner = a.value
                    while isinstance(owner, ast.Attribute) and owner.attr in ('gi_frame',): owner = owner.value
                    otxt = norm(owner)
                    pins = [x for x in calls_in(fn.node) if isinstance(x.func, ast.Name) and x.func.id in ('decompile', 'get_lambda_args')
                            and x.args and norm(x.args[0]) == otxt]
                    qual = fn.qual
                    if not pins and qual in PIN_EXCEPTIONS:
                        ctx.exception(P, qual, PIN_EXCEPTIONS[qual])
                        ctx.ob(P + '.id-of-code-object-is-pinned', fn, c, True, 'excepted: ' + PIN_EXCEPTIONS[qual], node=c, nontrivial=False); continue
                    ctx.ob(P + '.id-of-code-object-is-pinned', fn, c, bool(pins),
                           '' if pins else 'cache key id(%s) is built but %s is not passed to decompile()/get_lambda_args() in this function: '
                           'nothing keeps the code object alive, and after it is collected another lambda can get the same id and be served '
                           'this one\'s translation' % (norm(a), otxt), node=c)
    ctx.floor(P, n, 4, 'id(<code object>) keys')
    gid = repo.fn('pony.utils.utils', 'get_codeobject_id')
    g = cg.cfg(gid)
    stores = [x for x in g.nodes if x.kind == 'stmt' and isinstance(x.ast, ast.Assign) and any(
        isinstance(t, ast.Subscript) and dotted(t.value) == 'codeobjects' for t in x.ast.targets) and dotted(x.ast.value) == gid.params[0]]
    tests = {t.id for t in g.nodes if t.kind == 'test' and 'not in codeobjects' in norm(t.ast)}
    rr = g.reach([g.entry], avoid=stores, edge_ok=lambda x, y, lab: not (x in tests and lab == 'F'))
    ok = bool(stores) and g.exit.id not in rr
    ctx.ob(P + '.get_codeobject_id-stores-the-object', gid, stores[0].ast if stores else gid.node, ok,
           '' if ok else 'get_codeobject_id can return an id without keeping a reference to the code object')
    pin_store_strong(ctx, P)
    dec = repo.fn('pony.orm.decompiling', 'decompile')
    ks = [s for s in walk_no_nested(dec.node) if isinstance(s, ast.Assign) and any(dotted(t) == 'key' for t in s.targets)]
    ok = bool(ks) and all(norm(s.value).startswith('get_codeobject_id(') for s in ks)
    ctx.ob(P + '.ast_cache-keyed-by-pinned-id', dec, ks[0] if ks else dec.node, ok, '' if ok else 'decompile() keys ast_cache by %s' % [norm(s.value) for s in ks])


def pin_store_strong(ctx, prefix='C05-PIN'):
    """the table get_codeobject_id stores into really pins: it is an ordinary dict for the whole life of the process (a weak
    container, or any function that removes entries, lets a code object die while its id is still a key of five caches)."""
    repo = ctx.repo
    m = repo.mod('pony.utils.utils')
    binds = [s for s in m.tree.body if isinstance(s, (ast.Assign, ast.AnnAssign)) and any(dotted(t) == 'codeobjects' for t in (s.targets if isinstance(s, ast.Assign) else [s.target]))]
    ctx.need(bool(binds), prefix + ': module-level table `codeobjects` not found in pony/utils/utils.py')
    gid = repo.fn('pony.utils.utils', 'get_codeobject_id')
    for b in binds:
        v = b.value
        ok = (isinstance(v, ast.Dict) and not v.keys) or (isinstance(v, ast.Call) and dotted(v.func) in ('dict', 'builtins.dict') and not v.args and not v.keywords)
        ctx.ob(prefix + '.pin-table-holds-strong-references', gid, b, ok, '' if ok else 'the table that is supposed to keep decompiled code objects alive is bound to '
               '`%s`, not a plain dict: a code object can be collected while its id() is still a key of ast_cache and of the translator caches, and the next '
               'lambda allocated at that address is served the old one\'s tree' % norm(v), node=b)
    removers = []
    for fn in repo.rule_funcs():
        for x in walk_no_nested(fn.node):
            hit = None
            if isinstance(x, ast.Delete) and any(isinstance(t, ast.Subscript) and dotted(t.value) in ('codeobjects', 'utils.codeobjects') for t in x.targets): hit = x
            if isinstance(x, ast.Call) and isinstance(x.func, ast.Attribute) and x.func.attr in ('pop', 'popitem', 'clear') and dotted(x.func.value) in ('codeobjects', 'utils.codeobjects'): hit = x
            if isinstance(x, (ast.Assign, ast.AugAssign)) and fn is not gid and any(dotted(t) == 'codeobjects' for t in (x.targets if isinstance(x, ast.Assign) else [x.target])) \
               and any(isinstance(g, ast.Global) and 'codeobjects' in g.names for g in walk_no_nested(fn.node)): hit = x
            if hit is not None: removers.append((fn, hit))
    for fn, hit in removers:
        ctx.ob(prefix + '.pin-table-never-shrinks', fn, hit, False, 'entries of the pin table are removed here: the ids stay keys of the caches built on them', node=hit)
    if not removers:
        ctx.ob(prefix + '.pin-table-never-shrinks', gid, gid.node, True, '')


def fixed_rule(ctx, prefix='C05-FIXED'):
    repo, cg = ctx.repo, ctx.cg
    ST = 'pony.orm.sqltranslation'
    mod = repo.mod(ST)
    n = 0
    for fn in [f for f in repo.rule_funcs() if f.mod is mod]:
        reads = [x for x in walk_no_nested(fn.node) if isinstance(x, ast.Subscript) and isinstance(x.ctx, ast.Load)
                 and isinstance(x.value, ast.Attribute) and x.value.attr == 'vars']
        # stores into <translator>.fixed_param_values, directly or through a local alias of that dict (`fixed = root.fixed_param_values`)
        from ..q import alias_map
        am = {}
        sc = fn
        while sc is not None:
            for k_, v_ in alias_map(sc.node).items(): am.setdefault(k_, v_)
            sc = sc.parent
        def fpv_owner(x):
            """text of the translator whose fixed_param_values the subscript `x` addresses, or None"""
            if isinstance(x.value, ast.Attribute) and x.value.attr == 'fixed_param_values': return x.value.value
            if isinstance(x.value, ast.Name) and am.get(x.value.id, '').endswith('.fixed_param_values'):
                return ast.parse(am[x.value.id][:-len('.fixed_param_values')], mode='eval').body
            return None
        stores = [x for x in walk_no_nested(fn.node) if isinstance(x, ast.Subscript) and isinstance(x.ctx, ast.Store) and fpv_owner(x) is not None]
        if not reads and not stores: continue
        g = cg.cfg(fn)
        # enclosing function provides the bindings of captured names
        scope = fn
        for r in reads + stores:
            n += 1
            recv = fpv_owner(r) if r in stores else r.value.value
            ok, why = is_root_translator(scope, recv)
            ctx.ob(prefix + '.value-dependent-translation-uses-root-translator', fn, r, ok,
                   '' if ok else '%s is not the root translator (%s): inside a subquery the recorded value lands on a sub-translator that '
                   'Query._get_translator never compares, so the SQL cached for the first value is reused for every later value' % (norm(recv), why), node=r)
        for r in reads:
            rn = cfg_node_of(g, r)
            sn = [x for s in stores if norm(fpv_owner(s)) == norm(r.value.value) and norm(s.slice) == norm(r.slice) for x in cfg_node_of(g, s)]
            ok = bool(sn) and all(g.must_pass_after(x, sn, exits=[g.exit]) for x in rn)
            ctx.ob(prefix + '.value-read-is-recorded', fn, r, ok,
                   '' if ok else 'the concrete value %s is used for translation but not recorded in fixed_param_values[%s] on every path' % (norm(r), norm(r.slice)), node=r)
    ctx.floor(prefix, n, 4, 'value-dependent translation sites')
    gt = repo.fn('pony.orm.core', 'Query._get_translator')
    g = cg.cfg(gt)
    loops = [x for x in g.nodes if x.kind == 'iter' and 'fixed_param_values' in norm(x.ast.iter)]
    ok = bool(loops)
    detail = '' if ok else '_get_translator does not iterate fixed_param_values'
    stale_attrs = set()
    for t in g.nodes:
        if t.kind == 'test':
            for a in ast.walk(t.ast):
                if isinstance(a, ast.Attribute) and dotted(a.value) == 'translator' and a.attr not in ('func_extractors_map',):
                    ts = [y for y, lab in g.succ[t.id] if lab == 'T']
                    stale_attrs.add(a.attr)
    for l in loops:
        tests = [t for t in g.nodes if t.kind == 'test' and isinstance(t.ast, ast.Compare) and isinstance(t.ast.ops[0], ast.NotEq) and t.lineno > l.lineno]
        if not tests: ok = False; detail = 'recorded values are not compared with the new ones'
        for t in tests:
            ts = [y for y, lab in g.succ[t.id] if lab == 'T']
            rets = [x for x in g.nodes if x.kind == 'stmt' and isinstance(x.ast, ast.Return) and norm(x.ast.value).startswith('(None,')]
            if not g.must_pass_after(t, rets, exits=[g.exit]) and False: pass
            r2 = g.reach(ts, avoid=rets)
            if g.exit.id in r2: ok = False; detail = 'a changed fixed parameter value does not discard the cached translator'
    ctx.ob(prefix + '.cached-translator-revalidated', gt, loops[0].ast if loops else gt.node, ok, detail)
    stale_attrs.add('fixed_param_values')
    stale_attrs.discard('filter_num')
    # key of the constructed-SQL cache
    # attributes updated together (B.update(e) next to A.update(e) everywhere A is updated)
    cover = {a: {a} for a in stale_attrs}
    for a in stale_attrs:
        sites = []
        for f in repo.rule_funcs():
            for body in bodies(f.node):
                for s in body:
                    if is_update_of(s, a): sites.append((body, s))
        if sites:
            cands = None
            for body, s in sites:
                arg = norm(s.value.args[0])
                here = {x.value.func.value.attr for x in body if isinstance(x, ast.Expr) and isinstance(x.value, ast.Call)
                        and isinstance(x.value.func, ast.Attribute) and x.value.func.attr == 'update' and isinstance(x.value.func.value, ast.Attribute)
                        and x.value.args and norm(x.value.args[0]) == arg}
                cands = here if cands is None else (cands & here)
            cover[a] |= (cands or set())
    # every function that files SQL text in the constructed-SQL cache (SELECT and bulk DELETE)
    users = [f for f in repo.rule_funcs() if f.mod.name == 'pony.orm.core' and any(d == '_constructed_sql_cache' or d.endswith('._constructed_sql_cache') for d, _k, _n in cache_accesses(f)[1])]
    ctx.need(any(f.qual == 'Query._construct_sql_and_arguments' for f in users), 'C05: Query._construct_sql_and_arguments does not store into _constructed_sql_cache')
    for cs in users:
        keycalls = [s for s in walk_no_nested(cs.node) if isinstance(s, ast.Assign) and any(dotted(t) == 'sql_key' for t in s.targets)]
        ctx.need(keycalls and isinstance(keycalls[0].value, ast.Call), 'C05: sql_key construction not found in %s' % cs.qual)
        keytxt = norm(keycalls[0].value, limit=10000)
        key_attrs = {a.attr for a in ast.walk(keycalls[0].value) if isinstance(a, ast.Attribute)}
        for a in sorted(stale_attrs):
            ok = bool(cover[a] & key_attrs)
            ctx.ob(prefix + '.staleness-inputs-are-in-sql-key', cs, keycalls[0], ok,
                   '' if ok else '_get_translator rebuilds the translator when translator.%s changes, but the key under which %s files its SQL in _constructed_sql_cache '
                   'contains none of %s: the rebuilt translator maps to the same key and reuses SQL generated for the old %s' % (a, cs.qual, sorted(cover[a]), a),
                   expected='sql_key includes translator.%s (or an attribute updated together with it)' % a).key += '::' + a
    ctx.floor(prefix, len(users), 2, 'functions that store into _constructed_sql_cache')
    cs = repo.fn('pony.orm.core', 'Query._construct_sql_and_arguments')
    keycalls = [s for s in walk_no_nested(cs.node) if isinstance(s, ast.Assign) and any(dotted(t) == 'sql_key' for t in s.targets)]
    keytxt = norm(keycalls[0].value, limit=10000)
    cc = [c for c in calls_in(cs.node) if isinstance(c.func, ast.Attribute) and c.func.attr == 'construct_sql_ast']
    ctx.need(cc, 'C05: construct_sql_ast call not found')
    for a in list(cc[0].args) + [k.value for k in cc[0].keywords]:
        ok = norm(a) in keytxt
        ctx.ob(prefix + '.sql-key-contains-construct-args', cs, a, ok,
               '' if ok else 'construct_sql_ast(... %s ...) shapes the SQL but %s is not part of sql_key' % (norm(a), norm(a)), node=a)


def proj_rule(ctx):
    repo = ctx.repo
    KEYONLY = ('frozenset', 'tuple', 'sorted', 'set', 'list')
    n = 0
    for fn in repo.rule_funcs():
        looks, stores = cache_accesses(fn)
        if not looks or not stores: continue
        stmts = list(walk_no_nested(fn.node))
        for p_ in fn.params:
            valued = [a for a in stmts if (isinstance(a, ast.Call) and isinstance(a.func, ast.Attribute) and a.func.attr in ('items', 'values', 'get') and dotted(a.func.value) == p_)
                      or (isinstance(a, ast.Subscript) and dotted(a.value) == p_ and isinstance(a.ctx, ast.Load))]
            if not valued: continue
            for d, k2, snode in stores:
                # expressions the key is made of (follow local names two levels)
                exprs = [k2]; seen = set()
                for _ in range(3):
                    for e in list(exprs):
                        for nm in [x.id for x in ast.walk(e) if isinstance(x, ast.Name)]:
                            if nm in seen or nm == p_: continue
                            seen.add(nm)
                            exprs += [st.value for st in stmts if isinstance(st, ast.Assign) and any(dotted(t) == nm for t in st.targets)]
                par = {}
                for e in exprs:
                    for x in ast.walk(e):
                        for ch in ast.iter_child_nodes(x): par[id(ch)] = x
                uses = [x for e in exprs for x in ast.walk(e) if isinstance(x, ast.Name) and x.id == p_]
                if not uses: continue
                n += 1
                def keeps_values(u):
                    q = par.get(id(u))
                    if isinstance(q, ast.Attribute) and q.attr == 'items': return True
                    if isinstance(q, ast.Attribute) and q.attr in ('keys',): return False
                    if isinstance(q, ast.Call) and dotted(q.func) in KEYONLY and u in q.args: return False
                    if isinstance(q, (ast.comprehension,)) and q.iter is u: return False
                    return True
                ok = any(keeps_values(u) for u in uses)
                ctx.ob('C05-PROJ.key-keeps-the-values-the-result-depends-on', fn, snode, ok,
                       '' if ok else '%s computes the cached value from the values of `%s` (%s) but the key of %s contains `%s` only through a projection that keeps '
                       'its keys: two calls whose `%s` have the same keys and different values share one cache entry, the second is served the first one\'s '
                       'result' % (fn.qual, p_, norm(valued[0]), d, p_, p_), node=snode, expected='tuple(sorted(%s.items())) or the mapping itself in the key' % p_)
    ctx.floor('C05-PROJ', n, 1, 'caches keyed by a mapping parameter whose values shape the result')


def shape_rule(ctx):
    repo = ctx.repo
    n = 0
    for fn in repo.rule_funcs():
        if fn.mod.name != 'pony.orm.core': continue
        for c in calls_in(fn.node):
            if not (isinstance(c.func, ast.Name) and c.func.id in ('Query', 'create_extractors') and len(c.args) >= 2): continue
            key, tree = c.args[0], c.args[1]
            if not isinstance(tree, ast.Name): continue
            tdefs = [st.value for st in walk_no_nested(fn.node) if isinstance(st, ast.Assign) and any(dotted(t) == tree.id for t in st.targets)]
            constructed = [v for v in tdefs if isinstance(v, ast.Call) and (dotted(v.func) or '').startswith('ast.')]
            if not constructed: continue
            n += 1
            kdefs = [st.value for st in walk_no_nested(fn.node) if isinstance(st, ast.Assign) and isinstance(key, ast.Name) and any(dotted(t) == key.id for t in st.targets)]
            last = kdefs[-1] if kdefs else key
            ok = isinstance(last, ast.Tuple) and len(last.elts) >= 2 and any(isinstance(e, ast.Constant) for e in last.elts)
            ctx.ob('C05-SHAPE.constructed-tree-has-its-own-key', fn, c, ok,
                   '' if ok else '%s passes a tree it built itself (`%s`) under the key `%s`, the key of the tree it wrapped: filter()/where()/order_by() store the bare '
                   'lambda body under the same key in extractors_cache, so whichever use comes second is served the other\'s tree (AttributeError / KeyError, or a '
                   'wrong translation)' % (fn.qual, norm(constructed[-1])[:80], norm(last)), node=c, expected='a key distinct from the inner tree\'s key, e.g. (code_key, <marker>)')
    ctx.floor('C05-SHAPE', n, 1, 'Query/create_extractors call sites passing a constructed tree')


def embedded_rule(ctx, prefix='C05-FIXED'):
    """a query used inside another query is translated into the outer translator as a deep copy of its own translator: the parameter
    values that copy has baked in must become staleness inputs of the OUTER cached translator as well"""
    repo = ctx.repo
    n = 0
    for fn in repo.rule_funcs():
        if fn.mod.name != 'pony.orm.sqltranslation': continue
        for st in walk_no_nested(fn.node):
            if not (isinstance(st, ast.Assign) and isinstance(st.value, ast.Call) and isinstance(st.value.func, ast.Attribute) and st.value.func.attr == 'deepcopy'
                    and norm(st.value.func.value).endswith('.translator') and len(st.targets) == 1 and isinstance(st.targets[0], ast.Name)): continue
            n += 1
            v = st.targets[0].id
            ups = [c for c in calls_in(fn.node) if isinstance(c.func, ast.Attribute) and c.func.attr == 'update' and norm(c.func.value).endswith('root_translator.fixed_param_values')
                   and c.args and norm(c.args[0]) == v + '.fixed_param_values']
            ok = bool(ups)
            ctx.ob(prefix + '.embedded-query-fixed-values-propagate', fn, st, ok,
                   '' if ok else 'the translator of an embedded query is copied into this translation (`%s`) but its fixed_param_values are not added to the root '
                   'translator\'s: when the embedded query is later built with another value (another getattr name, another string index) the cached outer '
                   'translation still contains the SQL of the first value' % norm(st), node=st,
                   expected='translator.root_translator.fixed_param_values.update(%s.fixed_param_values)' % v)
    ctx.floor(prefix, n, 2, 'embedded-query translator copies')


def bodies(node):
    for fld in ('body', 'orelse', 'finalbody'):
        b = getattr(node, fld, None)
        if isinstance(b, list) and b and isinstance(b[0], ast.stmt):
            yield b
            for s in b:
                if isinstance(s, (ast.FunctionDef, ast.AsyncFunctionDef, ast.ClassDef)): continue
                yield from bodies(s)
    for h in getattr(node, 'handlers', []) or []: yield from bodies(h)


def is_update_of(s, attr):
    return isinstance(s, ast.Expr) and isinstance(s.value, ast.Call) and isinstance(s.value.func, ast.Attribute) and s.value.func.attr == 'update' \
        and isinstance(s.value.func.value, ast.Attribute) and s.value.func.value.attr == attr and s.value.args


def is_root_translator(fn, recv):
    """recv denotes the root translator: `X.root_translator`, or a name bound (here or in an enclosing function) only to such"""
    if isinstance(recv, ast.Attribute): return (recv.attr == 'root_translator', 'attribute .%s' % recv.attr)
    if isinstance(recv, ast.Name):
        f = fn
        while f is not None:
            bs = bindings(f, recv.id)
            if bs:
                ok = all(isinstance(b, ast.Attribute) and b.attr == 'root_translator' for b in bs)
                return ok, 'bound to %s' % [norm(b) for b in bs]
            f = f.parent
        return False, 'binding not found'
    return False, 'unreadable receiver'


def bindings(fn, name):
    return [s.value for s in walk_no_nested(fn.node) if isinstance(s, ast.Assign) and any(dotted(t) == name for t in s.targets)]


def alias_rule(ctx, P='C05-ALIAS'):
    repo, cg = ctx.repo, ctx.cg
    import operator
    inplace = {n for n in dir(operator) if n.startswith('__i') and ('__' + n[3:]) in dir(operator)}
    muts = ((set(dir(list)) - set(dir(tuple))) | (set(dir(list)) & inplace)) - {'copy', '__reversed__', '__class_getitem__', '__init__', '__hash__'}
    QR = repo.cls('pony.orm.core', 'QueryResult')
    # the list QueryResult holds is the one stored in the session result cache
    af = repo.fn('pony.orm.core', 'Query._actual_fetch')
    shared = any(isinstance(s, ast.Assign) and any(isinstance(t, ast.Subscript) and (dotted(t.value) or '').endswith('.query_results') for t in s.targets)
                 and dotted(s.value) == 'items' for s in walk_no_nested(af.node)) and \
        any(isinstance(s, ast.Return) and dotted(s.value) == 'items' for s in walk_no_nested(af.node))
    ctx.need(shared, P + ': _actual_fetch no longer returns the cached list itself (rule needs review)')
    n = 0
    for name, f in QR.methods.items():
        me = f.params[0] if f.params else 'self'
        holders = {me + '._items', me + '._get_items()'}
        local = {dotted(t) for s in walk_no_nested(f.node) if isinstance(s, ast.Assign) and norm(s.value) in holders for t in s.targets}
        for c in calls_in(f.node):
            bad = None
            if isinstance(c.func, ast.Attribute) and c.func.attr in muts and (norm(c.func.value) in holders or dotted(c.func.value) in local):
                bad = '%s.%s()' % (norm(c.func.value), c.func.attr)
            if isinstance(c.func, ast.Name) and c.func.id in ('shuffle',) and c.args and (norm(c.args[0]) in holders or dotted(c.args[0]) in local):
                bad = 'shuffle(%s)' % norm(c.args[0])
            if bad:
                n += 1
                ctx.ob(P + '.cached-result-list-not-mutated-in-place', f, c, False,
                       '%s mutates the list object that is also stored in cache.query_results: the same query repeated in this session is '
                       'answered with the mutated list' % bad, node=c, expected='work on a copy of the cached list')
        n += 1
        if not any(o.fn == f.qual and o.rule.startswith(P) and not o.ok for o in ctx.obs):
            ctx.ob(P + '.cached-result-list-not-mutated-in-place', f, f.node, True, nontrivial=False)
    ctx.floor(P, n, 30, 'QueryResult methods examined')


MUTANTS = [
    dict(id='C05-vars', file='pony/orm/core.py', fn='Query._process_lambda', old="                            prev_translator.extractors, new_vars, prev_translator.vartypes.copy(),", new="                            prev_translator.extractors, None, prev_translator.vartypes.copy(),", expect='C05-FIXED.translation-is-given'),
    dict(id='C05-inp1', file='pony/orm/core.py', fn='Query._construct_sql_and_arguments', old='aggr_func=(aggr_func_name, aggr_func_distinct, sep),', new='aggr_func=(aggr_func_name, aggr_func_distinct, bool(sep)),', expect='C05-KEY.key-carries'),
    dict(id='C05-inp2', file='pony/orm/core.py', fn='Query._construct_sql_and_arguments', old='            limit=limit,\n', new='            limit=limit is not None,\n', expect='C05-KEY.key-carries'),
    dict(id='C05-p1', file='pony/orm/core.py', fn='EntityMeta._construct_sql_', old="        sorted_query_attrs = tuple(sorted(query_attrs.items()))\n        query_key = sorted_query_attrs, order_by_pk", new="        sorted_query_attrs = tuple(sorted(query_attrs.items()))\n        query_key = frozenset(query_attrs), order_by_pk", expect='C05-PROJ'),
    dict(id='C05-sh1', file='pony/orm/core.py', fn='EntityMeta._query_from_args_', old="        code_key = code_key, 'query_from_lambda'\n", new="", expect='C05-SHAPE'),
    dict(id='C05-e1', file='pony/orm/sqltranslation.py', fn='SQLTranslator.dispatch_external', old="            translator.root_translator.fixed_param_values.update(prev_translator.fixed_param_values)\n", new="", expect='C05-FIXED.embedded'),
    dict(id='C05-e2', file='pony/orm/core.py', fn='Query.delete', old="        sql_key = HashableDict(query._key, vartypes=HashableDict(translator.vartypes),\n                               fixed_param_values=HashableDict(translator.fixed_param_values), sql_command='DELETE')", new="        sql_key = HashableDict(query._key, sql_command='DELETE')", expect='C05-FIXED.staleness'),
    dict(id='C05-f1', file='pony/orm/core.py', fn='SessionCache.flush', old="                    cache.query_results.clear()\n                    modified_m2m = cache._calc_modified_m2m()", new="                    modified_m2m = cache._calc_modified_m2m()", expect='C05-FRESH'),
    dict(id='C05-m1', file='pony/orm/core.py', fn='adapt_sql', old='    adapted_sql_cache[(original_sql, paramstyle)] = result', new='    adapted_sql_cache[(sql, paramstyle)] = result', expect='C05-KEY'),
    dict(id='C05-m2', file='pony/orm/core.py', fn='Query._construct_sql_and_arguments', old='            vartypes=HashableDict(query._translator.vartypes),\n', new='', expect='C05-FIXED.staleness'),
    dict(id='C05-m3', file='pony/orm/core.py', fn='Query._construct_sql_and_arguments', old='            fixed_param_values=HashableDict(translator.fixed_param_values),\n', new='', expect='C05-FIXED.staleness'),
    dict(id='C05-m4', file='pony/orm/core.py', fn='Query._construct_sql_and_arguments', old='            nowait=query._nowait,\n', new='', expect='C05-FIXED.sql-key-contains'),
    dict(id='C05-m5', file='pony/orm/sqltranslation.py', fn='FuncGetattrMonad.call', old='translator = monad.translator.root_translator', new='translator = monad.translator', expect='C05-FIXED.value-dependent'),
    dict(id='C05-m6', file='pony/orm/sqltranslation.py', fn='FuncGetattrMonad.call', old='                translator.fixed_param_values[key] = attrname\n', new='', expect='C05-FIXED.value-read-is-recorded'),
    dict(id='C05-m7', file='pony/utils/utils.py', fn='get_codeobject_id', old='        codeobjects[codeobject_id] = codeobject', new='        pass', expect='C05-PIN.get_codeobject_id'),
    dict(id='C05-m7b', file='pony/utils/utils.py', fn=None, old='codeobjects = {}', new='import weakref\ncodeobjects = weakref.WeakValueDictionary()', expect='C05-PIN.pin-table-holds-strong'),
    dict(id='C05-m8', file='pony/orm/decompiling.py', fn='decompile', old='key = get_codeobject_id(codeobject)', new='key = id(codeobject)', expect='C05-PIN.ast_cache'),
    dict(id='C05-m9', file='pony/orm/core.py', fn='Query._get_translator', old='                if val != new_vars[key]:\n                    database._translator_cache.pop(query_key, None)  # another thread may have removed it already\n                    return None, vars.copy()', new='                pass', expect='C05-FIXED.cached-translator'),
    dict(id='C05-m10', file='pony/orm/core.py', fn='EntityMeta._get_from_identity_map_', old='        cache = entity._database_._get_cache()', new='        cache = entity._database_._get_cache()  # unchanged', benign=True),
]
