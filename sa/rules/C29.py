"""C29  JSON and array operations in queries match Python semantics."""
import ast, json, re
from ..loader import dotted, walk_no_nested, norm, head, calls_in

try: from re import _parser as sre_parse          # 3.11+
except ImportError: import sre_parse               # pragma: no cover

EXPLANATION = """
Static clauses decided (necessary conditions of C29):
 PATH     writer/reader agreement on JSON path text: every segment form SQLBuilder.eval_json_path can emit ([int] incl.
          negative, .identifier, ."quoted key" with the writer's escaping of the quote character) is accepted by the path reader
          of the SQLite provider (json_path_re, analysed through CPython's regex parser): a quoted-key alternative whose
          character class excludes the quote character cannot accept a key in which the writer escaped that character, so such a
          key silently resolves to NULL.
 FALSY    the textual lists of falsy JSON encodings in JSON_NONZERO agree across the builders that compare text (SQLite,
          MySQL, Oracle) and contain the encoding json.dumps gives to every Python-falsy JSON value (None, False, 0, 0.0, -0.0,
          '', [], {}); PostgreSQL compares jsonb values and needs one numeric zero only.
 PARAMKEY a JSON path that contains a parameter becomes a composite parameter; parameters are de-duplicated per statement by
          their key, so the key must distinguish paths that differ only in a literal component: every non-parameter item
          contributes its value to the key (only slices, which are not hashable, are replaced by a marker).
 NEGCONST membership tests that are decided at translation time (`[] in arr`, an empty list) produce a constant-truth SQL condition; in
          every `contains(..., not_in)` translator method the constant chosen for `not in` is the negation of the one chosen for `in`
          (the two are evaluated for not_in = True / False: EQ/NE of literal VALUEs).  `x not in arr` must never be constant-true
          together with `x in arr`.
 DEFAULTS the JSON operations a dialect does not implement raise (SQLBuilder.JSON_* defaults throw NotImplementedError).
"""
NOT_DECIDED = "semantics of each JSON/array operator on each engine; negative array indexes in SQLite JSON1 paths"


def run(ctx):
    repo, cg = ctx.repo, ctx.cg
    ev = repo.fn('pony.orm.sqlbuilding', 'SQLBuilder.eval_json_path')
    # ---- writer: segment templates
    templates = [c.value for c in ast.walk(ev.node) if isinstance(c, ast.Constant) and isinstance(c.value, str) and ('%' in c.value or c.value in ('.*', '[*]', '.'))]
    quoted = None
    for n in ast.walk(ev.node):
        if isinstance(n, ast.BinOp) and isinstance(n.op, ast.Mod) and isinstance(n.left, ast.Constant) and isinstance(n.left.value, str) and '"%s"' in n.left.value:
            r = n.right
            if isinstance(r, ast.Call) and isinstance(r.func, ast.Attribute) and r.func.attr == 'replace' and len(r.args) == 2 and all(isinstance(a, ast.Constant) for a in r.args):
                quoted = (n.left.value, r.args[0].value, r.args[1].value)
    ctx.need(quoted is not None, 'C29-PATH: quoted-key template of eval_json_path not recognised')
    tmpl, Q, esc = quoted
    ctx.need('[%d]' in templates, 'C29-PATH: integer segment template of eval_json_path not recognised')
    # ---- reader: regex constant
    sq = repo.mod('pony.orm.dbproviders.sqlite')
    node = sq.toplevel.get('json_path_re')
    ctx.need(isinstance(node, ast.Assign) and isinstance(node.value, ast.Call) and node.value.args and isinstance(node.value.args[0], ast.Constant),
             'C29-PATH: json_path_re is not a literal re.compile(...)')
    pattern = node.value.args[0].value
    rx = re.compile(pattern, re.UNICODE)
    where = 'pony/orm/dbproviders/sqlite.py::<module>'
    forms = [('integer index', '[7]'), ('negative index', '[-3]'), ('identifier key', '.abc_1'), ('quoted key', tmpl % 'a b-c'),
             ('quoted key containing the quote character', tmpl % ('a%sb' % Q).replace(Q, esc))]
    for what, sample in forms:
        m = rx.fullmatch(sample)
        ok = m is not None
        detail = ''
        if not ok:
            detail = 'eval_json_path can emit the segment %s (%s) but json_path_re = %r does not accept it: _parse_path returns None and the path ' \
                     'silently resolves to NULL' % (sample, what, pattern)
            if what.endswith('quote character'):
                detail += '; ' + quote_class_reason(pattern, Q)
        ob = ctx.ob('C29-PATH.reader-accepts-every-writer-segment', where, 'json_path_re vs eval_json_path: ' + what, ok, detail, node=node,
                    expected='an alternative that accepts the writer\'s escape sequence %r inside quotes' % esc)
    # the reader must undo the writer's escaping when it accepts it
    pp = repo.fn('pony.orm.dbproviders.sqlite', '_parse_path')
    if rx.fullmatch(tmpl % ('a%sb' % Q).replace(Q, esc)):
        unesc = any(isinstance(c.func, ast.Attribute) and c.func.attr == 'replace' and c.args and isinstance(c.args[0], ast.Constant) and c.args[0].value == esc for c in calls_in(pp.node))
        ctx.ob('C29-PATH.reader-undoes-writer-escaping', pp, pp.node, unesc, '' if unesc else '_parse_path accepts %r but does not turn it back into %r' % (esc, Q))
    # ---------------------------------------------------------------- FALSY
    want = {json.dumps(v) for v in (None, False, 0, 0.0, -0.0, '', [], {})}
    lists = {}
    for modn, qual, textual in (('pony.orm.dbproviders.sqlite', 'SQLiteBuilder.JSON_NONZERO', True), ('pony.orm.dbproviders.mysql', 'MySQLBuilder.JSON_NONZERO', True),
                                ('pony.orm.dbproviders.oracle', 'OraBuilder.JSON_NONZERO', True), ('pony.orm.dbproviders.postgres', 'PGSQLBuilder.JSON_NONZERO', False)):
        f = repo.fn(modn, qual)
        txt = ''.join(c.value for c in ast.walk(f.node) if isinstance(c, ast.Constant) and isinstance(c.value, str))
        m = re.search(r'NOT IN \((.*)\)', txt, re.S)
        ctx.need(m is not None, 'C29-FALSY: NOT IN list not found in %s' % qual)
        items = {x.strip().replace('::jsonb', '') for x in m.group(1).split(',')}
        items = {x[1:-1] if x.startswith("'") and x.endswith("'") else x for x in items}
        lists[qual] = items
        need = want if textual else (want - {'0.0', '-0.0'})
        missing = sorted(need - items)
        ctx.ob('C29-FALSY.list-covers-python-falsy-json-values', f, f.node, not missing,
               '' if not missing else '%s compares %s with the list %s, which lacks the encoding(s) %s of Python-falsy values: such documents are truthy in a query '
               'and falsy in Python' % (qual, 'JSON text' if textual else 'jsonb values', sorted(items), missing))
    textual = [v for k, v in lists.items() if 'PG' not in k]
    ok = all(v == textual[0] for v in textual)
    ctx.ob('C29-FALSY.textual-dialects-agree', where, 'JSON_NONZERO lists', ok, '' if ok else 'the falsy lists differ between dialects: %s' % {k: sorted(v) for k, v in lists.items()})
    # ---------------------------------------------------------------- PARAMKEY
    bj = repo.fn('pony.orm.sqlbuilding', 'SQLBuilder.build_json_path')
    pk = [s for s in walk_no_nested(bj.node) if isinstance(s, ast.Assign) and any(dotted(t) == 'paramkey' for t in s.targets)]
    ctx.need(len(pk) == 1, 'C29-PARAMKEY: paramkey assignment not found')
    v = pk[0].value
    ok = False; why = 'paramkey is not tuple(<expr> for item in items)'
    if isinstance(v, ast.Call) and dotted(v.func) == 'tuple' and v.args and isinstance(v.args[0], ast.GeneratorExp):
        elt = v.args[0].elt
        leaves = []
        def walk_ifexp(e):
            if isinstance(e, ast.IfExp): walk_ifexp(e.body); walk_ifexp(e.orelse)
            else: leaves.append(norm(e))
        walk_ifexp(elt)
        ok = 'item.paramkey' in leaves and 'item.value' in leaves
        why = 'the key is built from %s: two paths that differ only in a literal key/index collapse into one parameter and the second path returns the ' \
              'first path\'s value' % leaves
    ctx.ob('C29-PARAMKEY.composite-path-key-includes-literal-components', bj, pk[0], ok, '' if ok else why, expected='item.paramkey for parameters, item.value for literals')
    mp = repo.fn('pony.orm.sqlbuilding', 'SQLBuilder.make_param')
    # premise of the clause above (not a requirement of C29 in itself): make_param looks parameters up by paramkey in the builder's key table
    # (get / subscript / membership) and files new ones there; recorded as information, never as a violation
    from ..q import alias_map, deref
    am = alias_map(mp.node)
    def is_keys(e): return (deref(mp.node, e, am) or '').endswith('.keys') or dotted(e) == 'keys'
    looks = [x for x in ast.walk(mp.node) if (isinstance(x, ast.Call) and isinstance(x.func, ast.Attribute) and x.func.attr in ('get', 'setdefault') and is_keys(x.func.value) and x.args and norm(x.args[0]) == 'paramkey')
             or (isinstance(x, ast.Subscript) and isinstance(x.ctx, ast.Load) and is_keys(x.value) and norm(x.slice) == 'paramkey')
             or (isinstance(x, ast.Compare) and norm(x.left) == 'paramkey' and any(is_keys(c) for c in x.comparators))]
    ctx.ob('C29-PARAMKEY.parameters-deduplicated-by-key', mp, mp.node, True, 'de-duplication by paramkey present' if looks else 'make_param does not de-duplicate by paramkey: the key '
           'clause above is then moot', nontrivial=bool(looks))
    # ---------------------------------------------------------------- DEFAULTS
    SBc = repo.cls('pony.orm.sqlbuilding', 'SQLBuilder')
    n = 0
    for name, f in SBc.methods.items():
        if name.startswith('JSON_') or name.startswith('ARRAY_'):
            g = cg.cfg(f)
            body_is_throw = any(dotted(c.func) == 'throw' and c.args and dotted(c.args[0]) == 'NotImplementedError' for c in calls_in(f.node))
            if not body_is_throw: continue
            n += 1
            ok = g.exit.id not in g.reachable_nodes()
            ctx.ob('C29-DEFAULTS.unimplemented-operation-raises', f, f.node, ok, '' if ok else '%s default can return normally' % name)
    ctx.floor('C29-DEFAULTS', n, 11, 'default JSON/ARRAY builder methods that raise')
    # ---------------------------------------------------------------- NEGCONST
    def const_eval(e, env):
        if isinstance(e, ast.Constant): return e.value
        if isinstance(e, ast.Name) and e.id in env: return env[e.id]
        if isinstance(e, ast.IfExp):
            t = const_eval(e.test, env)
            return None if t is None else const_eval(e.body if t else e.orelse, env)
        if isinstance(e, ast.UnaryOp) and isinstance(e.op, ast.Not):
            v = const_eval(e.operand, env); return None if v is None else (not v)
        if isinstance(e, ast.BoolOp):
            vs = [const_eval(v, env) for v in e.values]
            if any(v is None for v in vs): return None
            return all(vs) if isinstance(e.op, ast.And) else any(vs)
        return None
    def truth(tpl, env):
        # ['EQ'|'NE', ['VALUE', a], ['VALUE', b]] with a, b constant under env
        if not (isinstance(tpl, ast.List) and len(tpl.elts) == 3): return None
        op = const_eval(tpl.elts[0], env)
        vals = []
        for x in tpl.elts[1:]:
            if not (isinstance(x, ast.List) and len(x.elts) == 2 and const_eval(x.elts[0], env) == 'VALUE'): return None
            v = const_eval(x.elts[1], env)
            if v is None: return None
            vals.append(v)
        if op == 'EQ': return vals[0] == vals[1]
        if op == 'NE': return vals[0] != vals[1]
        return None
    nneg = 0
    for fn in repo.rule_funcs():
        if fn.mod.name != 'pony.orm.sqltranslation' or fn.name != 'contains' or 'not_in' not in fn.params: continue
        res = {True: [], False: []}
        for flag in (True, False):
            env = {'not_in': flag}
            def walk(stmts):
                for st in stmts:
                    if isinstance(st, ast.Assign) and len(st.targets) == 1 and isinstance(st.targets[0], ast.Name):
                        v = const_eval(st.value, env)
                        if v is not None: env[st.targets[0].id] = v
                        else: env.pop(st.targets[0].id, None)
                    if isinstance(st, ast.If):
                        t = const_eval(st.test, env)
                        if t is None: walk(st.body); walk(st.orelse)
                        else: walk(st.body if t else st.orelse)
                        continue
                    if isinstance(st, (ast.For, ast.While, ast.With, ast.Try)):
                        walk(getattr(st, 'body', [])); continue
                    for tpl in [x for x in ast.walk(st) if isinstance(x, ast.List)]:
                        tv = truth(tpl, env)
                        if tv is not None: res[flag].append((tv, tpl))
            walk(fn.node.body)
        if not res[True] or not res[False]: continue      # the answer is a constant for only one polarity (e.g. the join form of `in`): nothing to compare
        nneg += 1
        tvals = {tv for tv, _ in res[True]}; fvals = {tv for tv, _ in res[False]}
        ok = bool(tvals) and bool(fvals) and not (tvals & fvals)
        node = (res[True] or res[False])[0][1]
        ctx.ob('C29-NEGCONST.constant-answer-of-not-in-negates-in', fn, node, ok,
               '' if ok else 'the constant condition produced for `not in` evaluates to %s, for `in` to %s: they are not each other\'s negation, so `[] not in arr` and `[] in arr` '
               'select the same rows' % (sorted(tvals), sorted(fvals)), node=node)
    ctx.floor('C29-NEGCONST', nneg, 1, 'contains() methods with translation-time constant answers')
    # ---------------------------------------------------------------- NULLTEXT
    # the pure-Python stand-ins for SQLite's JSON1 functions hand a JSON null / a missing key back as SQL NULL, and scalars as scalars: only
    # containers are re-serialised to text.  The guard in front of json.dumps(...) is evaluated on concrete sample values: true for [] {} [1] {'a': 1},
    # false for None, 1, 1.5, 'a', True (json_extract(...) of the real extension behaves that way; `d.info['v'] is None` relies on it)
    from ..q import concrete_eval, Unknown
    SAMPLES = [(None, False), (1, False), (1.5, False), ('a', False), (True, False), ([], True), ({}, True), ([1], True), ({'a': 1}, True)]
    nnt = 0
    for qual in ('py_json_extract',):
        f = repo.fn('pony.orm.dbproviders.sqlite', qual)
        for st in walk_no_nested(f.node):
            if not isinstance(st, ast.If): continue
            dumped = [c for b in st.body for c in ast.walk(b) if isinstance(c, ast.Call) and dotted(c.func) in ('json.dumps', 'dumps') and c.args and isinstance(c.args[0], ast.Name)]
            if not dumped: continue
            var = dumped[0].args[0].id
            nnt += 1
            wrong = []
            for v, want in SAMPLES:
                try: got = bool(concrete_eval(st.test, {var: v}))
                except Unknown: got = None
                if got is not want: wrong.append('%r -> %s' % (v, 'serialised' if got else 'unreadable guard' if got is None else 'kept'))
            ok = not wrong
            ctx.ob('C29-NULLTEXT.only-containers-are-serialised-to-text', f, st, ok,
                   '' if ok else '%s decides wrongly which results become JSON text: %s (a JSON null must stay SQL NULL: as the text \'null\' it is NOT NULL and casts to 0)' % (qual, '; '.join(wrong)),
                   node=st, expected='if type(result) in (list, dict): result = json.dumps(result)')
    ctx.floor('C29-NULLTEXT', nnt, 1, 'serialisation guards in the JSON1 stand-ins')
    # ---------------------------------------------------------------- WRAP
    # the builder hands py_array_index the absolute position it computed (length - k for arr[-k]); a negative position means "before the first
    # item" and must give NULL like any other index out of range -- Python's own list indexing would wrap it around to the end again.
    # Scenario: index < 0 -- the subscript on the array is unreachable.
    from ..typestate import scenario_edges
    pai = repo.fn('pony.orm.dbproviders.sqlite', 'py_array_index'); g = cg.cfg(pai)
    arrp, idxp = pai.params[0], pai.params[1]
    def neg_atom(text, node):
        t = text.replace(' ', '')
        if t == idxp + '<0': return True
        if t == idxp + '>=0' or t == '0<=' + idxp: return False
        if isinstance(node, ast.Call) and dotted(node.func) == 'isinstance' and dotted(node.args[0]) == idxp: return True
        if t in (idxp + 'isNone',): return False
        if t in (idxp + 'isnotNone',): return True
        return None
    live = g.reach([g.entry], edge_ok=scenario_edges(g, pai.node, neg_atom, resolve=False))
    subs = [x for x in g.nodes if x.kind == 'stmt' and x.ast is not None and any(isinstance(s_, ast.Subscript) and dotted(s_.value) == arrp and dotted(s_.slice) == idxp for s_ in ast.walk(x.ast))]
    ctx.need(subs, 'C29-WRAP: py_array_index no longer subscripts the array')
    ok = not any(x.id in live for x in subs)
    ctx.ob('C29-WRAP.negative-position-does-not-wrap-around', pai, subs[0].ast, ok,
           '' if ok else 'py_array_index evaluates array[index] for a negative computed position: arr[-2] on a one-element array (position 1 - 2 = -1) returns the last item '
           'instead of NULL', node=subs[0].ast)
    # ---------------------------------------------------------------- STEP
    # a path step that does not apply to the value it meets (a key on a list, an index on a dict, anything on a scalar) means "no such item" -> NULL,
    # as json_extract answers; _traverse therefore treats KeyError, IndexError *and* TypeError (list['key']) of the subscript as missing.  Otherwise
    # one document of a different shape makes `'k' in d.data['c']` fail for the whole table (py_json_contains is used even when JSON1 is available)
    tv = repo.fn('pony.orm.dbproviders.sqlite', '_traverse')
    tries = [st for st in walk_no_nested(tv.node) if isinstance(st, ast.Try) and any(isinstance(x, ast.Subscript) and isinstance(x.ctx, ast.Load) for b in st.body for x in ast.walk(b))]
    ctx.need(tries, 'C29-STEP: the guarded subscript of _traverse was not found')
    for st in tries:
        caught = set()
        for h in st.handlers:
            if h.type is None: caught |= {'KeyError', 'IndexError', 'TypeError'}
            else:
                for e in (h.type.elts if isinstance(h.type, ast.Tuple) else [h.type]):
                    nme = dotted(e)
                    caught |= {'KeyError', 'IndexError'} if nme == 'LookupError' else {'KeyError', 'IndexError', 'TypeError'} if nme in ('Exception', 'BaseException') else {nme}
        miss = sorted({'KeyError', 'IndexError', 'TypeError'} - caught)
        ctx.ob('C29-STEP.inapplicable-path-step-means-missing', tv, st, not miss,
               '' if not miss else '_traverse lets %s escape from the subscript: a document whose value at that step has another shape (a list where a key is applied) aborts the '
               'whole query with "user-defined function raised exception" instead of yielding NULL for that row' % ', '.join(miss), node=st)
    # `[10, 10, 20] in e.array` asks whether every item of the probe occurs in the array (TrackedArray.__contains__ / set semantics): repeated items make the
    # probe longer without making it less contained, so py_array_subset must not compare the two lengths (nor count items)
    ps = repo.fn('pony.orm.dbproviders.sqlite', 'py_array_subset')
    lens = [c for c in ast.walk(ps.node) if isinstance(c, ast.Compare) and sum(1 for x in ast.walk(c) if isinstance(x, ast.Call) and dotted(x.func) == 'len') >= 2]
    ctx.ob('C29-SUBSET.list-membership-ignores-multiplicity', ps, lens[0] if lens else ps.node, not lens,
           '' if not lens else '`%s` compares the lengths of the probe and the stored array: a probe with repeated items ([10, 10, 20] against [10, 20]) is rejected although '
           'every item is contained' % norm(lens[0]), node=lens[0] if lens else None)
    uses_sets = any(isinstance(c, ast.Call) and dotted(c.func) in ('set', 'frozenset') for c in ast.walk(ps.node)) or any(isinstance(c, ast.Call) and dotted(c.func) == 'all' for c in ast.walk(ps.node))
    ctx.ob('C29-SUBSET.list-membership-is-a-subset-test', ps, ps.node, uses_sets, '' if uses_sets else 'py_array_subset no longer tests set inclusion')


def quote_class_reason(pattern, Q):
    """explain structurally (regex parse tree) why an escaped quote cannot match"""
    try: tree = sre_parse.parse(pattern)
    except Exception as e: return 'regex not parseable: %s' % e
    found = []
    def visit(items):
        for i, (op, av) in enumerate(items):
            name = str(op)
            if name == 'BRANCH':
                for alt in av[1]: visit(list(alt))
            elif name == 'SUBPATTERN': visit(list(av[3]))
            elif name in ('MAX_REPEAT', 'MIN_REPEAT'):
                inner = list(av[2])
                if len(inner) == 1 and str(inner[0][0]) == 'NOT_LITERAL' and inner[0][1] == ord(Q): found.append('a repetition of "any character except %s"' % Q)
                if len(inner) == 1 and str(inner[0][0]) == 'IN' and str(inner[0][1][0][0]) == 'NEGATE' and any(str(o) == 'LITERAL' and a == ord(Q) for o, a in inner[0][1][1:]):
                    found.append('a negated class excluding %s' % Q)
                visit(inner)
    visit(list(tree))
    return ('the quoted alternative is %s with no escape alternative' % found[0]) if found else 'no escape alternative found in the quoted-key branch'


MUTANTS = [
    dict(id='C29-step', file='pony/orm/dbproviders/sqlite.py', fn='_traverse', old="        except (KeyError, IndexError, TypeError): return None", new="        except (KeyError, IndexError): return None", expect='C29-STEP'),
    dict(id='C29-step2', file='pony/orm/dbproviders/sqlite.py', fn='_traverse', old="        except (KeyError, IndexError, TypeError): return None", new="        except (LookupError, TypeError): return None", expect='C29-STEP', benign=True),
    dict(id='C29-wrap', file='pony/orm/dbproviders/sqlite.py', fn='py_array_index', old="    if isinstance(index, int) and index < 0:\n        return None  # the absolute position was computed as length - k: the item lies before the start of the array\n", new="", expect='C29-WRAP'),
    dict(id='C29-nt', file='pony/orm/dbproviders/sqlite.py', fn='py_json_extract', old="    if type(result) in (list, dict):", new="    if type(result) not in (str, int, float):", expect='C29-NULLTEXT'),
    dict(id='C29-nt2', file='pony/orm/dbproviders/sqlite.py', fn='py_json_extract', old="    if type(result) in (list, dict):", new="    if isinstance(result, (list, dict)):", expect='C29-NULLTEXT', benign=True),
    dict(id='C29-nc1', file='pony/orm/sqltranslation.py', fn='ArrayMixin.contains', old="                if not_in:\n                    return BoolExprMonad(['EQ', ['VALUE', 0], ['VALUE', 1]], nullable=False)\n                else:\n                    return BoolExprMonad(['EQ', ['VALUE', 1], ['VALUE', 1]], nullable=False)\n",
         new="                const = 0 if not_in else 1\n                return BoolExprMonad(['EQ', ['VALUE', const], ['VALUE', const]], nullable=False)\n", expect='C29-NEGCONST'),
    dict(id='C29-m1', file='pony/orm/sqlbuilding.py', fn='SQLBuilder.build_json_path', old="            paramkey = tuple(item.paramkey if isinstance(item, Param) else\n                             None if type(item.value) is slice else item.value\n                             for item in items)",
         new="            paramkey = tuple(item.paramkey if isinstance(item, Param) else None\n                             for item in items)", expect='C29-PARAMKEY'),
    dict(id='C29-m2', file='pony/orm/dbproviders/sqlite.py', old="""json_path_re = re.compile(r'\\[(-?\\d+)\\]|\\.(?:(\\w+)|"([^"]*)")', re.UNICODE)""", new="""json_path_re = re.compile(r'\\[(\\d+)\\]|\\.(?:(\\w+)|"([^"]*)")', re.UNICODE)""", expect='C29-PATH'),
    dict(id='C29-m3', file='pony/orm/dbproviders/mysql.py', fn='MySQLBuilder.JSON_NONZERO', old="'0.0', '-0.0', ", new="", expect='C29-FALSY'),
    dict(id='C29-m4', file='pony/orm/dbproviders/sqlite.py', fn='SQLiteBuilder.JSON_NONZERO', old="""'""', """, new="", expect='C29-FALSY'),
    dict(id='C29-m5', file='pony/orm/sqlbuilding.py', fn='SQLBuilder.JSON_QUERY', old='        throw(NotImplementedError)', new='        return None', expect='ANALYSIS-ERROR'),
]
