"""C34  Permission checks follow the declared access rules."""
import ast, re
from ..loader import dotted, walk_no_nested, norm, head, calls_in
from ..q import nodes_calling

EXPLANATION = """
Static clauses decided (necessary conditions of C34):
 PROV    provenance of rules in has_perm: a loop that iterates the rule set R drawn from `<E>._access_rules_` tests the
         exclusions of each rule against that same entity E (`E not in rule.entities_to_exclude`) and against an attribute of
         E; in particular the reverse-side loop iterates the reverse entity's rules, and the object branch tests the object's
         *entity* (the exclusion sets hold entity classes, an object is never a member).
 GRANT   each branch of has_perm grants only under the conjunction groups (+ roles and labels for objects) and not
         excluded; can_view is view-or-edit.
 JSON    in Database.to_json every object that is serialised (added to the emitted `objects` table, or referenced from the
         data) passed `can_view(user, obj)` whose failure raises PermissionError; user_has_no_rights_to_see never returns.
 GETTER  group / role / label getters are applied only to arguments of the classes they were registered for (every class filter of the
         registration guards the call, whatever the other filter says).
 STALE   the per-thread group/role caches consulted by has_perm are cleared on every way out of a db_session
         (_commit_or_rollback clears them in its finally block, also when commit or rollback raises), so a later session
         never decides with another session's memberships.
"""
NOT_DECIDED = "the intended semantics of combining own-side and reverse-side rules for relationship attributes; user-supplied getter functions"

CORE = 'pony.orm.core'


def run(ctx):
    repo, cg = ctx.repo, ctx.cg
    hp = repo.fn(CORE, 'has_perm')
    # rule-set variables and the entity they were drawn from
    rsets = {}
    for s in walk_no_nested(hp.node):
        if isinstance(s, ast.Assign) and len(s.targets) == 1 and isinstance(s.targets[0], ast.Name) and isinstance(s.value, ast.Call) \
                and isinstance(s.value.func, ast.Attribute) and s.value.func.attr == 'get' and isinstance(s.value.func.value, ast.Attribute) \
                and s.value.func.value.attr == '_access_rules_':
            rsets[s.targets[0].id] = norm(s.value.func.value.value)
    ctx.floor('C34-PROV', len(rsets), 2, 'rule sets drawn from _access_rules_ in has_perm')
    attr_of = {'entity': ('attr', 'x'), 'reverse.entity': ('reverse',)}
    n = 0
    loops = [s for s in walk_no_nested(hp.node) if isinstance(s, ast.For) and isinstance(s.iter, ast.Name) and s.iter.id in rsets]
    for lp in loops:
        E = rsets[lp.iter.id]; rv = dotted(lp.target)
        inner = [x for x in walk_no_nested(lp) if isinstance(x, ast.For) and x is not lp and isinstance(x.iter, ast.Name) and x.iter.id in rsets]
        skip = {id(y) for x in inner for y in ast.walk(x)}
        for c in [c for c in ast.walk(lp) if isinstance(c, ast.Compare) and id(c) not in skip]:
            if len(c.ops) == 1 and isinstance(c.ops[0], (ast.In, ast.NotIn)) and isinstance(c.comparators[0], ast.Attribute) and dotted(c.comparators[0].value) == rv:
                n += 1
                what = c.comparators[0].attr; left = norm(c.left)
                if what == 'entities_to_exclude': ok = left == E
                elif what == 'attrs_to_exclude': ok = left in attr_of.get(E, ())
                else: continue
                ctx.ob('C34-PROV.exclusion-tested-against-the-rules-own-entity', hp, c, ok,
                       '' if ok else 'the loop iterates `%s` (rules of %s) but tests `%s` against %s.%s: %s' % (
                           lp.iter.id, E, left, rv, what,
                           'the exclusion sets contain entity classes/attributes of %s, so this test never excludes anything' % E if left in ('x', 'obj')
                           else 'the rules of one side of the relationship are applied to the other side'),
                       node=c, expected='%s %s %s.%s' % (E if what == 'entities_to_exclude' else '/'.join(attr_of.get(E, ('?',))), 'not in', rv, what))
    ctx.floor('C34-PROV', n, 5, 'exclusion tests in has_perm')
    # every rule set that is fetched is also the one iterated (a fetched-but-unused rule set is the reverse-rules bug)
    for v, E in rsets.items():
        used = any(lp.iter.id == v for lp in loops)
        ctx.ob('C34-PROV.fetched-rule-set-is-iterated', hp, v, used, '' if used else 'the rule set `%s` of %s is fetched but no loop iterates it' % (v, E))
    # ---------------------------------------------------------------- GRANT
    # scenario evaluation on the CFG of has_perm: a grant (`result = True`, or `result = any(<condition> for rule in ...)`) is unreachable / false
    #   S-groups   when every `user_groups.issuperset(<rule>.groups)` is false,
    #   S-excluded when every `... in <rule>.entities_to_exclude` is true,
    # and, for the grants of the object branch (x is neither an entity class nor an attribute), also when the roles or the labels test is false.
    # The conditions may be enclosing ifs, guard clauses with `continue`, or one conjunction -- only what they decide matters.
    from ..typestate import scenario_edges, eval_test
    g = cg.cfg(hp)
    def is_grant(x):
        if not (x.kind == 'stmt' and isinstance(x.ast, ast.Assign) and any(dotted(t) == 'result' for t in x.ast.targets)): return None
        v = x.ast.value
        if isinstance(v, ast.Constant) and v.value is True: return 'const'
        if isinstance(v, ast.Call) and dotted(v.func) == 'any' and v.args and isinstance(v.args[0], (ast.GeneratorExp, ast.ListComp)): return 'any'
        return None
    grants = [x for x in g.nodes if is_grant(x)]
    ctx.floor('C34-GRANT', len(grants), 3, 'statements that grant a permission')
    def mk_atom(kind, branch):
        def atom(text, node):
            t = text.replace(' ', '')
            if branch == 'obj' and isinstance(node, ast.Call) and dotted(node.func) == 'isinstance' and dotted(node.args[0]) == 'x' and dotted(node.args[1]) in ('EntityMeta', 'Attribute'): return False
            if kind == 'groups' and re.fullmatch(r'user_groups\.issuperset\(\w+\.groups\)', t): return False
            if kind == 'excluded' and isinstance(node, ast.Compare) and len(node.ops) == 1 and (dotted(node.comparators[0]) or '').endswith('.entities_to_exclude'):
                return isinstance(node.ops[0], ast.In)
            if kind == 'roles' and re.fullmatch(r'user_roles\.issuperset\(\w+\.roles\)', t): return False
            if kind == 'labels' and re.fullmatch(r'obj_labels\.issuperset\(\w+\.labels\)', t): return False
            return None
        return atom
    # which grants belong to the object branch: reachable when x is neither class nor attribute
    obj_live = g.reach([g.entry], edge_ok=scenario_edges(g, hp.node, mk_atom('none', 'obj'), resolve=False))
    for gr in grants:
        in_obj = gr.id in obj_live and is_grant(gr) == 'const' and any(isinstance(x_, ast.Name) and x_.id in ('user_roles', 'obj_labels') for t_ in g.nodes if t_.kind == 'test' and gr.id in g.reach([t_]) for x_ in ast.walk(t_.ast)) \
            and gr.id not in g.reach([g.entry], edge_ok=scenario_edges(g, hp.node, lambda text, node: True if (isinstance(node, ast.Call) and dotted(node.func) == 'isinstance') else None, resolve=False))
        kinds = ['groups', 'excluded'] + (['roles', 'labels'] if in_obj else [])
        failing = []
        for kind in kinds:
            atom = mk_atom(kind, 'obj' if in_obj else 'any')
            if is_grant(gr) == 'any':
                gen = gr.ast.value.args[0]
                conds = [gen.elt] + [c for gn in gen.generators for c in gn.ifs]
                v = [eval_test(c, atom) for c in conds]
                if not any(x_ is False for x_ in v): failing.append(kind)
            else:
                if gr.id in g.reach([g.entry], edge_ok=scenario_edges(g, hp.node, atom, resolve=False)): failing.append(kind)
        ok = not failing
        ctx.ob('C34-GRANT.granted-only-under-groups-and-not-excluded', hp, gr.ast, ok,
               '' if ok else 'the permission granted at line %d does not depend on: %s (it is still granted when that test fails)' % (gr.lineno, ', '.join(failing)), node=gr.ast)
    cv = repo.fn(CORE, 'can_view')
    rets = [norm(s.value) for s in walk_no_nested(cv.node) if isinstance(s, ast.Return)]
    ok = rets == ["has_perm(user, 'view', x) or has_perm(user, 'edit', x)"]
    ctx.ob('C34-GRANT.can_view-is-view-or-edit', cv, cv.node, ok, '' if ok else 'can_view is %s' % rets)
    # ---------------------------------------------------------------- JSON
    tj = repo.fn(CORE, 'Database.to_json')
    nr = tj.nested.get('user_has_no_rights_to_see')
    ctx.need(nr is not None, 'C34-JSON: user_has_no_rights_to_see not found')
    gg = cg.cfg(nr)
    ok = gg.exit.id not in gg.reachable_nodes()
    ctx.ob('C34-JSON.refusal-never-returns', nr, nr.node, ok, '' if ok else 'user_has_no_rights_to_see can return normally')
    for f, sink_pred, what in ((tj, lambda c: dotted(c.func) == 'objects.setdefault', 'emitted objects table'),
                               (tj.nested.get('obj_converter'), lambda c: dotted(c.func) == 'object_set.add', 'referenced object')):
        ctx.need(f is not None, 'C34-JSON: obj_converter not found')
        g2 = cg.cfg(f)
        sinks = nodes_calling(g2, sink_pred)
        tests = {t.id for t in g2.nodes if t.kind == 'test' and norm(t.ast) == 'not can_view(user, obj)'}
        ctx.floor('C34-JSON', len(sinks), 1, 'sinks (%s)' % what)
        thr = nodes_calling(g2, lambda c: dotted(c.func) == 'user_has_no_rights_to_see')      # never returns (checked above)
        for s in sinks:
            rr = g2.reach([g2.entry], avoid=thr, edge_ok=lambda x, y, lab: not (x in tests and lab == 'F'))
            ok = bool(tests) and bool(thr) and s.id not in rr
            ctx.ob('C34-JSON.serialised-object-passed-can_view', f, s.ast, ok,
                   '' if ok else 'an object reaches the %s without `if not can_view(user, obj): user_has_no_rights_to_see(obj)`' % what, node=s.ast)
    # ---------------------------------------------------------------- STALE
    cr = repo.fn(CORE, 'DBSessionContextManager._commit_or_rollback'); g = cg.cfg(cr)
    outer = [s for s in cr.node.body if isinstance(s, ast.Try)]
    for cname in ('user_groups_cache', 'user_roles_cache'):
        # the whole body is one try whose finally clears the cache (so it runs on every exit, also when commit()/rollback() raise)
        ok = len(cr.node.body) == 1 and len(outer) == 1 and any(
            isinstance(x, ast.Expr) and isinstance(x.value, ast.Call) and dotted(x.value.func) == 'local.%s.clear' % cname for x in outer[0].finalbody)
        ctx.ob('C34-STALE.membership-cache-cleared-on-every-session-exit', cr, cname, ok,
               '' if ok else 'local.%s is not cleared on every exit of _commit_or_rollback (e.g. when commit()/rollback() raises): the next session '
               'on this thread decides permissions with the previous session\'s memberships' % cname)
    # every place that takes the session off the thread (`local.db_session = None`) clears the caches in the same block -- the generator wrapper
    # never goes through _commit_or_rollback
    nends = 0
    for fn in repo.rule_funcs():
        if fn.mod.name != CORE: continue
        for x in ast.walk(fn.node):
            for fld in ('finalbody',):          # a session scope ends in a finally block; prepare_connection's temporary reset is restored at once
                blk = getattr(x, fld, None)
                if not (isinstance(blk, list) and blk and isinstance(blk[0], ast.stmt)): continue
                ends = [st for st in blk if isinstance(st, ast.Assign) and any(dotted(t) == 'local.db_session' for t in st.targets)
                        and isinstance(st.value, ast.Constant) and st.value.value is None]
                if not ends or fn.qual.endswith('__init__'): continue
                nends += 1
                cleared = {cname for cname in ('user_groups_cache', 'user_roles_cache') for st in blk
                           if isinstance(st, ast.Expr) and isinstance(st.value, ast.Call) and dotted(st.value.func) == 'local.%s.clear' % cname}
                ok = len(cleared) == 2
                ctx.ob('C34-STALE.leaving-a-session-clears-membership-caches', fn, ends[0], ok,
                       '' if ok else 'the db_session is taken off the thread here without clearing local.user_groups_cache / local.user_roles_cache (cleared: %s): '
                       'the next session on this thread decides permissions with memberships cached by this one' % sorted(cleared), node=ends[0])
    ctx.floor('C34-STALE', nends, 2, 'places where a db_session leaves the thread')
    # the caches live on the thread-local object
    for fq, cname in (('get_user_groups', 'user_groups_cache'), ('get_user_roles', 'user_roles_cache')):
        f = repo.fn(CORE, fq)
        ok = any(isinstance(x, ast.Attribute) and x.attr == cname and dotted(x.value) == 'local' for x in walk_no_nested(f.node))
        ctx.ob('C34-STALE.membership-cache-is-thread-local', f, cname, ok, '' if ok else '%s does not use local.%s' % (fq, cname))
    # ---------------------------------------------------------------- GETTER
    # a getter registered for (user class, object class) contributes groups / roles / labels only to arguments of those classes: for every
    # class filter of the registration, the scenario "filter given and the argument is NOT an instance" cannot reach the call of the getter
    from ..typestate import eval_test
    ngt = 0
    for q, filters in (('get_user_groups', [('cls', 'user')]), ('get_user_roles', [('user_cls', 'user'), ('obj_cls', 'obj')]), ('get_object_labels', [('obj_cls', 'obj')])):
        f = repo.fn(CORE, q); g = cg.cfg(f)
        calls = nodes_calling(g, lambda c: isinstance(c.func, ast.Name) and c.func.id == 'func')
        ctx.need(bool(calls), 'C34-GETTER: call of the registered getter not found in %s' % q)
        for cv, av in filters:
            ngt += 1
            def atom(text, node, cv=cv, av=av):
                t = text.replace(' ', '')
                if t == cv + 'isNone': return False
                if t == 'isinstance(%s,%s)' % (av, cv): return False
                return None
            def edge_ok(x, y, lab):
                n_ = g.nodes[x]
                if n_.kind != 'test' or lab not in ('T', 'F'): return True
                v = eval_test(n_.ast, atom)
                return v is None or v == (lab == 'T')
            r = g.reach([g.entry], edge_ok=edge_ok)
            bad = [c for c in calls if c.id in r]
            ctx.ob('C34-GETTER.class-filter-of-the-registration-is-honoured', f, calls[0].ast, not bad,
                   '' if not bad else 'the getter registered with %s is still called when `%s` is not an instance of it (the other filter short-circuits the test): its groups/roles/labels '
                   'leak onto arguments of other classes and has_perm grants what the declared rules do not' % (cv, av), node=calls[0].ast).key += '::' + cv
    ctx.floor('C34-GETTER', ngt, 4, 'class filters of getter registrations')


MUTANTS = [
    dict(id='C34-gt1', file='pony/orm/core.py', fn='get_user_roles', old="        if user_cls is None or isinstance(user, user_cls):\n            if obj_cls is None or isinstance(obj, obj_cls):\n", new="        if user_cls is None or isinstance(user, user_cls) and (obj_cls is None or isinstance(obj, obj_cls)):\n            if True:\n", expect='C34-GETTER'),
    dict(id='C34-g1', file='pony/orm/core.py', fn='DBSessionContextManager._wrap_coroutine_or_generator_function', old="                    local.db_session = None\n                    local.user_groups_cache.clear()\n                    local.user_roles_cache.clear()\n", new="                    local.db_session = None\n", expect='C34-STALE.leaving'),
    dict(id='C34-m1', file='pony/orm/core.py', fn='has_perm', old='                for reverse_rule in reverse_rules:', new='                for reverse_rule in access_rules:', expect='C34-PROV'),
    dict(id='C34-m2', file='pony/orm/core.py', fn='has_perm', old='            if entity in rule.entities_to_exclude: continue', new='            if x in rule.entities_to_exclude: continue', expect='C34-PROV.exclusion'),
    dict(id='C34-m3', file='pony/orm/core.py', fn='has_perm', old="            elif not user_roles.issuperset(rule.roles): pass\n", new='', expect='C34-GRANT'),
    dict(id='C34-m4', file='pony/orm/core.py', fn='Database.to_json', old='                if not can_view(user, obj):\n                    user_has_no_rights_to_see(obj)\n                d = objects.setdefault', new='                d = objects.setdefault', expect='C34-JSON'),
    dict(id='C34-m5', file='pony/orm/core.py', fn='DBSessionContextManager._commit_or_rollback',
         old='        finally:\n            del exc, tb\n            local.db_session = None\n            local.user_groups_cache.clear()\n            local.user_roles_cache.clear()',
         new='            local.user_groups_cache.clear()\n            local.user_roles_cache.clear()\n        finally:\n            del exc, tb\n            local.db_session = None', expect='C34-STALE'),
    dict(id='C34-m6', file='pony/orm/core.py', fn='can_view', old="    return has_perm(user, 'view', x) or has_perm(user, 'edit', x)", new="    return has_perm(user, 'view', x)", expect='C34-GRANT.can_view'),
    dict(id='C34-m7', file='pony/orm/core.py', fn='has_perm', old="            if user_groups.issuperset(rule.groups) and entity not in rule.entities_to_exclude:\n                result = True", new="            if user_groups.issuperset(rule.groups):\n                result = True", expect='C34-GRANT'),
]
