"""C03  Decompiling a generator or lambda preserves its meaning."""
import ast
from ..loader import dotted, walk_no_nested, norm, head, calls_in
from ..q import nodes_calling
from . import C05

EXPLANATION = """
Static clauses decided (necessary conditions of C03 -- "either rejected with an error or exactly the meaning of the source";
the reconstruction heuristics themselves are NOT decided):
 REJECT  an opcode the decompiler has no handler for is rejected, not skipped: Decompiler.decompile looks the handler up
         with getattr(.., None), the None branch throws DecompileError, and the handler call is reachable only past that test;
         handlers that exist only to refuse (body is a bare raise/throw) raise on every path.
 TARGETS boolean clauses are rebuilt by merging the stack down to the FIRST clause registered for a jump target
         (process_target).  Every function that creates a fresh and/or clause for a conditional jump registers it with
         targets.setdefault(endpos, clause) (first registration wins) -- sibling agreement across conditional_jump_old/_new/
         _none_impl and the conditional-expression handler; a plain store into targets is allowed only where the stored entry
         replaces the function's own previous entry (guarded by an identity test on targets.get(..)).
 LIMIT   process_target recognises the clause registered for a jump target before simplifying it (identity of the registered object stops the merge).
 FSTR    a replacement field of an f-string never escapes as a bare ast.FormattedValue: every handler that creates one puts it
         into an ast.JoinedStr (directly, or through the item list BUILD_STRING hands to JoinedStr).  A bare FormattedValue is not
         a valid expression node; the source regenerator and the SQL translator take it for its plain value, so f'{x!r}' or
         f'{y:.2f}' alone silently lose their conversion / format (the FORMAT_VALUE flag bits are all decoded: 3 conversion
         values x optional spec).
 POLARITY conditional_jump_new and simplify() interpreted together over (kind of jump x sense): a one-item clause simplifies to the condition under
         which control goes on towards the loop body (x / not x), for jumps to the body and for jumps away from it alike.
 PIN     the syntax-tree cache is keyed by get_codeobject_id, which keeps the code object alive, so a recycled id() can
         never serve another lambda's tree (shared with C05).
"""
NOT_DECIDED = "that a reconstructed tree equals the source for every expression of the grammar (bytecode<->tree relation: needs translation validation over programs)"

DC = 'pony.orm.decompiling'


def run(ctx):
    repo, cg = ctx.repo, ctx.cg
    D = repo.cls(DC, 'Decompiler')
    # ---------------------------------------------------------------- REJECT
    dec = repo.fn(DC, 'Decompiler.decompile'); g = cg.cfg(dec)
    lookups = [s for s in walk_no_nested(dec.node) if isinstance(s, ast.Assign) and isinstance(s.value, ast.Call) and dotted(s.value.func) == 'getattr'
               and len(s.value.args) == 3 and isinstance(s.value.args[2], ast.Constant) and s.value.args[2].value is None]
    ctx.need(len(lookups) == 1, 'C03-REJECT: handler lookup `getattr(decompiler, opname, None)` not found')
    var = dotted(lookups[0].targets[0])
    tests = [t for t in g.nodes if t.kind == 'test' and norm(t.ast) == '%s is None' % var]
    calls = nodes_calling(g, lambda c: isinstance(c.func, ast.Name) and c.func.id == var)
    ok = bool(tests) and bool(calls)
    if ok:
        tid = {t.id for t in tests}
        for t in tests:
            ts = [y for y, lab in g.succ[t.id] if lab == 'T']
            if any(c.id in g.reach(ts) for c in calls) or g.exit.id in g.reach(ts, avoid=[x for x in g.nodes if x.kind == 'iter']): ok = False
        rr = g.reach([g.entry], edge_ok=lambda x, y, lab: not (x in tid and lab == 'F'))
        if any(c.id in rr for c in calls): ok = False
    ctx.ob('C03-REJECT.unknown-opcode-is-rejected', dec, tests[0].stmt if tests else dec.node, ok,
           '' if ok else 'an opcode without a handler is not rejected before dispatch: the instruction is skipped and the tree is built from the remaining ones')
    thr = [c for t in tests for s in walk_no_nested(t.stmt) for c in calls_in(s) if dotted(c.func) == 'throw' and 'DecompileError' in norm(c)]
    ctx.ob('C03-REJECT.rejection-is-a-DecompileError', dec, tests[0].stmt if tests else dec.node, bool(thr), '' if thr else 'unknown opcode does not raise DecompileError')
    n = 0
    for name, f in D.methods.items():
        if not name.isupper(): continue
        body = [s for s in f.node.body if not (isinstance(s, ast.Expr) and isinstance(s.value, ast.Constant))]
        if len(body) == 1 and (isinstance(body[0], ast.Raise) or isinstance(body[0], ast.Expr) and isinstance(body[0].value, ast.Call) and dotted(body[0].value.func) == 'throw'):
            n += 1
            gg = cg.cfg(f)
            ok = gg.exit.id not in gg.reachable_nodes()
            ctx.ob('C03-REJECT.refusing-handler-raises', f, f.node, ok, '' if ok else '%s exists to refuse the opcode but can return normally' % name)
    ctx.floor('C03-REJECT', n, 2, 'handlers that only refuse')
    ctx.count('opcode handlers defined by Decompiler', sum(1 for k in D.methods if k.isupper()) + sum(1 for k in D.attrs if k.isupper()))
    # ---------------------------------------------------------------- TARGETS
    creators = []
    for name, f in D.methods.items():
        makes = [s for s in walk_no_nested(f.node) if isinstance(s, ast.Assign) and isinstance(s.value, ast.Call) and dotted(s.value.func) in ('ast.BoolOp', 'ast.IfExp')]
        sets_end = any(isinstance(s, ast.Assign) and any(isinstance(t, ast.Attribute) and t.attr == 'endpos' for t in s.targets) for s in walk_no_nested(f.node))
        if makes and sets_end: creators.append((f, makes))
    ctx.floor('C03-TARGETS', len(creators), 4, 'functions that create a clause for a jump target')
    for f, makes in creators:
        recv = f.recv
        regs = [c for c in calls_in(f.node) if dotted(c.func) == recv + '.targets.setdefault']
        ok = bool(regs)
        ctx.ob('C03-TARGETS.clause-registered-first-wins', f, makes[0], ok,
               '' if ok else '%s creates a clause for a jump target but does not register it with %s.targets.setdefault(endpos, clause): a later clause for the same '
               'target replaces the first one, process_target stops merging too early and the and/or grouping of the rebuilt condition changes silently' % (f.qual, recv), node=makes[0])
    for name, f in D.methods.items():
        recv = f.recv
        for s in walk_no_nested(f.node):
            if isinstance(s, ast.Assign) and any(isinstance(t, ast.Subscript) and dotted(t.value) == (recv or '') + '.targets' for t in s.targets):
                t0 = [t for t in s.targets if isinstance(t, ast.Subscript)][0]
                key = norm(t0.slice)
                guard = None
                for i in walk_no_nested(f.node):
                    if isinstance(i, ast.If) and s in i.body: guard = norm(i.test)
                # the guard is an identity test on the entry currently registered for that target: `targets.get(k) is x`, `targets[k] is x`, or a
                # local holding the result of targets.get(k) / targets.setdefault(k, ..) / targets[k]
                cur = {'%s.targets.get(%s)' % (recv, key), '%s.targets[%s]' % (recv, key)}
                for a_ in walk_no_nested(f.node):
                    if isinstance(a_, ast.Assign) and len(a_.targets) == 1 and isinstance(a_.targets[0], ast.Name):
                        v_ = norm(a_.value)
                        if v_ in cur or v_.startswith('%s.targets.setdefault(%s,' % (recv, key)): cur.add(a_.targets[0].id)
                ok = guard is not None and any((c_ + ' is ') in guard for c_ in cur)
                ctx.ob('C03-TARGETS.plain-store-only-replaces-own-entry', f, s, ok,
                       '' if ok else 'plain store %s: an existing (earlier) clause registered for this jump target is overwritten' % norm(s), node=s,
                       expected='%s.targets.setdefault(...) or a store guarded by `%s.targets.get(%s) is <own entry>`' % (recv, recv, key))
    # ---------------------------------------------------------------- FSTR
    dmod = repo.mod('pony.orm.decompiling')
    nfv = 0
    for fn in repo.rule_funcs():
        if fn.mod is not dmod: continue
        par = {}
        for x in ast.walk(fn.node):
            for ch in ast.iter_child_nodes(x): par[id(ch)] = x
        for c in calls_in(fn.node):
            if dotted(c.func) != 'ast.FormattedValue': continue
            nfv += 1
            ok = False; x = c
            while id(x) in par and not isinstance(par[id(x)], ast.stmt):
                x = par[id(x)]
                if isinstance(x, ast.Call) and dotted(x.func) == 'ast.JoinedStr': ok = True
                if isinstance(x, ast.Call) and isinstance(x.func, ast.Attribute) and x.func.attr == 'append':
                    lst = dotted(x.func.value)
                    ok = ok or any(dotted(k.func) == 'ast.JoinedStr' and k.args and dotted(k.args[0]) == lst for k in calls_in(fn.node))
            st = par.get(id(x))
            if not ok and isinstance(st, ast.Assign) and isinstance(st.targets[0], ast.Subscript):
                lst = dotted(st.targets[0].value)
                ok = any(dotted(k.func) == 'ast.JoinedStr' and k.args and dotted(k.args[0]) == lst for k in calls_in(fn.node))
            ctx.ob('C03-FSTR.replacement-field-stays-inside-an-fstring', fn, c, ok,
                   '' if ok else '%s builds an ast.FormattedValue that is not placed into an ast.JoinedStr: an f-string consisting of this single field is handed on as a '
                   'bare FormattedValue, which the consumers take for its plain value -- conversion and format spec are lost' % fn.qual, node=c,
                   expected='ast.JoinedStr([ast.FormattedValue(...)])')
    ctx.floor('C03-FSTR', nfv, 2, 'constructions of ast.FormattedValue in the decompiler')
    fv = repo.fn_opt('pony.orm.decompiling', 'Decompiler.FORMAT_VALUE')
    if fv is not None:
        txt = norm(fv.node, limit=5000)
        ok = 'flags & 4' in txt and 'flags & 3' in txt
        ctx.ob('C03-FSTR.format-value-flags-decoded-completely', fv, fv.node, ok,
               '' if ok else 'FORMAT_VALUE does not decode the flag byte as (conversion = flags & 3, spec present = flags & 4): some of the 8 combinations are mishandled', node=fv.node)
    # ---------------------------------------------------------------- PIN
    gid = repo.fn('pony.utils.utils', 'get_codeobject_id'); g = cg.cfg(gid)
    stores = [x for x in g.nodes if x.kind == 'stmt' and isinstance(x.ast, ast.Assign) and any(isinstance(t, ast.Subscript) and dotted(t.value) == 'codeobjects' for t in x.ast.targets)
              and dotted(x.ast.value) == gid.params[0]]
    tests = {t.id for t in g.nodes if t.kind == 'test' and 'not in codeobjects' in norm(t.ast)}
    rr = g.reach([g.entry], avoid=stores, edge_ok=lambda x, y, lab: not (x in tests and lab == 'F'))
    ok = bool(stores) and g.exit.id not in rr
    ctx.ob('C03-PIN.code-object-is-kept-alive', gid, stores[0].ast if stores else gid.node, ok, '' if ok else 'get_codeobject_id can return an id without storing the code object')
    df = repo.fn(DC, 'decompile')
    ks = [s for s in walk_no_nested(df.node) if isinstance(s, ast.Assign) and any(dotted(t) == 'key' for t in s.targets)]
    ok = bool(ks) and all(norm(s.value).startswith('get_codeobject_id(') for s in ks)
    C05.pin_store_strong(ctx, prefix='C03-PIN')
    ctx.ob('C03-PIN.ast-cache-keyed-by-pinned-id', df, ks[0] if ks else df.node, ok, '' if ok else 'ast_cache key is %s' % [norm(s.value) for s in ks])
    C05.key_rule(ctx, only={'decompile'}, prefix='C03-KEY', floor=1)
    # ---------------------------------------------------------------- LIMIT
    # process_target merges the clauses on the stack down to the clause REGISTERED for the jump target, recognised by object identity (`top is
    # limit`).  simplify() replaces a one-item clause by its item, so the identity test has to look at the clause before it is simplified;
    # otherwise a one-item clause is not recognised, merging runs on into the enclosing conditions, and the generator's `if` filter ends up inside
    # the conditional expression of its element.
    pt = repo.fn('pony.orm.decompiling', 'Decompiler.process_target')
    wl = [s for s in walk_no_nested(pt.node) if isinstance(s, ast.While)]
    ctx.need(len(wl) == 1, 'C03-LIMIT: merge loop not found in process_target')
    body = wl[0].body
    def first_index(pred):
        for i, st in enumerate(body):
            if any(pred(x) for x in ast.walk(st)): return i
        return None
    i_id = first_index(lambda x: isinstance(x, ast.Compare) and len(x.ops) == 1 and isinstance(x.ops[0], ast.Is) and norm(x.left) == 'top' and norm(x.comparators[0]) == 'limit')
    i_simpl = first_index(lambda x: isinstance(x, ast.Assign) and any(dotted(t) == 'top' for t in x.targets) and isinstance(x.value, ast.Call) and dotted(x.value.func) == 'simplify')
    ok = i_id is not None and (i_simpl is None or i_id < i_simpl)
    ctx.ob('C03-LIMIT.registered-clause-recognised-before-simplification', pt, wl[0], ok,
           '' if ok else 'in the merge loop `top is limit` is first evaluated after `top = simplify(top)`: a registered clause with a single item is replaced by that item and never '
           'recognised, so merging continues into the enclosing clauses (the filter of a generator is absorbed by the conditional expression of its element)', node=wl[0],
           expected='test `top is limit` on the clause before simplify() is applied to it')
    # ---------------------------------------------------------------- FREEVAR
    # reader and writer must agree on how an instruction argument names a variable.  For LOAD_DEREF / LOAD_CLOSURE / MAKE_CELL ... (dis.hasfree) CPython
    # 3.11+ numbers the "fast locals plus" array: parameters and locals first -- a parameter captured by a nested generator is a cell but keeps its slot
    # there -- then the remaining cells, then the free variables.  The decoding statements of get_instructions for `op in hasfree` are interpreted
    # (q.concrete_eval, this interpreter's version flags) on sample code objects, for every hasfree instruction the compiler actually emitted, and
    # compared with CPython's own answer (dis / code._varname_from_oparg).
    import dis, sys as _sys
    from ..q import concrete_eval, Unknown
    gi = repo.fn(DC, 'Decompiler.get_instructions')
    branch = None
    for st in ast.walk(gi.node):
        if isinstance(st, ast.If) and norm(st.test) == 'op in hasfree': branch = st
    ctx.need(branch is not None, 'C03-FREEVAR: the `op in hasfree` branch of get_instructions was not found')
    pre = {}
    for st in walk_no_nested(gi.node):                                   # locals defined before the loop from the code object
        if isinstance(st, ast.Assign) and len(st.targets) == 1 and isinstance(st.targets[0], ast.Name) and st.targets[0].id in ('free', 'localsplus', 'code', 'co_code'):
            pre[st.targets[0].id] = st.value
    def samples():
        y = 1; z = 2; T = [1]
        fs = [lambda s, q: s.a == y and q.b == z and any(t for t in T if t == s.a),             # parameter s is captured: a cell among the locals
              lambda s: any(t for t in T if t == s.a) and s.b == y,
              lambda a, b, c: [x for x in T if x == b and (lambda: (a, z))()],
              lambda p: p.a == y and p.b == z]                                              # free variables only
        return [f.__code__ for f in fs]
    flags = {'PY311': _sys.version_info >= (3, 11), 'PY312': _sys.version_info >= (3, 12), 'PY313': _sys.version_info >= (3, 13), 'PY310': _sys.version_info >= (3, 10)}
    checked = 0; wrong = []
    for code in samples():
        base = dict(flags); base['code'] = code
        try:
            for nm in ('free', 'localsplus'):
                if nm in pre: base[nm] = tuple(concrete_eval(pre[nm], base))
        except Unknown:
            wrong.append('the definition of a name table could not be read'); break
        for ins in dis.get_instructions(code):
            if ins.opcode not in dis.hasfree: continue
            env = dict(base); env['oparg'] = ins.arg
            def run_block(stmts):
                for s_ in stmts:
                    if isinstance(s_, ast.If): run_block(s_.body if concrete_eval(s_.test, env) else s_.orelse)
                    elif isinstance(s_, ast.AugAssign) and isinstance(s_.target, ast.Name):
                        env[s_.target.id] = concrete_eval(ast.BinOp(left=ast.Name(id=s_.target.id, ctx=ast.Load()), op=s_.op, right=s_.value), env)
                    elif isinstance(s_, ast.Assign) and len(s_.targets) == 1 and isinstance(s_.targets[0], ast.Name): env[s_.targets[0].id] = concrete_eval(s_.value, env)
                    else: raise Unknown
            try:
                run_block(branch.body)
                got = env['arg'][0]
            except (Unknown, KeyError, IndexError, TypeError):
                got = '<unreadable>'
            checked += 1
            if got != ins.argval: wrong.append('%s %d in `%s`: pony reads %r, CPython means %r' % (ins.opname, ins.arg, code.co_name + str(code.co_varnames), got, ins.argval))
    ctx.floor('C03-FREEVAR', checked, 6, 'cell/free-variable instructions of the sample code objects')
    ctx.ob('C03-FREEVAR.variable-named-by-a-cell-instruction-is-the-one-the-compiler-meant', gi, branch, not wrong,
           '' if not wrong else 'the decoder and the compiler disagree about variable names: %s -- the reconstructed expression uses other variables than the source' % '; '.join(wrong[:3]),
           node=branch)

    # ---------------------------------------------------------------- POLARITY
    # A conditional jump leaves a one-item and/or clause on the stack; when nothing is merged into it (the arm of a conditional expression ends
    # there), simplify() turns it into its value.  That value must be the condition under which control goes on *towards the loop body*:
    #   a jump to the body itself (an "or-jump", success):        x if the jump is taken on true, not x if taken on false
    #   a jump away from it (and-jump, or the last jump back to the loop head):   not x if taken on true, x if taken on false
    # The two functions are interpreted together over the six scenarios (kind of jump x sense): negations applied by conditional_jump_new
    # and by simplify() must add up to that.  (`(a if b else c) or d` used to come back as `(not a if b else c) or d`.)
    from ..typestate import scenario_edges, eval_test
    cj = repo.fn(DC, 'Decompiler.conditional_jump_new'); gj = cg.cfg(cj)
    sf = repo.fn(DC, 'simplify'); gs = cg.cfg(sf)
    recv = cj.recv; sense = cj.params[2]
    def is_not_node(v): return isinstance(v, ast.Call) and dotted(v.func) == 'ast.UnaryOp' and any(k.arg == 'op' and 'Not' in norm(k.value) for k in v.keywords)
    marks = {}            # attribute of the clause set by conditional_jump_new -> expression
    for st in walk_no_nested(cj.node):
        if isinstance(st, ast.Assign) and len(st.targets) == 1 and isinstance(st.targets[0], ast.Attribute) and dotted(st.targets[0].value) == 'clause' and st.targets[0].attr != 'endpos':
            marks[st.targets[0].attr] = st.value
    def final_results(edge_ok):
        """the assignments to `result` in simplify() that are executed last under the scenario (a later one overrides an earlier one)"""
        live_ = gs.reach([gs.entry], edge_ok=edge_ok)
        cand = [x for x in gs.nodes if x.id in live_ and x.kind == 'stmt' and isinstance(x.ast, ast.Assign) and any(dotted(t_) == 'result' for t_ in x.ast.targets)]
        return [x for x in cand if not any(y.id in gs.reach([x], include_src=False, edge_ok=edge_ok) for y in cand if y is not x)]
    npol = 0
    for kind in ('final', 'or', 'and'):
        for taken_on_true in (True, False):
            def atom(text, node, kind=kind, t=taken_on_true):
                tt = text.replace(' ', '')
                if tt == '%s.pos>=%s.conditions_end' % (recv, recv): return kind == 'final'
                if tt == '%s.pos<%s.conditions_end' % (recv, recv): return kind != 'final'
                if tt == '%s.posin%s.or_jumps' % (recv, recv): return kind == 'or'
                if isinstance(node, ast.Name) and node.id == sense: return t
                return None
            eo = scenario_edges(gj, cj.node, atom, resolve=True)
            live = gj.reach([gj.entry], edge_ok=eo)
            types = {norm(x.ast.value) for x in gj.nodes if x.id in live and x.kind == 'stmt' and isinstance(x.ast, ast.Assign) and any(dotted(t_) == 'clausetype' for t_ in x.ast.targets)}
            ctypes = set()
            for tx in types:
                if tx in ('ast.Or', 'ast.And'): ctypes.add(tx[4:])
                elif 'if' in tx:                                         # clausetype = ast.Or if if_true else ast.And
                    e_ = [x.ast.value for x in gj.nodes if x.id in live and x.kind == 'stmt' and isinstance(x.ast, ast.Assign) and norm(x.ast.value) == tx][0]
                    v_ = eval_test(e_.test, atom)
                    ctypes.add(norm(e_.body if v_ else e_.orelse)[4:] if v_ is not None else '?')
            neg_cj = [x for x in gj.nodes if x.id in live and x.kind == 'stmt' and isinstance(x.ast, ast.Assign) and is_not_node(x.ast.value)]
            ctx.need(len(ctypes) == 1 and '?' not in ctypes and len(neg_cj) <= 1, 'C03-POLARITY: conditional_jump_new not interpretable for a %s-jump taken on %s: clause types %s' % (kind, taken_on_true, sorted(ctypes)))
            ctype = ctypes.pop()
            from ..typestate import resolve_flags as _rf
            mark_vals = {m_: eval_test(_rf(cj.node, e_), atom) for m_, e_ in marks.items()}
            def atom_s(text, node, ctype=ctype, mark_vals=mark_vals):
                if isinstance(node, ast.Call) and dotted(node.func) == 'isinstance' and len(node.args) == 2:
                    what = norm(node.args[1])
                    if what == 'ast.BoolOp': return True
                    if what in ('ast.And', 'ast.Or'): return what[4:] == ctype
                if isinstance(node, ast.Call) and dotted(node.func) == 'getattr' and len(node.args) >= 2 and isinstance(node.args[1], ast.Constant):
                    return mark_vals.get(node.args[1].value, False) if mark_vals.get(node.args[1].value, False) is not None else None
                if isinstance(node, ast.Attribute) and node.attr in mark_vals: return mark_vals[node.attr]
                if isinstance(node, ast.Compare) and norm(node).replace(' ', '').startswith('len(clause.values)'): return eval('1' + norm(node).replace(' ', '')[len('len(clause.values)'):], {})
                return None
            eos = scenario_edges(gs, sf.node, atom_s, resolve=True)
            lives = gs.reach([gs.entry], edge_ok=eos)
            res = final_results(eos)
            ctx.need(len(res) == 1, 'C03-POLARITY: simplify() not interpretable for a one-item %s clause (%d reachable results)' % (ctype, len(res)))
            neg_s = is_not_node(res[0].ast.value)
            negated = bool(neg_cj) != neg_s
            want = (not taken_on_true) if kind == 'or' else taken_on_true
            npol += 1
            ctx.ob('C03-POLARITY.one-item-clause-means-the-condition-to-go-on', cj, res[0].ast, negated == want,
                   '' if negated == want else 'a %s taken on %s leaves %s[x]%s; simplify() turns a one-item %s clause into %s: the arm of a conditional expression that ends '
                   'in this jump comes back as `%s` where the source means `%s` (e.g. `(a if b else c) or d` -> `(not a if b else c) or d`)'
                   % ({'or': 'jump to the loop body', 'and': 'jump away from the body', 'final': 'last jump back to the loop head'}[kind], taken_on_true, ctype,
                      ' with x negated' if neg_cj else '', ctype, 'not x' if neg_s else 'x', 'not x' if negated else 'x', 'not x' if want else 'x'), node=res[0].ast).key += '::%s::%s' % (kind, taken_on_true)
    # the sibling for `is None` jumps (POP_JUMP_IF_NONE / _NOT_NONE): the clause item is a comparison `x is None` / `x is not None` chosen through
    # `negate`; J = the condition under which the jump is taken.  Same requirement: a jump to the body leaves J, a jump away from it leaves not J.
    cn = repo.fn(DC, 'Decompiler.conditional_jump_none_impl'); gn = cg.cfg(cn)
    nsense = cn.params[2]
    nmarks = {st.targets[0].attr: st.value for st in walk_no_nested(cn.node) if isinstance(st, ast.Assign) and len(st.targets) == 1 and isinstance(st.targets[0], ast.Attribute)
              and dotted(st.targets[0].value) == 'clause' and st.targets[0].attr != 'endpos'}
    for kind in ('or', 'and'):
        for negate in (False, True):
            def atom_n(text, node, kind=kind, negate=negate):
                tt = text.replace(' ', '')
                if tt == '%s.posin%s.or_jumps' % (cn.recv, cn.recv): return kind == 'or'
                if tt == '%s.pos<%s.conditions_end' % (cn.recv, cn.recv): return True
                if isinstance(node, ast.Name) and node.id == nsense: return negate
                return None
            eon = scenario_edges(gn, cn.node, atom_n, resolve=True)
            liven = gn.reach([gn.entry], edge_ok=eon)
            def pick(var):
                vals = set()
                for x in gn.nodes:
                    if x.id in liven and x.kind == 'stmt' and isinstance(x.ast, ast.Assign) and any(dotted(t_) == var for t_ in x.ast.targets):
                        v = x.ast.value
                        if isinstance(v, ast.IfExp):
                            tv = eval_test(v.test, atom_n)
                            v = None if tv is None else (v.body if tv else v.orelse)
                        vals.add(norm(v) if v is not None else '?')
                return vals
            cts, ops = pick('clausetype'), pick('op')
            ctx.need(len(cts) == 1 and len(ops) == 1 and '?' not in cts | ops, 'C03-POLARITY: conditional_jump_none_impl not interpretable (%s, negate=%s): %s %s' % (kind, negate, cts, ops))
            ctype = cts.pop()[4:]; opn = ops.pop()[4:]
            item_is_J = (opn == 'IsNot') == negate
            mark_vals = {m_: eval_test(_rf(cn.node, e_), atom_n) for m_, e_ in nmarks.items()}
            def atom_s2(text, node, ctype=ctype, mark_vals=mark_vals):
                if isinstance(node, ast.Call) and dotted(node.func) == 'isinstance' and len(node.args) == 2:
                    what = norm(node.args[1])
                    if what == 'ast.BoolOp': return True
                    if what in ('ast.And', 'ast.Or'): return what[4:] == ctype
                if isinstance(node, ast.Call) and dotted(node.func) == 'getattr' and len(node.args) >= 2 and isinstance(node.args[1], ast.Constant): return mark_vals.get(node.args[1].value, False)
                if isinstance(node, ast.Attribute) and node.attr in mark_vals: return mark_vals[node.attr]
                if isinstance(node, ast.Compare) and norm(node).replace(' ', '').startswith('len(clause.values)'): return eval('1' + norm(node).replace(' ', '')[len('len(clause.values)'):], {})
                return None
            res = final_results(scenario_edges(gs, sf.node, atom_s2, resolve=True))
            ctx.need(len(res) == 1, 'C03-POLARITY: simplify() not interpretable for a one-item %s clause' % ctype)
            value_is_J = item_is_J != is_not_node(res[0].ast.value)
            want_J = kind == 'or'
            npol += 1
            ctx.ob('C03-POLARITY.one-item-clause-means-the-condition-to-go-on', cn, res[0].ast, value_is_J == want_J,
                   '' if value_is_J == want_J else 'an `is None` jump (%s, negate=%s) leaves %s[x %s None]; simplify() %s it: the arm of a conditional expression that ends in this jump '
                   'comes back negated (`((a is None) if b else c) or d` -> `(not a is None if b else c) or d`)'
                   % ('to the loop body' if kind == 'or' else 'away from the body', negate, ctype, 'is not' if opn == 'IsNot' else 'is', 'negates' if is_not_node(res[0].ast.value) else 'keeps'),
                   node=res[0].ast).key += '::none::%s::%s' % (kind, negate)
    ctx.floor('C03-POLARITY', npol, 10, '(kind of jump, sense) scenarios')


MUTANTS = [
    dict(id='C03-pol1', file='pony/orm/decompiling.py', fn='simplify', old="            if getattr(clause, 'or_jump', False): result = clause.values[0]  # the polarity of an or-jump is settled where it is decompiled\n            else: result = ast.UnaryOp(op=ast.Not(), operand=clause.values[0])",
         new="            result = ast.UnaryOp(op=ast.Not(), operand=clause.values[0])", expect='C03-POLARITY'),
    dict(id='C03-pol2', file='pony/orm/decompiling.py', fn='Decompiler.conditional_jump_none_impl', old="        clause.or_jump = decompiler.pos in decompiler.or_jumps\n", new="", expect='C03-POLARITY'),
    dict(id='C03-pol3', file='pony/orm/decompiling.py', fn='Decompiler.conditional_jump_new', old="            if if_true:\n                expr = ast.UnaryOp(op=ast.Not(), operand=expr)", new="            if not if_true:\n                expr = ast.UnaryOp(op=ast.Not(), operand=expr)", expect='C03-POLARITY'),
    dict(id='C03-pol4', file='pony/orm/decompiling.py', fn='simplify', old="            if getattr(clause, 'or_jump', False): result = clause.values[0]  # the polarity of an or-jump is settled where it is decompiled\n            else: result = ast.UnaryOp(op=ast.Not(), operand=clause.values[0])",
         new="            if not getattr(clause, 'or_jump', False): result = ast.UnaryOp(op=ast.Not(), operand=clause.values[0])\n            else: result = clause.values[0]", benign=True),
    dict(id='C03-free', file='pony/orm/decompiling.py', fn='Decompiler.get_instructions', old="                        arg = [localsplus[oparg]]", new="                        arg = [free[oparg - len(code.co_varnames)]]", expect='C03-FREEVAR'),
    dict(id='C03-free2', file='pony/orm/decompiling.py', fn='Decompiler.get_instructions', old="                        arg = [localsplus[oparg]]", new="                        arg = [(code.co_varnames + tuple(c for c in code.co_cellvars if c not in code.co_varnames) + code.co_freevars)[oparg]]", expect='C03-FREEVAR', benign=True),
    dict(id='C03-l1', file='pony/orm/decompiling.py', fn='Decompiler.process_target', old="            reached_limit = top is limit  # simplify() may replace a one-item clause with its item\n            top = simplify(top)\n            if reached_limit or top is limit:", new="            top = simplify(top)\n            if top is limit:", expect='C03-LIMIT'),
    dict(id='C03-f1', file='pony/orm/decompiling.py', fn='Decompiler.formatted_value', old="        return ast.JoinedStr([ast.FormattedValue(value=value, conversion=conversion, format_spec=format_spec)])", new="        return ast.FormattedValue(value=value, conversion=conversion, format_spec=format_spec)", expect='C03-FSTR'),
    dict(id='C03-m1', file='pony/orm/decompiling.py', fn='Decompiler.conditional_jump_none_impl', old='        decompiler.targets.setdefault(endpos, clause)', new='        decompiler.targets[endpos] = clause', expect='C03-TARGETS'),
    dict(id='C03-m2', file='pony/orm/decompiling.py', fn='Decompiler.decompile', old="            if method is None:\n                throw(DecompileError('Unsupported operation: %s' % opname))\n", new="            if method is None: continue\n", expect='C03-REJECT'),
    dict(id='C03-m3', file='pony/orm/decompiling.py', fn='decompile', old='    key = get_codeobject_id(codeobject)', new='    key = id(codeobject)', expect='C03-PIN'),
    dict(id='C03-m4b', file='pony/utils/utils.py', fn=None, old='codeobjects = {}', new='import weakref\ncodeobjects = weakref.WeakValueDictionary()', expect='C03-PIN.pin-table-holds-strong'),
    dict(id='C03-m4', file='pony/utils/utils.py', fn='get_codeobject_id', old='        codeobjects[codeobject_id] = codeobject', new='        pass', expect='C03-PIN'),
    dict(id='C03-m5', file='pony/orm/decompiling.py', fn='Decompiler.conditional_jump_new', old='        decompiler.targets.setdefault(endpos, clause)', new='        decompiler.targets[endpos] = clause', expect='C03-TARGETS'),
]
