"""C24  Query methods agree with list semantics of the full ordered result."""
import ast
from ..loader import dotted, walk_no_nested, norm, head, calls_in
from ..q import nodes_calling
from ..typestate import Machine

EXPLANATION = """
Static clauses decided (necessary conditions of C24):
 SIBLING  every translator field that shapes the selected row set and that construct_sql_ast (SELECT) consults --
          conditions, having_conditions, groupby_monads, limit, offset -- is also consulted (used or explicitly rejected) by
          its sibling construct_delete_sql_ast (bulk DELETE); a field the sibling never reads means the bulk delete
          removes rows of a different set than the query selects.
 DISTINCT the DISTINCT decision of construct_sql_ast must not be control-dependent on translator.order ("ordering a query
          only permutes its result").
 SLICE    Query.__getitem__ rejects a step other than 1 and a negative start, maps start >= stop to limit 0 and otherwise
          limit = stop - start, offset = start; page() uses offset (pagenum-1)*pagesize; get()/exists()/first() slice [:2]/[:1].
 RANGE    sign analysis (abstract interpretation over {None, >=0, any}) of combine_limit_and_offset: on every path the
          combined limit is None or non-negative (a negative LIMIT means "unlimited" to SQLite and MySQL); limit 0 drops the
          offset.
 CHAIN    "chained order_by behaves like chained stable sorts": the most recent order_by is the most significant key, so every
          function of SQLTranslator that adds terms to an existing ORDER BY list (order_by_numbers, order_by_attributes, the
          lambda/string path in apply_lambda -- siblings) PREPENDS them (`order[:0] = new_terms`); appending makes the later call the
          least significant key.  The list is copied before it is changed (the translator is shared through the cache).
 PERMUTE  "ordering a query only permutes its unordered result": tables joined only because an ORDER BY expression walks a relationship
          (order_by(lambda s: s.group.name)) must be OUTER-joined, otherwise the rows whose reference is NULL disappear from the
          ordered query.  Pony joins lazily (JoinedTableRef.make_join / SqlQuery.join_table) and the order path announces itself
          with translator.inside_order_by: the clause holds only if the join machinery consults that flag (or the order path
          switches the query to LEFT_JOIN itself).
"""
NOT_DECIDED = "the arithmetic of nested limit/offset combination beyond sign; aggregates; random()"

ST = 'pony.orm.sqltranslation'
CORE = 'pony.orm.core'
ROWSET = ('conditions', 'having_conditions', 'groupby_monads', 'limit', 'offset')


def fields_read(fn, recv):
    return {n.attr for n in walk_no_nested(fn.node) if isinstance(n, ast.Attribute) and dotted(n.value) == recv and isinstance(n.ctx, ast.Load)}


def eval_test_open(t, atom):
    """the scenario leaves the outcome of this test open"""
    from ..typestate import eval_test, resolve_flags
    return eval_test(t.ast, atom) is None


def run(ctx):
    repo, cg = ctx.repo, ctx.cg
    sel = repo.fn(ST, 'SQLTranslator.construct_sql_ast')
    dele = repo.fn(ST, 'SQLTranslator.construct_delete_sql_ast')
    rs, rd = fields_read(sel, sel.recv), fields_read(dele, dele.recv)
    ctx.need(set(ROWSET) <= rs, 'C24: construct_sql_ast no longer reads %s' % (set(ROWSET) - rs))
    gd = cg.cfg(dele)
    rets = [x for x in gd.nodes if x.kind == 'stmt' and isinstance(x.ast, ast.Return)]
    par = {}
    for x in ast.walk(dele.node):
        for ch in ast.iter_child_nodes(x): par[id(ch)] = x
    def consulted(f):
        """the field shapes the statement: it is read in a data position that builds the SQL AST (inside a list display, a list
        concatenation, an append/extend argument, the iterable of a loop), or queries with that field set are rejected (a test on
        the field whose true branch cannot reach a return).  A read that only steers a branch or sits in an assert does not count."""
        def dead(node):
            # inside `if v:` where v is only ever assigned the constant False
            x = node
            while id(x) in par:
                p_ = par[id(x)]
                if isinstance(p_, ast.If) and isinstance(p_.test, ast.Name) and x in p_.body:
                    defs = [st.value for st in walk_no_nested(dele.node) if isinstance(st, ast.Assign) and any(dotted(t) == p_.test.id for t in st.targets)]
                    if defs and all(isinstance(d_, ast.Constant) and not d_.value for d_ in defs): return True
                x = p_
            return False
        def data_use(a, depth=0):
            if dead(a) or depth > 3: return False
            x = a
            while id(x) in par and not isinstance(par[id(x)], ast.stmt):
                p_ = par[id(x)]
                if isinstance(p_, ast.List) or (isinstance(p_, ast.BinOp) and isinstance(p_.op, ast.Add)) or \
                        (isinstance(p_, ast.Call) and isinstance(p_.func, ast.Attribute) and p_.func.attr in ('append', 'extend') and x in p_.args):
                    return True
                x = p_
            st = par.get(id(x))
            if isinstance(st, ast.For) and x is st.iter: return True
            if isinstance(st, ast.Assign) and x is st.value and len(st.targets) == 1 and isinstance(st.targets[0], ast.Name):
                v = st.targets[0].id      # the value travels on in a local variable
                return any(data_use(u, depth + 1) for u in walk_no_nested(dele.node) if isinstance(u, ast.Name) and u.id == v and isinstance(u.ctx, ast.Load)
                           and u.lineno >= st.lineno)
            return False
        for a in walk_no_nested(dele.node):
            if isinstance(a, ast.Attribute) and a.attr == f and dotted(a.value) == dele.recv and isinstance(a.ctx, ast.Load) and data_use(a): return True
        for t in gd.nodes:
            if t.kind == 'test' and any(isinstance(a, ast.Attribute) and a.attr == f and dotted(a.value) == dele.recv for a in t.walk()):
                ts = [y for y, lab in gd.succ[t.id] if lab == 'T']
                r = gd.reach(ts)
                if ts and not any(x.id in r for x in rets) and gd.exit.id not in r: return True
        return False
    for f in ROWSET:
        ok = f in rd and consulted(f)
        ctx.ob('C24-SIBLING.bulk-delete-consults-row-set-field', dele, 'translator.' + f, ok,
               '' if ok else 'construct_sql_ast shapes the selected rows with translator.%s but construct_delete_sql_ast never puts it into its statement (nor rejects '
               'such queries): the bulk delete removes rows the query does not select' % f, expected='use translator.%s or reject such queries' % f)
    # which rows a LIMITED query selects depends on its ORDER BY: for both ways of being limited (a limit; an offset without limit) every
    # path of the delete constructor that emits the LIMIT section also emits ORDER BY translator.order
    from ..typestate import eval_test
    order_nodes = [x for x in gd.nodes if x.ast is not None and x.kind == 'stmt' and 'ORDER_BY' in norm(x.ast, limit=2000) and dele.recv + '.order' in norm(x.ast, limit=2000)]
    limit_nodes = [x for x in gd.nodes if x.ast is not None and x.kind == 'stmt' and "'LIMIT'" in norm(x.ast, limit=2000)]
    for scen, facts in (('limit without offset', {'limit_none': False, 'offset': False}), ('offset without limit', {'limit_none': True, 'offset': True})):
        def atom(text, node, facts=facts):
            t = text.replace(' ', '')
            R = dele.recv
            if t in (R + '.limitisNone', 'limitisNone'): return facts['limit_none']
            if t in (R + '.limitisnotNone', 'limitisnotNone'): return not facts['limit_none']
            if t == R + '.offset': return facts['offset']
            if t == 'limited': return True
            if t == R + '.order': return True
            if t in (R + '.groupby_monads', R + '.having_conditions', R + '.conditions'): return None
            if t == "%s.dialect=='MySQL'" % R: return False
            return None
        def edge_ok(x, y, lab):
            n_ = gd.nodes[x]
            if n_.kind != 'test' or lab not in ('T', 'F'): return True
            v = eval_test(n_.ast, atom)
            return v is None or v == (lab == 'T')
        r = gd.reach([gd.entry], avoid=order_nodes, edge_ok=edge_ok)
        bad = [x for x in limit_nodes if x.id in r]
        ok = bool(order_nodes) and bool(limit_nodes) and not bad
        ob = ctx.ob('C24-SIBLING.limited-bulk-delete-keeps-the-order', dele, limit_nodes[0].ast if limit_nodes else dele.node, ok,
                    '' if ok else 'for a source limited by %s the LIMIT section of the delete subquery is reachable without ORDER BY translator.order: the subquery picks '
                    'rows in storage order, the query picks them in its own order -- the bulk delete removes other rows than the query selects' % scen,
                    expected='ORDER_BY appended on every path that appends LIMIT')
        ob.key += '::' + scen
    # ---------------------------------------------------------------- DISTINCT
    g = cg.cfg(sel)
    ds = [x for x in g.nodes if x.kind == 'stmt' and isinstance(x.ast, ast.Assign) and any(dotted(t) == 'distinct' for t in x.ast.targets)]
    ctx.floor('C24-DISTINCT', len(ds), 1, 'definitions of the DISTINCT flag')
    for d in ds:
        deps = []
        for s in walk_no_nested(sel.node):
            if isinstance(s, ast.If) and any(x is d.ast for b in s.body + s.orelse for x in ast.walk(b)):
                deps.append(norm(s.test))
        bad = [t for t in deps if 'order' in t]
        ctx.ob('C24-DISTINCT.not-control-dependent-on-order', sel, d.ast, not bad,
               '' if not bad else 'the DISTINCT flag is only taken from translator.distinct under `%s`: adding order_by() to a query that is '
               'distinct by default drops DISTINCT and the ordered query returns duplicates the unordered one does not' % bad[0], node=d.ast)
    # ---------------------------------------------------------------- SLICE
    gi = repo.fn(CORE, 'Query.__getitem__'); g = cg.cfg(gi)
    tests = {norm(t.ast): t for t in g.nodes if t.kind == 'test'}
    def throws_after(t):
        ts = [y for y, lab in g.succ[t.id] if lab == 'T']
        return g.exit.id not in g.reach(ts)
    ok = 'step is not None and step != 1' in tests and throws_after(tests['step is not None and step != 1'])
    ctx.ob('C24-SLICE.step-rejected', gi, gi.node, ok, '' if ok else 'a slice step other than 1 is not rejected')
    ok = 'start < 0' in tests and throws_after(tests['start < 0'])
    ctx.ob('C24-SLICE.negative-start-rejected', gi, gi.node, ok, '' if ok else 'a negative slice start is not rejected')
    rets = {norm(x.ast.value): x for x in g.nodes if x.kind == 'stmt' and isinstance(x.ast, ast.Return)}
    recv = gi.recv
    ok = 'start >= stop' in tests and '%s._fetch(limit=0)' % recv in rets and '%s._fetch(limit=stop - start, offset=start)' % recv in rets \
        and '%s._fetch(limit=None, offset=start)' % recv in rets
    if ok:
        t = tests['start >= stop']
        ts = [y for y, lab in g.succ[t.id] if lab == 'T']
        fs = [y for y, lab in g.succ[t.id] if lab == 'F']
        ok = rets['%s._fetch(limit=0)' % recv].id in g.reach(ts) and rets['%s._fetch(limit=stop - start, offset=start)' % recv].id in g.reach(fs) \
            and rets['%s._fetch(limit=stop - start, offset=start)' % recv].id not in g.reach(ts)
    ctx.ob('C24-SLICE.window-arithmetic', gi, gi.node, ok, '' if ok else 'slice -> (limit, offset) mapping changed: returns are %s' % sorted(rets))
    pg = repo.fn(CORE, 'Query.page')
    # page(n, size) fetches `size` rows from offset (n - 1) * size: the arguments of the _fetch call, with single-assignment locals resolved, are
    # evaluated on sample page numbers and sizes (a whitelisted arithmetic evaluator, q.concrete_eval; nothing of pony runs)
    from ..q import resolve_names, concrete_eval, Unknown
    fetches = [c for c in calls_in(pg.node) if isinstance(c.func, ast.Attribute) and c.func.attr == '_fetch']
    ok = len(fetches) == 1 and len(pg.params) >= 3; why = 'page() does not end in one _fetch call'
    if ok:
        c = fetches[0]
        args = {k.arg: k.value for k in c.keywords if k.arg}
        if len(c.args) > 0: args.setdefault('limit', c.args[0])
        if len(c.args) > 1: args.setdefault('offset', c.args[1])
        pn, ps = pg.params[1], pg.params[2]
        try:
            for n_, size_ in ((1, 10), (2, 10), (3, 7), (5, 1)):
                env = {pn: n_, ps: size_}
                lim = concrete_eval(resolve_names(pg.node, args['limit']), env); off = concrete_eval(resolve_names(pg.node, args['offset']), env)
                if (lim, off) != (size_, (n_ - 1) * size_): ok = False; why = 'page(%d, %d) fetches limit=%r offset=%r' % (n_, size_, lim, off)
        except (Unknown, KeyError) as e_:
            ok = False; why = 'the window handed to _fetch is not an arithmetic expression of the page number and size (%s)' % type(e_).__name__
    ctx.ob('C24-SLICE.page-window', pg, pg.node, ok, '' if ok else why)
    for qual, sl in (('Query.get', '[:2]'), ('Query.exists', '[:1]'), ('Query.first', '[:1]')):
        f = repo.fn(CORE, qual)
        ok = any(isinstance(s, ast.Subscript) and isinstance(s.slice, ast.Slice) and s.slice.lower is None and norm(s.slice.upper) == sl[2:-1] for s in walk_no_nested(f.node))
        ctx.ob('C24-SLICE.%s-window' % f.name, f, f.node, ok, '' if ok else '%s no longer fetches %s' % (qual, sl))
    # ---------------------------------------------------------------- RANGE
    cl = repo.fn(ST, 'combine_limit_and_offset'); g = cg.cfg(cl)
    ctx.need(cl.params == ['limit', 'offset', 'limit2', 'offset2'], 'C24: combine_limit_and_offset signature changed')
    def sign(e, env):
        if isinstance(e, ast.Constant): return 'none' if e.value is None else ('nonneg' if isinstance(e.value, int) and e.value >= 0 else 'any')
        if isinstance(e, ast.Name): return env.get(e.id, 'any')
        if isinstance(e, ast.Call) and isinstance(e.func, ast.Name) and e.func.id == 'max' and any(isinstance(a, ast.Constant) and a.value == 0 for a in e.args): return 'nonneg'
        if isinstance(e, ast.Call) and isinstance(e.func, ast.Name) and e.func.id == 'min':
            return 'nonneg' if all(sign(a, env) == 'nonneg' for a in e.args) else 'any'
        if isinstance(e, ast.BoolOp) and isinstance(e.op, ast.Or):
            ss = [sign(v, env) for v in e.values]
            return 'nonneg' if all(s in ('nonneg', 'none') for s in ss) and ss[-1] == 'nonneg' else 'any'
        if isinstance(e, ast.BinOp) and isinstance(e.op, ast.Add): return 'nonneg' if sign(e.left, env) == 'nonneg' and sign(e.right, env) == 'nonneg' else 'any'
        return 'any'
    def effect(n, env):
        if n.kind != 'stmt': return None
        a = n.ast
        if isinstance(a, ast.Assign) and len(a.targets) == 1 and isinstance(a.targets[0], ast.Name) and a.targets[0].id in env:
            return {'normal': [{a.targets[0].id: sign(a.value, env)}]}
        if isinstance(a, ast.AugAssign) and isinstance(a.target, ast.Name) and a.target.id in env:
            ok_ = isinstance(a.op, ast.Add) and env[a.target.id] == 'nonneg' and sign(a.value, env) == 'nonneg'
            return {'normal': [{a.target.id: 'nonneg' if ok_ else 'any'}]}
        return None
    def atom(t, env):
        for v in ('limit', 'offset', 'limit2', 'offset2'):
            if t == v + ' is not None': return env[v] != 'none'
            if t == v + ' is None': return env[v] == 'none'
        return None
    m = Machine(g, ['limit', 'offset', 'limit2', 'offset2'], effect, atom)
    inits = [{'limit': a, 'offset': b, 'limit2': c, 'offset2': d} for a in ('none', 'nonneg') for b in ('none', 'nonneg') for c in ('none', 'nonneg') for d in ('none', 'nonneg')]
    IN = m.run(inits)
    sts = m.states_at(IN, g.exit)
    ctx.need(sts, 'C24-RANGE: no exit state')
    bad = [e for e in sts if e['limit'] == 'any']
    ctx.ob('C24-RANGE.combined-limit-is-never-negative', cl, cl.node, not bad,
           '' if not bad else 'on some path (e.g. entry signs limit/offset/limit2/offset2 -> exit %s) the combined limit is computed without a clamp to >= 0: '
           'a negative LIMIT is "no limit" for SQLite/MySQL, so an out-of-range window returns rows instead of nothing' % bad[0],
           expected='limit = max(0, limit - offset2) on every path')
    z = [t for t in g.nodes if t.kind == 'test' and norm(t.ast) == 'limit == 0']
    ok = bool(z) and any(x.kind == 'stmt' and norm(x.ast) == 'offset = None' and x.id in g.reach([y for y, lab in g.succ[z[0].id] if lab == 'T']) for x in g.nodes)
    ctx.ob('C24-RANGE.zero-limit-drops-offset', cl, z[0].stmt if z else cl.node, ok, '' if ok else 'limit 0 keeps an offset')

    # ---------------------------------------------------------------- PERMUTE
    al = repo.fn(ST, 'SQLTranslator.apply_lambda')
    sets = [st for st in walk_no_nested(al.node) if isinstance(st, ast.Assign) and any(dotted(t) == al.recv + '.inside_order_by' for t in st.targets)
            and isinstance(st.value, ast.Constant) and st.value.value is True]
    ctx.need(bool(sets), 'C24-PERMUTE: the order path of apply_lambda no longer sets inside_order_by')
    joiners = [f for f in repo.rule_funcs() if f.mod.name == ST and any(isinstance(c.func, ast.Attribute) and c.func.attr in ('join_table', 'make_join') for c in calls_in(f.node))
               or (f.mod.name == ST and f.name in ('join_table', 'make_join'))]
    readers = [f for f in joiners if any(isinstance(a, ast.Attribute) and a.attr == 'inside_order_by' and isinstance(a.ctx, ast.Load) for a in ast.walk(f.node))]
    switches = [st for st in walk_no_nested(al.node) if isinstance(st, ast.Assign) and ('LEFT_JOIN' in norm(st.value) or any((dotted(t) or '').endswith('left_join') for t in st.targets))]
    ok = bool(readers) or bool(switches)
    ctx.count('C24-PERMUTE: functions that create joins', len(joiners))
    ctx.ob('C24-PERMUTE.order-by-joins-are-outer-joins', al, sets[0], ok,
           '' if ok else 'none of the %d functions that create joins consults translator.inside_order_by and the order path does not switch to LEFT_JOIN: a table joined only '
           'for an ORDER BY expression is inner-joined, and rows whose reference is NULL vanish from the ordered query' % len(joiners), node=sets[0])
    # ---------------------------------------------------------------- CHAIN
    nch = 0
    tr = repo.cls('pony.orm.sqltranslation', 'SQLTranslator')
    for f in repo.rule_funcs():
        if f.cls is not tr or f.parent is not None: continue
        ordernames = {'translator.order'} | {dotted(t) for st in walk_no_nested(f.node) if isinstance(st, ast.Assign) and 'translator.order' in [dotted(x) for x in st.targets]
                                              for t in st.targets if isinstance(t, ast.Name)}
        growers = []
        for st in walk_no_nested(f.node):
            if isinstance(st, ast.Assign) and any(isinstance(t, ast.Subscript) and dotted(t.value) in ordernames for t in st.targets): growers.append((st, 'slice'))
            if isinstance(st, ast.Expr) and isinstance(st.value, ast.Call) and isinstance(st.value.func, ast.Attribute) and st.value.func.attr in ('append', 'extend', 'insert') \
                    and dotted(st.value.func.value) in ordernames: growers.append((st, st.value.func.attr))
            if isinstance(st, ast.AugAssign) and dotted(st.target) in ordernames: growers.append((st, 'augassign'))
        for st, how in growers:
            nch += 1
            ok = how == 'slice' and any(isinstance(t, ast.Subscript) and isinstance(t.slice, ast.Slice) and t.slice.lower is None and isinstance(t.slice.upper, ast.Constant)
                                        and t.slice.upper.value == 0 for t in st.targets)
            ok = ok or (how == 'insert' and isinstance(st.value.args[0], ast.Constant) and st.value.args[0].value == 0)
            ctx.ob('C24-CHAIN.later-order_by-is-the-more-significant-key', f, st, ok,
                   '' if ok else '%s adds its ORDER BY terms with `%s`, i.e. after the terms of earlier order_by calls; its siblings prepend (`order[:0] = ...`): '
                   'q.order_by(a).order_by(b) then sorts by a first, unlike sorted(sorted(rows, key=a), key=b)' % (f.qual, norm(st)), node=st, expected='order[:0] = new_order')
    ctx.floor('C24-CHAIN', nch, 3, 'statements that add terms to an existing ORDER BY list')
    # a lazy limited subquery (`x in q.limit(n)`, `for y in q[:n]`) takes part in the cache keys through QueryType: two of them are equal only if their
    # limits are -- limit 0 (no rows) and no limit (all rows) included.  In QueryType.__eq__ every read of `.limit` sits in a lossless position: an
    # operand of == / an element of a compared tuple, never under `or`, a truth test, bool() ...
    qt = repo.fn('pony.orm.ormtypes', 'QueryType.__eq__')
    par = {}
    for x in ast.walk(qt.node):
        for c in ast.iter_child_nodes(x): par[c] = x
    reads = [x for x in ast.walk(qt.node) if isinstance(x, ast.Attribute) and x.attr == 'limit' and isinstance(x.ctx, ast.Load)]
    lossy = []
    for r_ in reads:
        y = r_
        while y in par and not isinstance(par[y], ast.stmt):
            p_ = par[y]
            fine = isinstance(p_, (ast.Tuple, ast.List)) or (isinstance(p_, ast.Compare) and all(isinstance(o, (ast.Eq, ast.NotEq)) for o in p_.ops)) or \
                (isinstance(p_, ast.BoolOp) and isinstance(p_.op, ast.And) and isinstance(y, ast.Compare))
            if not fine: lossy.append((r_, p_)); break
            y = p_
    owners = {dotted(r_.value) for r_ in reads}
    ok = len(owners) >= 2 and not lossy
    ctx.ob('C24-RANGE.limited-subquery-type-distinguishes-every-limit', qt, lossy[0][1] if lossy else qt.node, ok,
           '' if ok else ('QueryType.__eq__ compares `%s`, which maps different limits to the same value (0 and None): `x in q.limit(0)` and `x in q` then share one cache key and '
                          'one of them is answered with the other\'s SQL' % norm(lossy[0][1])) if lossy else 'QueryType.__eq__ does not compare the limits of both operands')

    # the ordered result R of a query is what its slices are compared with: no QueryResult method reorders the list that the session result cache
    # hands out again for the same query (C05's alias rule, evaluated here as well)
    from .C05 import alias_rule
    alias_rule(ctx, 'C24-ALIAS')
    # ---------------------------------------------------------------- LIMSUB
    # "queries that iterate over a limited subquery": what the outer query adds (conditions, ordering, its own limit) applies to the *limited*
    # rows.  process_query_qual may "extend" the previous translator (the outer query's conditions are then added to the previous WHERE, in
    # front of the previous LIMIT); for a previous query that has a limit or an offset that is only sound behind some further test -- under the
    # scenario "previous query limited, not aggregated, no left join" the extension must not be reached unconditionally.
    pq = repo.fn('pony.orm.sqltranslation', 'SQLTranslator.process_query_qual'); gq_ = cg.cfg(pq)
    ext = [x for x in gq_.nodes if x.kind == 'stmt' and isinstance(x.ast, ast.Raise) and x.ast.exc is not None and 'UseAnotherTranslator' in norm(x.ast.exc)]
    ctx.need(ext, 'C24-LIMSUB: the extension of the previous translator (raise UseAnotherTranslator) was not found in process_query_qual')
    def limited(text, node):
        t_ = text.replace(' ', '')
        if t_ in ('prev_limitisNone', 'prev_offsetisNone', 'prev_translator.limitisNone', 'prev_translator.offsetisNone'): return False
        if t_ in ('prev_limitisnotNone', 'prev_offsetisnotNone', 'prev_translator.limitisnotNone', 'prev_translator.offsetisnotNone'): return True
        if t_.endswith('.aggregated') or t_.endswith('.left_join'): return False
        if t_ == 'try_extend_prev_query': return True
        return None
    from ..typestate import scenario_edges as _sel, eval_test, resolve_flags
    eo_l = _sel(gq_, pq.node, limited, resolve=True)
    live_l = gq_.reach([gq_.entry], edge_ok=eo_l)
    for x in ext:
        # reached, and by decided edges only?  (a test inside the `if try_extend_prev_query:` block whose outcome the scenario leaves open is a further guard)
        blocks_ = [i_ for i_ in ast.walk(pq.node) if isinstance(i_, ast.If) and any(x.ast is y for y in ast.walk(i_)) and 'try_extend_prev_query' in norm(i_.test)]
        inner_tests = [t for b_ in blocks_ for t in ast.walk(b_) if isinstance(t, (ast.If, ast.IfExp)) and t is not b_ and any(x.ast is y for y in ast.walk(t))]
        open_guard = any(eval_test(resolve_flags(pq.node, t.test), limited) is None for t in inner_tests)
        unconditional = x.id in live_l and bool(blocks_) and not open_guard
        ctx.ob('C24-LIMSUB.a-limited-query-is-not-extended-unconditionally', pq, x.ast, not unconditional,
               '' if not unconditional else 'process_query_qual extends a previous query that has a limit / offset: the conditions of the outer query are added to the WHERE in front of that '
               'LIMIT, so `select(p for p in q.limit(5, offset=2) if p.age > 23)` filters first and limits afterwards', node=x.ast)
    # ---------------------------------------------------------------- ZERO
    # a limit is None (no limit) or a number, and 0 is a number ("no rows"): at the query / translator level every test on a limit is a comparison
    # (`is None`, `is not None`, `== 0`, ...).  A truthiness test treats limit 0 as "no limit": `p in q.limit(0)` then matches every row of q.
    # (An offset of 0 and no offset mean the same, so offsets may be tested for truth.  The SQL builders receive AST nodes, not numbers.)
    def truth_operands(e):
        if isinstance(e, ast.BoolOp):
            for v in e.values: yield from truth_operands(v)
        elif isinstance(e, ast.UnaryOp) and isinstance(e.op, ast.Not): yield from truth_operands(e.operand)
        else: yield e
    def is_limit(e):
        d = dotted(e) if isinstance(e, (ast.Name, ast.Attribute)) else None
        return bool(d) and (d.split('.')[-1] == 'limit' or d.split('.')[-1].endswith('_limit'))
    nz = 0
    for f in repo.rule_funcs():
        if f.mod.name not in ('pony.orm.sqltranslation', 'pony.orm.core'): continue
        for n in walk_no_nested(f.node):
            tests = [n.test] if isinstance(n, (ast.If, ast.While, ast.Assert)) else []
            if isinstance(n, ast.stmt) and not isinstance(n, (ast.If, ast.While, ast.For, ast.With, ast.Try, ast.FunctionDef, ast.ClassDef)):
                tests += [x.test for x in ast.walk(n) if isinstance(x, ast.IfExp)]
                tests += [x for x in ast.walk(n) if isinstance(x, ast.BoolOp)]
            for t in tests:
                if not any(is_limit(x) for x in ast.walk(t)): continue
                nz += 1
                bad = [o for o in truth_operands(t) if is_limit(o)]
                ctx.ob('C24-ZERO.limit-is-compared-never-tested-for-truth', f, t, not bad,
                       '' if not bad else '`%s` tests a limit for truth: limit 0 ("no rows") is taken for "no limit", so a subquery limited to 0 rows is embedded without LIMIT '
                       'and `x in q.limit(0)` matches every row of q' % norm(t)[:60], node=n)
    ctx.floor('C24-ZERO', nz, 6, 'tests that mention a limit')


MUTANTS = [
    dict(id='C24-zero1', file='pony/orm/sqltranslation.py', fn='SQLTranslator.dispatch_external', old="            if t.limit is not None or t.offset is not None:", new="            if t.limit or t.offset:", expect='C24-ZERO'),
    dict(id='C24-zero2', file='pony/orm/sqltranslation.py', fn='SQLTranslator.dispatch_external', old="            if t.limit is not None or t.offset is not None:", new="            if t.limit is not None or t.offset:", benign=True),
    dict(id='C24-qt', file='pony/orm/ormtypes.py', fn='QueryType.__eq__', old="and self.limit == other.limit and self.offset == other.offset", new="and bool(self.limit) == bool(other.limit) and self.offset == other.offset", expect='C24-RANGE.limited-subquery-type'),
    dict(id='C24-o1', file='pony/orm/sqltranslation.py', fn='SQLTranslator.construct_delete_sql_ast', old="                if translator.order: subquery_ast.append([ 'ORDER_BY' ] + translator.order)\n                limit = translator.limit if translator.limit is not None else -1 if translator.dialect == 'SQLite' else None\n",
         new="                limit = translator.limit\n                if limit is None:\n                    if translator.dialect == 'SQLite': limit = -1\n                elif translator.order: subquery_ast.append([ 'ORDER_BY' ] + translator.order)\n", expect='C24-SIBLING.limited'),
    dict(id='C24-s9', file='pony/orm/sqltranslation.py', fn='SQLTranslator.construct_delete_sql_ast', old="                if translator.having_conditions:\n                    subquery_ast.append([ 'HAVING' ] + translator.having_conditions)\n", new="", expect='C24-SIBLING'),
    dict(id='C24-c1', file='pony/orm/sqltranslation.py', fn='SQLTranslator.order_by_numbers', old="        order[:0] = new_order", new="        order.extend(new_order)", expect='C24-CHAIN'),
    dict(id='C24-m1', file='pony/orm/sqltranslation.py', fn='combine_limit_and_offset', old='            limit = max(0, limit - offset2)', new='            limit -= offset2', expect='C24-RANGE'),
    dict(id='C24-m2', file='pony/orm/sqltranslation.py', fn='combine_limit_and_offset', old='            limit = max(0, limit - offset2)', new='            limit = max(limit - offset2, 0)', benign=True),
    dict(id='C24-m3', file='pony/orm/core.py', fn='Query.__getitem__', old='        if start >= stop:\n            return query._fetch(limit=0)\n', new='', expect='C24-SLICE.window'),
    dict(id='C24-m4', file='pony/orm/core.py', fn='Query.__getitem__', old="        elif start < 0: throw(TypeError, \"Parameter 'start' of slice object cannot be negative\")\n", new='', expect='C24-SLICE.negative'),
    dict(id='C24-m5', file='pony/orm/core.py', fn='Query.page', old='offset = (pagenum - 1) * pagesize', new='offset = pagenum * pagesize', expect='C24-SLICE.page'),
    dict(id='C24-m6', file='pony/orm/sqltranslation.py', fn='SQLTranslator.construct_delete_sql_ast', old="        limited = translator.limit is not None or translator.offset\n", new="        limited = False\n", expect='C24-SIBLING'),
    dict(id='C24-m7', file='pony/orm/core.py', fn='Query.get', old='objects = query[:2]', new='objects = query[:1]', expect='C24-SLICE.get'),
]
