"""C14  Primary and unique keys are never silently duplicated."""
import ast
from ..loader import dotted, walk_no_nested, norm, head, calls_in
from ..q import nodes_calling, is_call_to
from ._index import guard_rule

EXPLANATION = """
Static clauses decided (necessary conditions of C14):
 GUARD   every statement in core.py that binds a key value to an object in a key index of the session cache
         (cache.indexes[...]) is guarded: `setdefault` followed on every continuing path by the identity check that
         throws, or a plain store dominated by a throwing membership test / a get()-is-None test on the same index and
         key / creation through the identity map; restores inside undo closures are exempt.
 FLUSH   a conflict reported by the database at flush time is an error: in _save_created_ the INSERT sits in a try
         whose IntegrityError handler ends in throw(TransactionIntegrityError); the auto-generated id is registered
         with setdefault + identity check.
 DBKEY   every declared key becomes a UNIQUE index in the generated schema (the database is what rejects a duplicate the session cannot see).
 DIRTY   SessionCache.flush clears the session's dirty state (cache.modified = False, save queue) only after the save
         loop of the round: a flush that failed leaves the session dirty, so the commit at session end retries, fails
         again and rolls back instead of committing the part that was flushed earlier.
 DBKEY+  DBIndex.__init__ marks the column of every unique single-column index (three-valued evaluation of the flag expression under
         "unique, one column"): no further condition on the column withholds the inline UNIQUE.
 ABORT   (round 8, shared with C17) "a conflict found at flush time leaves the database unchanged for that session": every exception edge of
         cache.flush() / provider.commit() in SessionCache.flush_and_commit and SessionCache.commit, and of the flush loop in commit(), reaches
         the raise only through rollback -- for every exception class (TransactionIntegrityError is not a DBException, so a handler narrowed
         to DBException leaves the transaction with the rows flushed earlier open, and the session end commits them).
"""
NOT_DECIDED = "database-level uniqueness; key swaps between objects across flushes"

CORE = 'pony.orm.core'


def run(ctx):
    repo, cg = ctx.repo, ctx.cg
    guard_rule(ctx, 'C14-GUARD')
    # ---------------------------------------------------------------- ABORT (shared with C17): a conflict found at flush time leaves the database
    # unchanged for that session -- every way a flush failure leaves SessionCache.flush_and_commit / SessionCache.commit / commit() passes rollback,
    # whatever the exception class (a key conflict surfaces as TransactionIntegrityError, which is not a DBException)
    from . import C17
    C17.abort_rules(ctx, P='C14-ABORT')
    C17.global_commit_rules(ctx, P='C14-ABORT')
    sc = repo.fn(CORE, 'Entity._save_created_')
    g = cg.cfg(sc)
    ex = nodes_calling(g, lambda c: isinstance(c.func, ast.Attribute) and c.func.attr == '_exec_sql')
    ctx.floor('C14-FLUSH', len(ex), 2, 'INSERT executions in _save_created_')
    hs = [h for h in g.nodes if h.kind == 'handler' and h.ast.type is not None and norm(h.ast.type) == 'IntegrityError']
    for e in ex:
        es = [y for y, lab in g.succ[e.id] if lab == 'exc']
        ok = bool(hs) and all(h.id in g.reach(es) for h in hs)
        for h in hs:
            thr = [n for n in g.nodes if n.kind == 'stmt' and isinstance(n.ast, ast.Expr) and isinstance(n.ast.value, ast.Call)
                   and dotted(n.ast.value.func) == 'throw' and n.ast.value.args and dotted(n.ast.value.args[0]) == 'TransactionIntegrityError']
            rr = g.reach([h], avoid=thr)
            if g.exit.id in rr or not thr: ok = False
        ctx.ob('C14-FLUSH.integrity-error-is-reported', sc, e.ast, ok,
               '' if ok else 'an IntegrityError raised by the INSERT is not turned into TransactionIntegrityError (or is swallowed)', node=e.ast)
    fl = repo.fn(CORE, 'SessionCache.flush')
    g = cg.cfg(fl); recv = fl.recv
    save_calls = nodes_calling(g, lambda c: isinstance(c.func, ast.Attribute) and c.func.attr == '_save_')
    saves = []
    for sc_ in save_calls:      # innermost enclosing for-loop of each save call
        heads = [x for x in g.nodes if x.kind == 'iter' and x.lineno <= sc_.lineno <= x.ast.end_lineno]
        if heads: saves.append(max(heads, key=lambda x: x.lineno))
    clears = [x for x in g.nodes if x.kind == 'stmt' and isinstance(x.ast, ast.Assign) and any(dotted(t) == recv + '.modified' for t in x.ast.targets)
              and isinstance(x.ast.value, ast.Constant) and x.ast.value.value is False]
    clears += [x for x in g.nodes if x.kind == 'stmt' and isinstance(x.ast, ast.Assign) and any(
        isinstance(t, ast.Subscript) and dotted(t.value) == recv + '.objects_to_save' for t in x.ast.targets)]
    ctx.floor('C14-DIRTY', len(clears), 2, 'statements clearing the dirty state in flush')
    for c in clears:
        ok = bool(saves) and g.dominated(c, saves)
        ctx.ob('C14-DIRTY.dirty-state-cleared-only-after-saves', fl, c.ast, ok,
               '' if ok else '`%s` runs before the objects are saved: if a save raises (key conflict found by the database) the session looks clean, '
               'later flush/commit return early and the session commits the part that was flushed before the conflict' % head(c.ast), node=c.ast)
    # ---------------------------------------------------------------- DBKEY
    from . import C26
    C26.flags_rule(ctx, prefix='C14-DBKEY', flags=('is_unique',))      # ... and a unique column carries UNIQUE in the CREATE TABLE text
    # the last line of defence is the database: every declared key of an entity (entity._indexes_, primary key aside) becomes an index with
    # is_unique=index.is_unique in generate_mapping -- the loop over the declared keys skips nothing but the primary key
    gm = repo.fn('pony.orm.core', 'Database.generate_mapping'); g = cg.cfg(gm)
    loops = [x for x in g.nodes if x.kind == 'iter' and norm(x.ast.iter).endswith('._indexes_')]
    ctx.need(bool(loops), 'C14-DBKEY: loop over entity._indexes_ not found in generate_mapping')
    for L in loops:
        iv = norm(L.ast.target)
        adds = [x for x in nodes_calling(g, lambda c: isinstance(c.func, ast.Attribute) and c.func.attr == 'add_index' and any(k.arg == 'is_unique' and norm(k.value) == iv + '.is_unique' for k in c.keywords))
                if any(x.ast in ast.walk(b) or x.stmt is b for b in L.ast.body)]
        pk_tests = {t.id for t in g.nodes if t.kind == 'test' and norm(t.ast) == iv + '.is_pk'}
        first = [x for x in g.nodes if x.stmt is L.ast.body[0]][:1]
        r = g.reach(first, avoid=adds, edge_ok=lambda x, y, lab: not (x in pk_tests and lab == 'T'))
        ok = bool(adds) and L.id not in r
        ctx.ob('C14-DBKEY.every-declared-key-becomes-a-unique-index', gm, adds[0].ast if adds else L.ast.iter, ok,
               '' if ok else 'an iteration over the declared keys can finish without table.add_index(..., is_unique=%s.is_unique) for a key that is not the primary key: the database gets no '
               'UNIQUE constraint for it, so a duplicate written from a session that has not loaded the clashing row is committed silently' % iv, node=L.ast)
    from . import C26 as _C26
    _C26.ddl_rules(ctx, 'C14-DBKEY', which=('unique',))


MUTANTS = [
    dict(id='C14-a1', file='pony/orm/core.py', fn='SessionCache.flush_and_commit', old='        try: cache.flush()\n        except:\n            cache.rollback()', new='        try: cache.flush()\n        except DBException:\n            cache.rollback()', expect='C14-ABORT.rollback-when-flush-fails'),
    dict(id='C14-k2', file='pony/orm/dbschema.py', fn='Column.get_sql', old="                if column.is_unique: append(case('UNIQUE'))", new="                if column.is_unique and not column.is_not_null: append(case('UNIQUE'))", expect='C14-DBKEY.column-flag'),
    dict(id='C14-k1', file='pony/orm/core.py', fn='Database.generate_mapping', old="                attrs = index.attrs\n                for attr in attrs: column_names.extend(attr.columns)", new="                attrs = index.attrs\n                if len(attrs) == 1 and attrs[0].index: continue\n                for attr in attrs: column_names.extend(attr.columns)", expect='C14-DBKEY'),
    dict(id='C14-m1', file='pony/orm/core.py', fn='SessionCache.update_simple_index',
         old='            obj2 = cache_index.setdefault(new_val, obj)\n            if obj2 is not obj: throw(CacheIndexError,', new='            obj2 = cache_index[new_val] = obj\n            if obj2 is not obj: throw(CacheIndexError,', expect='C14-GUARD'),
    dict(id='C14-m2', file='pony/orm/core.py', fn='Entity.__init__',
         old="                if val in cache_indexes[attr]: throw(CacheIndexError,\n                    'Cannot create %s: value %r for key %s already exists' % (entity.__name__, val, attr.name))\n",
         new='', expect='C14-GUARD'),
    dict(id='C14-m3', file='pony/orm/core.py', fn='Entity._save_created_', old='        except IntegrityError as e:\n            msg = " ".join(tostring(arg) for arg in e.args)\n            throw(TransactionIntegrityError,',
         new='        except IntegrityError as e:\n            msg = " ".join(tostring(arg) for arg in e.args)\n            log_orm(', expect='C14-FLUSH'),
    dict(id='C14-m4', file='pony/orm/core.py', fn='SessionCache.flush', old='                if not cache.modified: return\n', new='                if not cache.modified: return\n                cache.modified = False\n', expect='C14-DIRTY'),
    dict(id='C14-m5', file='pony/orm/core.py', fn='Entity._save_created_', old='            obj2 = cache_index.setdefault(new_id, obj)\n            if obj2 is not obj: throw(TransactionIntegrityError,',
         new='            obj2 = cache_index.setdefault(new_id, obj)\n            if False: throw(TransactionIntegrityError,', expect='C14-GUARD'),
    dict(id='C14-m6', file='pony/orm/core.py', fn='EntityMeta._get_from_identity_map_', old='        else: obj = cache_index.get(pkval)\n', new='        else: obj = None\n', expect='C14-GUARD'),
]
