"""Shared R-GUARD rule: every store into a key index of the session cache is guarded (used by C11 and C14)."""
import ast
from ..loader import dotted, walk_no_nested, norm, head
from ..q import nodes_calling
from .C13 import is_index_expr

CORE = 'pony.orm.core'


def index_stores(fn):
    """(node, kind, index expr, key expr) for each statement that binds a key to an object in an index"""
    out = []
    for n in walk_no_nested(fn.node):
        if isinstance(n, ast.Assign):
            for t in n.targets:
                if isinstance(t, ast.Subscript) and is_index_expr(t.value): out.append((n, 'store', t.value, t.slice))
        if isinstance(n, ast.Call) and isinstance(n.func, ast.Attribute) and n.func.attr == 'setdefault' and is_index_expr(n.func.value) and len(n.args) == 2:
            out.append((n, 'setdefault', n.func.value, n.args[0]))
    return out


def guard_rule(ctx, rule):
    repo, cg = ctx.repo, ctx.cg
    core = repo.mod(CORE)
    n = 0
    for fn in repo.rule_funcs():
        if fn.mod is not core: continue
        stores = index_stores(fn)
        if not stores: continue
        g = cg.cfg(fn)
        in_undo = fn.parent is not None and fn.name.startswith('undo')
        for node, kind, idx, key in stores:
            n += 1
            if in_undo:
                ctx.ob(rule + '.index-store-is-guarded', fn, node, True, 'restores the previous owner inside an undo closure', node=node, nontrivial=False)
                continue
            ok, why = False, ''
            if kind == 'setdefault':
                # obj2 = index.setdefault(k, obj); if obj2 is not obj: throw(...)
                # obj2 = index.setdefault(k, obj); if obj2 is not obj: throw(...)      -- or the same without the temporary:
                # if index.setdefault(k, obj) is not obj: throw(...)
                owner = norm(node.args[1])
                inline = [t for t in g.nodes if t.kind == 'test' and any(
                    isinstance(c, ast.Compare) and len(c.ops) == 1 and isinstance(c.ops[0], ast.IsNot) and c.left is node and norm(c.comparators[0]) == owner for c in ast.walk(t.ast))]
                if inline:
                    ok = True
                    for t in inline:
                        ts = [y for y, lab in g.succ[t.id] if lab == 'T']
                        if g.exit.id in g.reach(ts): ok = False
                    var = norm(node)
                else:
                    st = enclosing_stmt(fn, node)
                    var = dotted(st.targets[0]) if isinstance(st, ast.Assign) and len(st.targets) == 1 else None
                    tests = [t for t in g.nodes if t.kind == 'test' and var and norm(t.ast) in ('%s is not %s' % (var, owner), 'not %s is %s' % (var, owner))]
                    sn = g.nodes_of(st)
                    ok = bool(tests) and bool(sn)
                    for s in sn:
                        if not g.must_pass_after(s, tests, exits=[g.exit]): ok = False
                    for t in tests:
                        ts = [y for y, lab in g.succ[t.id] if lab == 'T']
                        if g.exit.id in g.reach(ts): ok = False
                why = 'setdefault result is not checked with `%s is not %s` -> throw on every continuing path' % (var, owner)
            else:
                st = node
                sn = g.nodes_of(st)
                ktxt, itxt = norm(key), norm(idx)
                # (a) dominated by the false edge of `key in index` (throwing true edge)
                from ..q import resolve_local as _rl         # a local that names the index (`composite_index = cache_indexes[attrs]`) reads like the index
                def _rn(fn_node, t):
                    import copy
                    if isinstance(t, ast.Compare) and len(t.ops) == 1 and isinstance(t.ops[0], (ast.In, ast.NotIn)) and isinstance(t.comparators[0], ast.Name):
                        t = copy.copy(t); t.comparators = [_rl(fn_node, t.comparators[0])]
                    return t
                mem = {t.id for t in g.nodes if t.kind == 'test' and (norm(t.ast) == '%s in %s' % (ktxt, itxt) or norm(_rn(fn.node, t.ast)) == '%s in %s' % (ktxt, itxt))}
                # (b) dominated by the true edge of `<v> is None` where v = index.get(key)
                getvars = {dotted(s.targets[0]) for s in walk_no_nested(fn.node) if isinstance(s, ast.Assign) and len(s.targets) == 1
                           and norm(s.value) == '%s.get(%s)' % (itxt, ktxt)}
                nonev = {t.id for t in g.nodes if t.kind == 'test' and any(norm(t.ast) == '%s is None' % v for v in getvars)}
                r1 = g.reach([g.entry], edge_ok=lambda x, y, lab: not (x in mem and lab == 'F') and not (x in nonev and lab == 'T'))
                ok = bool(sn) and all(s.id not in r1 for s in sn)
                # (c) dominated by a creation through the identity map (throws CacheIndexError when the key is taken)
                if not ok:
                    idm = nodes_calling(g, lambda c: isinstance(c.func, ast.Attribute) and c.func.attr == '_get_from_identity_map_'
                                        and len(c.args) >= 2 and norm(c.args[1]) == "'created'")
                    if idm and all(g.dominated(s, idm) for s in sn) and 'pk' in itxt.lower(): ok = True
                # (d) replay of a table whose entries were each admitted after a failed membership test
                if not ok:
                    for loop in [l for l in walk_no_nested(fn.node) if isinstance(l, ast.For) and st in l.body and isinstance(l.iter, ast.Call)
                                 and isinstance(l.iter.func, ast.Attribute) and l.iter.func.attr == 'items']:
                        table = dotted(loop.iter.func.value)
                        adds = [s for s in walk_no_nested(fn.node) if isinstance(s, ast.Assign) and any(
                            isinstance(t, ast.Subscript) and dotted(t.value) == table for t in s.targets)]
                        good = bool(adds)
                        for a in adds:
                            t0 = [t for t in a.targets if isinstance(t, ast.Subscript)][0]
                            want = '%s in cache_indexes[%s]' % (norm(a.value), norm(t0.slice))
                            tm = {t.id for t in g.nodes if t.kind == 'test' and (norm(t.ast) == want or norm(_rn(fn.node, t.ast)) == want)}
                            rr = g.reach([g.entry], edge_ok=lambda x, y, lab: not (x in tm and lab == 'F'))
                            if not tm or any(x.id in rr for x in g.nodes_of(a)): good = False
                        if good: ok = True
                why = 'the slot %s[%s] is bound without first establishing that the key is free (no `in` test, no get()-is-None test, ' \
                      'no creation through the identity map)' % (itxt, ktxt)
            ctx.ob(rule + '.index-store-is-guarded', fn, node, ok, '' if ok else why, node=node,
                   expected='setdefault + identity check, or a dominating membership test that throws')
    ctx.floor(rule, n, 9, 'key-index stores')


def enclosing_stmt(fn, node):
    for s in walk_no_nested(fn.node):
        if isinstance(s, ast.stmt) and not isinstance(s, (ast.If, ast.For, ast.While, ast.Try, ast.With, ast.FunctionDef)):
            if any(x is node for x in ast.walk(s)): return s
    return node
