"""C16  Flush emits writes in an order the database accepts."""
import ast
from ..loader import dotted, walk_no_nested, norm, head, calls_in
from ..q import nodes_calling, is_call_to

EXPLANATION = """
Static clauses decided (necessary conditions of C16): the ordering skeleton of a flush round.
 ROUND   in SessionCache.flush, on every path of a round: before-save hooks -> snapshot of m2m changes
         (_calc_modified_m2m) -> removal of m2m links -> object saves -> insertion of m2m links (links are removed before
         the rows they reference are deleted and inserted after the rows they reference exist).
 PRINC   Entity._save_ saves the principals of a created/modified object (_save_principal_objects_) before the object's own
         statement, and passes the dependency chain down; _save_principal_objects_ recurses only into principals that are
         still 'created', passing the same chain; (round 8) and into EVERY such principal: with `v is not None` and `v._status_ == 'created'`
         granted, no further condition (queue position, flags) lets the iteration continue without the recursive save.
 CYCLE   UnresolvableCyclicDependency is raised exactly when the object whose principals are being saved is already on
         the chain (test `<receiver> in dependent_objects`, evaluated before the object is appended); it is not raised
         for principals that are merely referenced (already saved objects stay on the chain and are legitimately
         reachable twice through a diamond).
 ABORT   "when the references form a cycle ... the session's writes are not committed": the module-level commit() flushes every
         cache before any database is committed and rolls back on a flush error (rules shared with C17-ABORT).
 DELQ    the queue order is the statement order, and Pony cascades depth-first (dependents are marked before the object they
         depend on): an object that becomes marked_to_delete is put at the END of the save queue (objects_to_save.append on
         every path that sets the status, with _save_pos_ = the new index), and when it already held a slot as a pending UPDATE
         that slot is vacated (set to None).  Reusing the old slot would emit its DELETE before the DELETE/UPDATE of the rows
         that still reference it.
 POS     as C13-POS.
 M2M     _calc_modified_m2m collects the pending added / removed pairs of every object of a modified collection whatever the object's
         status (scenarios marked_to_delete / not): link rows of a deleted object are deleted by the same flush, before its own row.
"""
# "flush raises an error and the session's writes are not committed": that the writes made before the error are inside a transaction that is then
# rolled back is exactly what the C17 clauses establish (transaction opened before the first write, flag set only after BEGIN succeeded, no reconnect in
# the middle of a transaction) -- they are necessary conditions of C16's second sentence as well
INCLUDES = ('C17',)

NOT_DECIDED = "that the resulting statement order satisfies every foreign-key graph; deferred constraints; ordering between unrelated objects"

CORE = 'pony.orm.core'


def m2m_rule(ctx, P='C16-M2M'):
    repo, cg = ctx.repo, ctx.cg
    # ---------------------------------------------------------------- M2M
    # the link rows to insert / remove are taken from every object of a modified collection, whatever the object's own status: an object that is
    # marked for deletion still has its pending `removed` pairs collected -- flush deletes those link rows *before* the object's own row, which a
    # link table with plain (non-cascading) foreign keys requires.  Scenario: first side of a many-to-many relation, owner marked_to_delete (and,
    # as a second scenario, not marked), setdata.added / setdata.removed non-empty: every iteration of the collecting loop passes both inner loops.
    from ..typestate import scenario_edges
    cm = repo.fn('pony.orm.core', 'SessionCache._calc_modified_m2m'); gm = cg.cfg(cm)
    inner = {}
    for x in gm.nodes:
        if x.kind != 'iter': continue
        for a_ in ast.walk(x.ast.iter):
            if isinstance(a_, ast.Attribute) and a_.attr in ('added', 'removed'): inner.setdefault(a_.attr, []).append(x); break
    ctx.need('added' in inner and 'removed' in inner, P + ': the loops over setdata.added / setdata.removed were not found in _calc_modified_m2m')
    obj_loops = [x for x in gm.nodes if x.kind == 'iter' and any(i.ast in ast.walk(x.ast) for v in inner.values() for i in v)
                 and 'modified_collections' not in norm(x.ast.iter) and not any(x is i for v in inner.values() for i in v)]
    ctx.need(obj_loops, P + ': the loop over the objects of a modified collection was not found')
    nm = 0
    for marked in (True, False):
        def atom(text, node, marked=marked):
            if isinstance(node, ast.Compare) and len(node.ops) == 1 and isinstance(node.comparators[0], ast.Constant) and node.comparators[0].value == 'marked_to_delete' \
                    and (dotted(node.left) or '').endswith('_status_'):
                return marked == isinstance(node.ops[0], ast.Eq)
            if isinstance(node, ast.Attribute) and node.attr in ('added', 'removed'): return True
            return None
        eo = scenario_edges(gm, cm.node, atom, resolve=True)
        for L in obj_loops:
            starts = [y for y, lab in gm.succ[L.id] if lab == 'loop']
            for kind in ('added', 'removed'):
                guards = [i for i in inner[kind] if i.ast in ast.walk(L.ast)]
                r = gm.reach(starts, avoid=guards, edge_ok=lambda x, y, lab, eo=eo: lab != 'exc' and eo(x, y, lab))
                ok = bool(guards) and L.id not in r
                nm += 1
                ctx.ob(P + '.pending-link-changes-are-collected-whatever-the-owner-status', cm, guards[0].ast.iter if guards else L.ast, ok,
                       '' if ok else 'for an owner that is %s an iteration of the collecting loop can finish without going through `setdata.%s`: those link rows are not %s by this flush '
                       '(for a deleted owner: its row is deleted while link rows still refer to it -- the database rejects an orderable deletion)'
                       % ('marked for deletion' if marked else 'not deleted', kind, 'inserted' if kind == 'added' else 'deleted'), node=L.ast).key += '::%s::%s' % (kind, marked)
    ctx.floor(P, nm, 4, '(owner status, pending set) scenarios of the collecting loop')


def run(ctx):
    repo, cg = ctx.repo, ctx.cg
    fl = repo.fn(CORE, 'SessionCache.flush')
    g = cg.cfg(fl)
    def calls(name): return nodes_calling(g, lambda c: isinstance(c.func, ast.Attribute) and c.func.attr == name)
    hooks, calc, rem, sav, add = calls('_before_save_'), calls('_calc_modified_m2m'), calls('remove_m2m'), calls('_save_'), calls('add_m2m')
    for nm, lst in (('_before_save_', hooks), ('_calc_modified_m2m', calc), ('remove_m2m', rem), ('_save_', sav), ('add_m2m', add)):
        ctx.need(lst, 'C16: SessionCache.flush no longer calls %s' % nm)
    def loop_head(n):
        """the for-statement head that governs node n (dominating it even when the body runs zero times)"""
        heads = [x for x in g.nodes if x.kind == 'iter' and n.id in g.reach([x]) and x.lineno <= n.lineno and x.ast.end_lineno >= n.lineno]
        return max(heads, key=lambda x: x.lineno) if heads else n
    order = [('hooks', [loop_head(h) for h in hooks]), ('m2m-snapshot', calc), ('remove-m2m-links', [loop_head(r) for r in rem]),
             ('save-objects', [loop_head(s) for s in sav]), ('add-m2m-links', [loop_head(a) for a in add])]
    actual = {'hooks': hooks, 'm2m-snapshot': calc, 'remove-m2m-links': rem, 'save-objects': sav, 'add-m2m-links': add}
    for i in range(1, len(order)):
        prev_name, prev_nodes = order[i - 1]
        name = order[i][0]
        for n in actual[name]:
            ok = g.dominated(n, prev_nodes)
            ctx.ob('C16-ROUND.%s-after-%s' % (name, prev_name), fl, n.ast, ok,
                   '' if ok else 'in a flush round `%s` (line %d) can run without `%s` having run before it' % (head(n.ast, 50), n.lineno, prev_name), node=n.ast)
    # hooks may change m2m collections: the snapshot must be taken after them
    for h in hooks:
        ok = g.must_pass_after(h, calc, exits=rem + add)
        ctx.ob('C16-ROUND.m2m-snapshot-after-hooks', fl, h.ast, ok,
               '' if ok else 'm2m link changes are snapshotted before the before_* hooks run: links changed inside a hook are dropped', node=h.ast)

    # ---------------------------------------------------------------- PRINC
    sv = repo.fn(CORE, 'Entity._save_')
    g = cg.cfg(sv); recv = sv.recv
    pr = nodes_calling(g, lambda c: is_call_to(c, recv, '_save_principal_objects_'))
    own = nodes_calling(g, lambda c: isinstance(c.func, ast.Attribute) and dotted(c.func.value) == recv and c.func.attr in ('_save_created_', '_save_updated_'))
    ctx.floor('C16-PRINC', len(own), 2, 'own insert/update statements in Entity._save_')
    from ..typestate import Machine
    def atom(t, env):
        # `status == 'x'`, `status in ('a', 'b')` over the enumerated status value
        try: e = ast.parse(t, mode='eval').body
        except SyntaxError: return None
        if isinstance(e, ast.Compare) and len(e.ops) == 1 and dotted(e.left) == 'status':
            c = e.comparators[0]
            if isinstance(e.ops[0], ast.Eq) and isinstance(c, ast.Constant): return env['status'] == c.value
            if isinstance(e.ops[0], ast.In) and isinstance(c, (ast.Tuple, ast.List, ast.Set)) and all(isinstance(x, ast.Constant) for x in c.elts):
                return env['status'] in [x.value for x in c.elts]
        return None
    def effect(n, env):
        if n.kind == 'stmt' and any(is_call_to(c, recv, '_save_principal_objects_') for c in n.calls()): return {'normal': [{'princ': True}]}
        return None
    m = Machine(g, ['status', 'princ'], effect, atom)
    IN = m.run([{'status': st, 'princ': False} for st in ('created', 'modified', 'marked_to_delete')])
    for o in own:
        sts = m.states_at(IN, o)
        ok = bool(pr) and bool(sts) and all(e['princ'] for e in sts)
        ctx.ob('C16-PRINC.principals-saved-before-own-statement', sv, o.ast, ok,
               '' if ok else 'the object\'s INSERT/UPDATE can be emitted before its principals are saved', node=o.ast)
    fwd = [c for n in pr for c in n.calls() if is_call_to(c, recv, '_save_principal_objects_')]
    ok = bool(fwd) and all(any(dotted(a) == sv.params[1] for a in c.args) for c in fwd)
    ctx.ob('C16-PRINC.chain-forwarded', sv, fwd[0] if fwd else sv.node, ok, '' if ok else '_save_ does not pass the dependency chain to _save_principal_objects_')

    sp = repo.fn(CORE, 'Entity._save_principal_objects_')
    g = cg.cfg(sp); recv = sp.recv; chain = sp.params[1]
    rec = nodes_calling(g, lambda c: isinstance(c.func, ast.Attribute) and c.func.attr == '_save_')
    ctx.floor('C16-PRINC', len(rec), 1, 'recursive principal saves')
    # the recursive save is unreachable for a principal whose status is not 'created' (evaluated three-valued, so `v is not None and v._status_ ==
    # 'created'`, `if v is None or v._status_ != 'created': continue` and the like are the same)
    from ..typestate import eval_test
    for r in rec:
        c0 = [c for c in r.calls() if isinstance(c.func, ast.Attribute) and c.func.attr == '_save_'][0]
        pv = norm(c0.func.value)
        def atom(text, node, pv=pv):
            if text == pv + "._status_ == 'created'": return False
            if text == pv + "._status_ != 'created'": return True
            if text == pv + ' is None': return False
            if text == pv + ' is not None': return True
            return None
        def eo(x, y, lab):
            n_ = g.nodes[x]
            if n_.kind != 'test' or lab not in ('T', 'F'): return True
            v = eval_test(n_.ast, atom)
            return v is None or v == (lab == 'T')
        rr = g.reach([g.entry], edge_ok=eo)
        c = [c for c in r.calls() if isinstance(c.func, ast.Attribute) and c.func.attr == '_save_'][0]
        ok = r.id not in rr and any(dotted(a) == chain for a in c.args)
        ctx.ob('C16-PRINC.recursion-only-into-created-principals', sp, r.ast, ok,
               '' if ok else 'principal is saved recursively without the `_status_ == \'created\'` test or without the dependency chain', node=r.ast)
        # ... and the converse (round 8): a principal that IS pending creation is always saved first -- with `<pv> is not None` and `<pv>._status_ ==
        # 'created'` granted, no other condition (its position in the save queue, a flag, ...) lets the iteration go on without the recursive save:
        # the flush loop has not necessarily reached that principal yet, and the dependent's INSERT would carry a key that does not exist.
        defs = [n_ for n_ in g.nodes if n_.kind == 'stmt' and isinstance(n_.ast, ast.Assign) and any(norm(t_) == pv for t_ in n_.ast.targets)]
        def atom2(text, node, pv=pv):
            if text == pv + "._status_ == 'created'": return True
            if text == pv + "._status_ != 'created'": return False
            if text == pv + ' is None': return False
            if text == pv + ' is not None': return True
            return None
        def eo2(x, y, lab):
            n_ = g.nodes[x]
            if lab == 'exc': return False
            if n_.kind != 'test' or lab not in ('T', 'F'): return True
            v = eval_test(n_.ast, atom2)
            return v is None or v == (lab == 'T')
        ok2 = bool(defs)
        for d_ in defs:
            succ_ = [y for y, lab in g.succ[d_.id] if lab != 'exc']
            if r.id in succ_: continue
            if g.exit.id in g.reach(succ_, avoid=[r], edge_ok=eo2): ok2 = False
        ctx.ob('C16-PRINC.every-created-principal-is-saved-first', sp, r.ast, ok2,
               '' if ok2 else 'an iteration of _save_principal_objects_ over a principal whose status is \'created\' can continue without saving it: some further '
               'condition withholds the recursive _save_, so the dependent row can be inserted before the row it refers to', node=r.ast)
    # ---------------------------------------------------------------- CYCLE
    thr = [n for n in g.nodes if n.kind == 'stmt' and isinstance(n.ast, ast.Expr) and isinstance(n.ast.value, ast.Call)
           and dotted(n.ast.value.func) == 'throw' and n.ast.value.args and dotted(n.ast.value.args[0]) == 'UnresolvableCyclicDependency']
    ok = len(thr) >= 1
    detail = '' if ok else 'UnresolvableCyclicDependency is never raised: a cyclic chain recurses without bound'
    want = '%s in %s' % (recv, chain)
    tests = {t.id: t for t in g.nodes if t.kind == 'test' and norm(t.ast) == want}
    app = nodes_calling(g, lambda c: dotted(c.func) == chain + '.append' and c.args and dotted(c.args[0]) == recv)
    for t in thr:
        rr = g.reach([g.entry], edge_ok=lambda x, y, lab: not (x in tests and lab == 'T'))
        if t.id in rr:
            ok = False
            guards = [norm(x.ast) for x in g.nodes if x.kind == 'test' and t.id in g.reach([y for y, lab in g.succ[x.id] if lab == 'T'])]
            detail = ('the cycle error is raised under `%s`, not under `%s`: objects that were already saved stay on the chain, so a principal '
                      'reachable twice (diamond) or an already inserted object is reported as a cycle although the writes can be ordered'
                      % (guards[-1] if guards else '?', want))
    if ok and tests:
        if not app or any(t in g.reach(app, include_src=False) for t in tests):
            ok = False; detail = 'the object is appended to the chain before the membership test'
    ctx.ob('C16-CYCLE.raised-exactly-for-the-object-being-saved', sp, thr[0].ast if thr else sp.node, ok, detail,
           expected='`if %s: throw(UnresolvableCyclicDependency, ...)` before %s.append(%s)' % (want, chain, recv))

    # ---------------------------------------------------------------- ABORT (shared with C17)
    from . import C17
    C17.global_commit_rules(ctx, P='C16-ABORT')
    # ---------------------------------------------------------------- DELQ
    dl = repo.fn(CORE, 'Entity._delete_')
    g = cg.cfg(dl); recv = dl.recv
    marks = [x for x in g.nodes if x.kind == 'stmt' and isinstance(x.ast, ast.Assign) and any(dotted(t) == recv + '._status_' for t in x.ast.targets)
             and isinstance(x.ast.value, ast.Constant) and x.ast.value.value == 'marked_to_delete' and dl.node is not None
             and not any(x.ast in ast.walk(nf.node) for nf in dl.nested.values())]
    ctx.need(bool(marks), 'C16-DELQ: no `%s._status_ = \'marked_to_delete\'` in Entity._delete_' % recv)
    queue_names = {'objects_to_save', 'cache.objects_to_save'}
    apps = nodes_calling(g, lambda c: isinstance(c.func, ast.Attribute) and c.func.attr == 'append' and dotted(c.func.value) in queue_names
                         and len(c.args) == 1 and dotted(c.args[0]) == recv)
    poss = [x for x in g.nodes if x.kind == 'stmt' and isinstance(x.ast, ast.Assign) and any(dotted(t) == recv + '._save_pos_' for t in x.ast.targets)
            and norm(x.ast.value).replace('cache.', '') == 'len(objects_to_save)']
    vac = [x for x in g.nodes if x.kind == 'stmt' and isinstance(x.ast, ast.Assign) and any(isinstance(t, ast.Subscript) and dotted(t.value) in queue_names
           and norm(t.slice) == 'save_pos' for t in x.ast.targets) and isinstance(x.ast.value, ast.Constant) and x.ast.value.value is None]
    for mk in marks:
        ok = g.dominated(mk, apps) and g.dominated(mk, poss)
        ctx.ob('C16-DELQ.deleted-object-goes-to-the-end-of-the-queue', dl, mk.ast, ok,
               '' if ok else 'a path reaches `%s` without `objects_to_save.append(%s)` / `%s._save_pos_ = len(objects_to_save)`: the object keeps the queue '
               'slot of its pending UPDATE and its DELETE is emitted before the statements of the rows that reference it' % (norm(mk.ast), recv, recv), node=mk.ast)
        # on the path where the object was 'modified' its old slot is vacated
        tests = [t for t in g.nodes if t.kind == 'test' and norm(t.ast) == "status == 'modified'"]
        okv = bool(vac) and bool(tests) and all(g.must_pass_after(t, vac, exits=[mk], edge_ok=lambda x, y, lab, t=t: not (x == t.id and lab == 'F')) for t in tests
                                                if mk.id in g.reach([t]))
        ctx.ob('C16-DELQ.old-slot-vacated', dl, mk.ast, okv, '' if okv else 'a modified object that is deleted keeps its earlier slot in the save queue (it would be saved twice, '
               'or deleted at the position of its UPDATE)', node=mk.ast)
    # ---------------------------------------------------------------- QUEUE
    # a refused operation puts the save queue back exactly as it was -- slots, length and _save_pos_ -- otherwise the pending write of an object that the
    # refused operation had touched moves behind writes queued later, and an orderable set of changes is rejected by the database.  The COVER clause of
    # C13 (every forward mutation of a location class is restored by a registered undo closure, under the status the forward branch leaves) is evaluated
    # here for the queue's location classes in every function of the undo protocol.
    from . import C13 as _C13
    for f_, creates_ in _C13.protocol_functions(ctx):
        _C13.check_function(ctx, f_, creates_, only_cover_locs={'queue_slot', 'save_queue', '_save_pos_'}, prefix='C16-QUEUE')
    _C13.position_rule(ctx, 'C16-POS')
    m2m_rule(ctx)


MUTANTS = [
    dict(id='C16-p8', file='pony/orm/core.py', fn='Entity._save_principal_objects_', old="            if val is not None and val._status_ == 'created':", new="            if val is not None and val._status_ == 'created' and val._save_pos_ > obj._save_pos_:", expect='C16-PRINC.every-created-principal-is-saved-first'),
    dict(id='C16-m2m1', file='pony/orm/core.py', fn='SessionCache._calc_modified_m2m', old="                setdata = obj._vals_[attr]\n                if setdata.added:\n                    for obj2 in setdata.added: added.add((obj, obj2))",
         new="                setdata = obj._vals_[attr]\n                if obj._status_ == 'marked_to_delete':\n                    del obj._vals_[attr]\n                    continue\n                if setdata.added:\n                    for obj2 in setdata.added: added.add((obj, obj2))", expect='C16-M2M'),
    dict(id='C16-m2m2', file='pony/orm/core.py', fn='SessionCache._calc_modified_m2m', old="                if setdata.removed:\n                    for obj2 in setdata.removed: removed.add((obj, obj2))", new="                for obj2 in setdata.removed or (): removed.add((obj, obj2))", benign=True),
    dict(id='C16-q1', file='pony/orm/core.py', fn='Entity._delete_', old="                        objects_to_save[save_pos] = None\n", new="                        pass\n", expect='C16-DELQ.old-slot'),
    dict(id='C16-q2', file='pony/orm/core.py', fn='Entity._delete_', old="                    obj._save_pos_ = len(objects_to_save)\n                    objects_to_save.append(obj)\n                    obj._status_ = 'marked_to_delete'",
         new="                    if status != 'modified':\n                        obj._save_pos_ = len(objects_to_save)\n                        objects_to_save.append(obj)\n                    obj._status_ = 'marked_to_delete'", expect='C16-DELQ.deleted-object'),
    dict(id='C16-m1', file='pony/orm/core.py', fn='SessionCache.flush',
         old='                    for attr, (added, removed) in modified_m2m.items():\n                        if not removed: continue\n                        attr.remove_m2m(removed)\n                    for obj in cache.objects_to_save:\n                        if obj is not None: obj._save_()\n',
         new='                    for obj in cache.objects_to_save:\n                        if obj is not None: obj._save_()\n                    for attr, (added, removed) in modified_m2m.items():\n                        if not removed: continue\n                        attr.remove_m2m(removed)\n',
         expect='C16-ROUND'),
    dict(id='C16-m2', file='pony/orm/core.py', fn='Entity._save_',
         old="        if status in ('created', 'modified'):\n            obj._save_principal_objects_(dependent_objects)\n", new='', expect='C16-PRINC.principals'),
    dict(id='C16-m3', file='pony/orm/core.py', fn='Entity._save_principal_objects_',
         old="            if val is not None and val._status_ == 'created':", new="            if val is not None and val._status_ in ('created', 'modified'):", expect='C16-PRINC.recursion'),
    dict(id='C16-m4', file='pony/orm/core.py', fn='Entity._save_principal_objects_', old='                val._save_(dependent_objects)', new='                val._save_()', expect='C16-PRINC.recursion'),
    dict(id='C16-m5', file='pony/orm/core.py', fn='SessionCache.flush',
         old='                with cache.flush_disabled():\n                    for obj in cache.objects_to_save:  # can grow during iteration',
         new='                with cache.flush_disabled():\n                    modified_m2m = cache._calc_modified_m2m()\n                    for obj in cache.objects_to_save:  # can grow during iteration',
         expect='C16-ROUND.m2m-snapshot-after-hooks', nth=0),
    dict(id='C16-m6', file='pony/orm/core.py', fn='Entity._save_principal_objects_', old='        elif obj in dependent_objects:', new='        elif obj in dependent_objects and len(dependent_objects) > 50:', expect='C16-CYCLE'),
]
