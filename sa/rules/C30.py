"""C30  Raw SQL parameter substitution is faithful."""
import ast
from ..loader import dotted, walk_no_nested, norm, head, calls_in
from ..q import nodes_calling
from . import C05

EXPLANATION = """
Static clauses decided (necessary conditions of C30):
 SCAN     adapt_sql (raw statements) and parse_raw_sql (raw_sql() fragments) are two implementations of one scanner; the
          statements that drive the scan (everything that reads or writes the position, the `$` index and the current
          expression: search for `$`, text before it, `$$` -> `$`, parse_expr, advance, strip the trailing `;`, compile check)
          are the same in both -- a change in one sibling only is reported.
 ORDER    in adapt_sql every parameter style appends the placeholder and records the expression in the same branch
          (positional styles: args.append(expr); keyed styles: kwargs[key] = expr with key numbered from len(kwargs)+1), all five
          DB-API styles are handled and anything else raises; the argument source is built from args/kwargs in that order.
 PERCENT  `%` is doubled exactly for the two %-interpreting styles (format, pyformat), before scanning; the branch without
          parameters returns the ORIGINAL text with `$$` collapsed (no doubling when nothing is bound).
 KEY      both scanners' caches are stored under the key they are looked up with (shared rule of C05): the outcome does not
          depend on statements adapted earlier.
 FRAGMENT in a raw_sql() fragment every occurrence of a `$expression` gets its own positional parameter (RawSQLMonad.getsql builds a fresh
          PARAM node per occurrence).
 EVAL     Database._exec_raw_sql evaluates the compiled argument expression in the caller's globals/locals and executes the
          adapted text.
"""
NOT_DECIDED = "parse_expr on all inputs (regular-expression driven expression recogniser)"

CORE = 'pony.orm.core'
STATE = {'pos', 'i', 'expr'}
STYLES = {'qmark': 'args', 'format': 'args', 'numeric': 'args', 'named': 'kwargs', 'pyformat': 'kwargs'}


def scanner_statements(fn):
    """normalised statements of the scan loop that touch the scanner state (result list renamed to a common name)"""
    loops = [s for s in walk_no_nested(fn.node) if isinstance(s, ast.While)]
    if len(loops) != 1: return None
    out = set(); seq = []
    def visit(body):
        for s in body:
            if isinstance(s, (ast.If, ast.Try, ast.While, ast.For)):
                if isinstance(s, ast.If):
                    names = {n.id for n in ast.walk(s.test) if isinstance(n, ast.Name)}
                    if names & STATE and 'paramstyle' not in names: out.add('if ' + norm(s.test))
                for fld in ('body', 'orelse', 'finalbody'): visit(getattr(s, fld, []) or [])
                for h in getattr(s, 'handlers', []) or []:
                    out.add('except ' + norm(h.type)); visit(h.body)
                continue
            names = {n.id for n in ast.walk(s) if isinstance(n, ast.Name)}
            if not names & STATE: continue
            if 'paramstyle' in names or 'args' in names or 'kwargs' in names or 'key' in names or 'codes' in names: continue
            t = norm(s)
            for lst in ('result', 'items'): t = t.replace(lst + '.append(', 'OUT.append(')
            if t.startswith('code = compile('): t = t[len('code = '):]
            if 'OUT.append((expr, code))' in t: continue
            out.add(t)
            rd = {n.id for n in ast.walk(s) if isinstance(n, ast.Name) and isinstance(n.ctx, ast.Load)}
            wr = {n.id for n in ast.walk(s) if isinstance(n, ast.Name) and isinstance(n.ctx, ast.Store)}
            seq.append((t, rd, wr))
    visit(loops[0].body)
    out = OrderedScan(out); out.seq = seq
    return out


class OrderedScan(set):
    seq = ()


def caller_frame_offsets(cg, fn):
    """{'globals': k, 'locals': k}: `globals = sys._getframe(<depth parameter> + k).f_globals` (directly or through a local holding the frame),
    counting `depth += c` statements that every path to the read passes; None for a form the rule cannot read"""
    g = cg.cfg(fn)
    defs = {}
    for x in g.nodes:
        if x.kind == 'stmt' and isinstance(x.ast, ast.Assign) and len(x.ast.targets) == 1 and isinstance(x.ast.targets[0], ast.Name):
            defs.setdefault(x.ast.targets[0].id, []).append(x)
    out = {}
    for x in g.nodes:
        if not (x.kind == 'stmt' and isinstance(x.ast, ast.Assign) and len(x.ast.targets) == 1 and dotted(x.ast.targets[0]) in ('globals', 'locals')): continue
        v = x.ast.value
        if not (isinstance(v, ast.Attribute) and v.attr in ('f_globals', 'f_locals')): continue
        if v.attr != 'f_' + dotted(x.ast.targets[0]): out[dotted(x.ast.targets[0])] = None; continue
        fr, at = v.value, x
        if isinstance(fr, ast.Name) and len(defs.get(fr.id, ())) == 1: at = defs[fr.id][0]; fr = at.ast.value
        if not (isinstance(fr, ast.Call) and dotted(fr.func) == 'sys._getframe' and len(fr.args) == 1): out[dotted(x.ast.targets[0])] = None; continue
        a = fr.args[0]; k = 0
        if isinstance(a, ast.BinOp) and isinstance(a.op, ast.Add) and isinstance(a.right, ast.Constant) and isinstance(a.right.value, int): k = a.right.value; a = a.left
        if not (isinstance(a, ast.Name) and a.id in fn.params): out[dotted(x.ast.targets[0])] = None; continue
        for y in g.nodes:
            if y.kind == 'stmt' and isinstance(y.ast, ast.AugAssign) and dotted(y.ast.target) == a.id:
                if isinstance(y.ast.op, ast.Add) and isinstance(y.ast.value, ast.Constant) and g.dominated(at, [y]) and at.id not in g.reach([at], include_src=False): k += y.ast.value.value
                elif at.id in g.reach([y]): k = None; break
        out[dotted(x.ast.targets[0])] = k
    return out


def run(ctx):
    repo, cg = ctx.repo, ctx.cg
    ad = repo.fn(CORE, 'adapt_sql'); pr = repo.fn('pony.orm.ormtypes', 'parse_raw_sql')
    a, b = scanner_statements(ad), scanner_statements(pr)
    ctx.need(a is not None and b is not None, 'C30: scan loop not found in adapt_sql / parse_raw_sql')
    ctx.floor('C30-SCAN', min(len(a), len(b)), 7, 'scanner statements per sibling')
    for t in sorted(a | b):
        # the two siblings report errors differently (`raise` vs `raise ValueError(...)`): not part of the scanner state
        if t.startswith('raise'): continue
        ok = t in a and t in b
        ctx.ob('C30-SCAN.siblings-scan-identically', ad if t in a else pr, t, ok,
               '' if ok else 'scanner statement `%s` occurs only in %s: adapt_sql and parse_raw_sql no longer tokenise `$`-expressions the same way'
               % (t, 'adapt_sql' if t in a else 'parse_raw_sql'))
    # dependent scanner statements come in the same order in both siblings (e.g. the position is advanced by the length of the
    # expression BEFORE its trailing `;` is stripped; swapping the two in one sibling leaves the `;` in the SQL text)
    def order_pairs(sc):
        res = {}
        for i, (t1, r1, w1) in enumerate(sc.seq):
            for t2, r2, w2 in sc.seq[i + 1:]:
                if t1 != t2 and ((w1 & r2) or (w2 & r1) or (w1 & w2)): res.setdefault((t1, t2), True)
        return res
    pa, pb = order_pairs(a), order_pairs(b)
    npairs = 0
    for (t1, t2) in sorted(pa):
        if t1.startswith('raise') or t2.startswith('raise'): continue
        if (t2, t1) in pb and (t1, t2) not in pb:
            npairs += 1
            ctx.ob('C30-SCAN.siblings-scan-in-the-same-order', pr, '%s  <>  %s' % (t1, t2), False,
                   'adapt_sql executes `%s` before `%s`, parse_raw_sql the other way round, and one depends on the other: the two scanners consume different '
                   'text for the same `$`-expression' % (t1, t2))
        elif (t1, t2) in pb:
            npairs += 1
            ctx.ob('C30-SCAN.siblings-scan-in-the-same-order', pr, '%s  <>  %s' % (t1, t2), True, '', nontrivial=False)
    ctx.floor('C30-SCAN', npairs, 5, 'dependent statement pairs common to both scanners')
    # ---------------------------------------------------------------- ORDER
    # scenario evaluation (one run of the function per paramstyle, shared with C06-STYLES): what each style executes beyond the common part
    from .C06 import style_scenarios
    per, mentioned, handled, ok_unknown = style_scenarios(cg, ad)
    ok = handled == set(STYLES) and mentioned == set(STYLES)
    ctx.ob('C30-ORDER.all-five-paramstyles-handled', ad, ad.node, ok, '' if ok else 'adapt_sql handles %s (mentions %s), DB-API defines %s' % (sorted(handled), sorted(mentioned), sorted(STYLES)))
    ctx.ob('C30-ORDER.unknown-paramstyle-raises', ad, ad.node, ok_unknown, '' if ok_unknown else 'an unknown paramstyle falls through silently')
    g_ad = cg.cfg(ad)
    def nodes_with(pred): return [x for x in g_ad.nodes if x.kind == 'stmt' and x.ast is not None and pred(norm(x.ast))]
    for style, kind in STYLES.items():
        txt = [t for t in per.get(style, [])]
        pos = [t for t in txt if t == 'args.append(expr)']
        keyed = [t for t in txt if t == 'kwargs[key] = expr']
        place = [t for t in txt if t.startswith('result.append(')]
        keydef = [t for t in txt if t.startswith('key = ')]
        if kind == 'args':
            ok = len(pos) == 1 and not keyed and len(place) == 1
            if ok and style == 'numeric':
                # the number in the placeholder is the count of expressions recorded so far, this one included
                ok = place[0] == "result.append(':%d' % len(args))" and \
                    all(g_ad.dominated(r, nodes_with(lambda t: t == 'args.append(expr)')) for r in nodes_with(lambda t: t == place[0]))
        else:
            ok = len(keyed) == 1 and not pos and len(place) == 1 and 'key' in place[0] and len(keydef) == 1 and 'len(kwargs)' in keydef[0] and "'p%d' %" in keydef[0]
        ctx.ob('C30-ORDER.placeholder-and-expression-recorded-together', ad, ad.node, ok,
               '' if ok else 'paramstyle %r: placeholder/expression bookkeeping is %s' % (style, txt), expected='record the expression, then append its placeholder').key += '::' + style
    src = [norm(s) for s in walk_no_nested(ad.node) if isinstance(s, ast.Assign) and any(dotted(t) == 'source' for t in s.targets)]
    ok = "source = '(%s,)' % ', '.join(args)" in src and any(t.startswith("source = '{%s}' % ','.join(") and 'kwargs.items()' in t for t in src)
    ctx.ob('C30-ORDER.arguments-built-in-scan-order', ad, 'source = ...', ok, '' if ok else 'argument source is %s' % src)
    # ---------------------------------------------------------------- PERCENT
    dbl = [s for s in walk_no_nested(ad.node) if isinstance(s, ast.If) and any("replace('%', '%%')" in norm(x) for x in s.body)]
    ok = len(dbl) == 1 and norm(dbl[0].test) == "paramstyle in ('format', 'pyformat')"
    g = cg.cfg(ad)
    if ok:
        loop = [x for x in g.nodes if x.kind == 'test' and isinstance(x.stmt, ast.While)]
        dn = [x for x in g.nodes if x.kind == 'stmt' and "replace('%', '%%')" in norm(x.ast)]
        ok = bool(loop) and bool(dn) and all(l.id in g.reach(dn) for l in loop) and not any(d.id in g.reach(loop, include_src=False) for d in dn)
    ctx.ob('C30-PERCENT.doubled-for-format-styles-before-scanning', ad, dbl[0] if dbl else ad.node, ok,
           '' if ok else '`%` doubling is not exactly `if paramstyle in (\'format\', \'pyformat\')` before the scan loop')
    nop = [s for s in walk_no_nested(ad.node) if isinstance(s, ast.Assign) and any(dotted(t) == 'adapted_sql' for t in s.targets)]
    txt = sorted(norm(s.value) for s in nop)
    ok = txt == sorted(["''.join(result)", "original_sql.replace('$$', '$')"])
    ctx.ob('C30-PERCENT.no-parameters-returns-original-text', ad, nop[-1] if nop else ad.node, ok, '' if ok else 'adapted_sql is built from %s' % txt)
    orig = [s for s in walk_no_nested(ad.node) if isinstance(s, ast.Assign) and any(dotted(t) == 'original_sql' for t in s.targets)]
    ok = len(orig) == 1 and norm(orig[0].value) == ad.params[0]
    if ok:
        on = [x for x in g.nodes if x.ast is orig[0]]
        dn = [x for x in g.nodes if x.kind == 'stmt' and "replace('%', '%%')" in norm(x.ast)]
        ok = not any(o.id in g.reach(dn, include_src=False) for o in on)
    ctx.ob('C30-PERCENT.original-text-saved-before-doubling', ad, orig[0] if orig else ad.node, ok, '' if ok else 'original_sql is not the untouched statement text')
    # ---------------------------------------------------------------- KEY
    C05.key_rule(ctx, only={'adapt_sql', 'parse_raw_sql'}, prefix='C30-KEY', floor=2)
    # the type object of a raw fragment is part of the translator / constructed-SQL / result cache keys: two fragments are "the same" only when their
    # text is the same, character for character.  Whatever RawSQLType.__eq__ compares (and __hash__ hashes) of the text is the text as given to
    # __init__ -- not a normalised form (whitespace inside an SQL string literal is data)
    rt = repo.cls('pony.orm.ormtypes', 'RawSQLType')
    ini, eqm = rt.methods.get('__init__'), rt.methods.get('__eq__')
    ctx.need(ini is not None and eqm is not None and len(ini.params) > 1, 'C30-KEY: RawSQLType.__init__ / __eq__ not found')
    textp = ini.params[1]
    attr_defs = {t.attr: st.value for st in walk_no_nested(ini.node) if isinstance(st, ast.Assign) for t in st.targets if isinstance(t, ast.Attribute) and dotted(t.value) == ini.recv}
    compared = sorted({c.left.attr for c in ast.walk(eqm.node) if isinstance(c, ast.Compare) and isinstance(c.left, ast.Attribute) and dotted(c.left.value) == eqm.recv
                       and len(c.comparators) == 1 and isinstance(c.comparators[0], ast.Attribute) and c.comparators[0].attr == c.left.attr})
    def carries_text(e):
        """does `e` hold the text parameter itself (bare, or as an element of a tuple)?"""
        if isinstance(e, ast.Name) and e.id == textp: return True
        if isinstance(e, ast.Tuple): return any(carries_text(x) for x in e.elts)
        return False
    def mentions_text(e): return any(isinstance(x, ast.Name) and x.id == textp for x in ast.walk(e))
    exact = [a_ for a_ in compared if a_ in attr_defs and carries_text(attr_defs[a_])]
    lossy = [a_ for a_ in compared if a_ in attr_defs and mentions_text(attr_defs[a_]) and not carries_text(attr_defs[a_])]
    ok = bool(exact)
    ctx.ob('C30-KEY.fragment-type-equality-compares-the-text-as-given', eqm, eqm.node, ok,
           '' if ok else 'RawSQLType.__eq__ compares %s, none of which is the fragment text as given (%s): two different fragments share the cached translation and the '
           'second one is executed with the text of the first' % (compared, '; '.join('%s = %s' % (a_, norm(attr_defs[a_])[:50]) for a_ in lossy) or 'the text is not compared at all'))
    # ---------------------------------------------------------------- EVAL
    er = repo.fn(CORE, 'Database._exec_raw_sql')
    txt = [norm(s) for s in walk_no_nested(er.node) if isinstance(s, ast.stmt)]
    ok = 'adapted_sql, code = adapt_sql(sql, provider.paramstyle)' in txt and 'arguments = eval(code, globals, locals)' in txt \
        and any(t.startswith('return %s._exec_sql(adapted_sql, arguments' % er.recv) for t in txt)
    ctx.ob('C30-EVAL.expressions-evaluated-in-caller-scope', er, er.node, ok, '' if ok else '_exec_raw_sql: %s' % txt[-4:])
    ok = caller_frame_offsets(cg, er) == {'globals': 1, 'locals': 1}
    ctx.ob('C30-EVAL.caller-frame-used-when-no-scope-given', er, er.node, ok, '' if ok else '_exec_raw_sql does not take globals/locals from the caller frame')
    # ---------------------------------------------------------------- FRAGMENT
    # raw_sql() fragments inside queries: every occurrence of a `$expression` is bound to its OWN parameter, numbered by its position (the value
    # list built by RawSQL.__init__ evaluates every occurrence): in RawSQLMonad.getsql each iteration that consumes a position (`next(types)`)
    # builds a fresh ['PARAM', (varkey, i, None), ...] node with that position -- no reuse of an earlier node for an equal expression text
    rq = repo.fn('pony.orm.sqltranslation', 'RawSQLMonad.getsql'); g = cg.cfg(rq)
    nexts = nodes_calling(g, lambda c: isinstance(c.func, ast.Name) and c.func.id == 'next')
    fresh = [x for x in g.nodes if x.ast is not None and x.kind == 'stmt' and any(isinstance(l, ast.List) and l.elts and isinstance(l.elts[0], ast.Constant) and l.elts[0].value == 'PARAM'
                                                                                  and len(l.elts) >= 2 and any(isinstance(nm, ast.Name) and nm.id == 'i' for nm in ast.walk(l.elts[1])) for l in x.walk())]
    loops_ = [x for x in g.nodes if x.kind == 'iter']
    ctx.need(bool(nexts) and bool(loops_), 'C30-FRAGMENT: position counter / loop not found in RawSQLMonad.getsql')
    for nx in nexts:
        ok = bool(fresh) and g.must_pass_after(nx, fresh, exits=loops_ + [g.exit])
        ctx.ob('C30-FRAGMENT.each-occurrence-gets-its-own-parameter', rq, nx.ast, ok,
               '' if ok else 'an iteration that consumes parameter position `i` can finish without building a PARAM node for that position: a repeated `$expression` is bound to '
               'the value of its first occurrence although every occurrence was evaluated (they differ for $next(it), $x.pop(), counters)', node=nx.ast)


MUTANTS = [
    dict(id='C30-rt1', file='pony/orm/ormtypes.py', fn='RawSQLType.__eq__', old="        return type(other) is RawSQLType and self.sql == other.sql and self.types == other.types", new="        return type(other) is RawSQLType and self.types == other.types", expect='C30-KEY.fragment-type'),
    dict(id='C30-rt2', file='pony/orm/ormtypes.py', fn='RawSQLType.__eq__', old="        return type(other) is RawSQLType and self.sql == other.sql and self.types == other.types", new="        if type(other) is not RawSQLType: return False\n        return self.types == other.types and self.sql == other.sql", benign=True),
    dict(id='C30-fr1', file='pony/orm/sqltranslation.py', fn='RawSQLMonad.getsql', old="                param_converter = provider.get_converter_by_py_type(param_type)\n                result.append(['PARAM', (monad.varkey, i, None), param_converter])",
         new="                param = params.get(expr) if 'params' in locals() else None\n                if param is None:\n                    params = locals().get('params', {})\n                    param_converter = provider.get_converter_by_py_type(param_type)\n                    param = params[expr] = ['PARAM', (monad.varkey, i, None), param_converter]\n                result.append(param)", expect='C30-FRAGMENT'),
    dict(id='C30-s1', file='pony/orm/ormtypes.py', fn='parse_raw_sql', old="            pos = i+1 + len(expr)\n            if expr.endswith(';'): expr = expr[:-1]\n", new="            if expr.endswith(';'): expr = expr[:-1]\n            pos = i+1 + len(expr)\n", expect='C30-SCAN.siblings-scan-in-the-same-order'),
    dict(id='C30-m1', file='pony/orm/core.py', fn='adapt_sql', old='    adapted_sql_cache[(original_sql, paramstyle)] = result', new='    adapted_sql_cache[(sql, paramstyle)] = result', expect='C30-KEY'),
    dict(id='C30-m2', file='pony/orm/core.py', fn='adapt_sql', old="            if expr.endswith(';'): expr = expr[:-1]\n", new='', expect='C30-SCAN'),
    dict(id='C30-m3', file='pony/orm/ormtypes.py', fn='parse_raw_sql', old='            pos = i+2', new='            pos = i+1', expect='C30-SCAN'),
    dict(id='C30-m4', file='pony/orm/core.py', fn='adapt_sql', old="            elif paramstyle == 'numeric':\n                args.append(expr)\n                result.append(':%d' % len(args))", new="            elif paramstyle == 'numeric':\n                result.append(':%d' % len(args))\n                args.append(expr)", expect='C30-ORDER.placeholder'),
    dict(id='C30-m5', file='pony/orm/core.py', fn='adapt_sql', old="    if paramstyle in ('format', 'pyformat'): sql = sql.replace('%', '%%')", new="    if paramstyle in ('format',): sql = sql.replace('%', '%%')", expect='C30-PERCENT.doubled'),
    dict(id='C30-m6', file='pony/orm/core.py', fn='adapt_sql', old="        adapted_sql = original_sql.replace('$$', '$')", new="        adapted_sql = sql.replace('$$', '$')", expect='C30-PERCENT.no-parameters'),
    dict(id='C30-m7', file='pony/orm/core.py', fn='adapt_sql', old="                key = 'p%d' % (len(kwargs) + 1)\n                kwargs[key] = expr\n                result.append(':' + key)", new="                key = 'p%d' % len(kwargs)\n                kwargs[key] = expr\n                result.append(':' + key)", expect='C30-ORDER.placeholder', benign=True),
    dict(id='C30-m11', file='pony/orm/core.py', fn='Database._exec_raw_sql', old='            frame_depth += 1\n            globals = sys._getframe(frame_depth).f_globals', new='            globals = sys._getframe(frame_depth).f_globals', expect='C30-EVAL.caller-frame'),
    dict(id='C30-m8', file='pony/orm/core.py', fn='Database._exec_raw_sql', old='        arguments = eval(code, globals, locals)', new='        arguments = eval(code, globals)', expect='C30-EVAL'),
]
