"""C17  A session's writes are atomic under crashes and database errors."""
import ast
from ..loader import dotted, walk_no_nested, norm, head, calls_in, const
from ..q import nodes_calling, is_call_to, assign_pairs
from ..typestate import Machine

EXPLANATION = """
Static clauses decided (necessary conditions of C17): every data-modifying statement is issued inside the session's
transaction, never in the driver's autocommit mode, and failures roll back.
 DML     every function that builds an SQL AST headed INSERT/UPDATE/DELETE (or calls construct_delete_sql_ast) and
         executes it through Database._exec_sql passes start_transaction=True, or the call is dominated by
         `cache.immediate = True`, or every caller of the function (resolved call graph) is SessionCache.flush, which sets
         cache.immediate before saving.  Database.execute passes start_transaction=True and _exec_raw_sql forwards it.
 BEGIN   in Database._exec_sql the flag is set before prepare_connection_for_query_execution and in_transaction is
         recorded after a statement executed under `immediate`; prepare_connection starts the transaction
         (set_transaction_mode) for an existing connection when immediate and not yet in_transaction; SQLite's
         set_transaction_mode issues BEGIN IMMEDIATE whenever cache.immediate.
 ABORT   SessionCache.flush_and_commit and SessionCache.commit roll back when flush or the provider commit raises;
         the module-level commit() rolls back every cache when a flush fails and rolls back the other caches when the
         primary commit fails.
"""
NOT_DECIDED = "crash behaviour of the database engines; atomicity across several databases (PartialCommitException is documented)"

CORE = 'pony.orm.core'
DML = ('INSERT', 'UPDATE', 'DELETE')


def has_dml_literal(fn):
    for n in walk_no_nested(fn.node):
        if isinstance(n, ast.List) and n.elts and isinstance(n.elts[0], ast.Constant) and n.elts[0].value in DML: return n.elts[0].value
    for c in calls_in(fn.node):
        if isinstance(c.func, ast.Attribute) and c.func.attr == 'construct_delete_sql_ast': return 'DELETE'
    return None


def passes_start_transaction(call, target_params):
    for k in call.keywords:
        if k.arg == 'start_transaction': return isinstance(k.value, ast.Constant) and k.value.value is True or dotted(k.value) == 'start_transaction'
    if 'start_transaction' in target_params:
        i = target_params.index('start_transaction') - 1
        if i < len(call.args):
            a = call.args[i]
            return isinstance(a, ast.Constant) and a.value is True or dotted(a) == 'start_transaction'
    return False


def abort_rules(ctx, P='C17-ABORT'):
    # a failure of flush() or of the provider commit inside SessionCache.flush_and_commit / SessionCache.commit never propagates without
    # cache.rollback(): whatever the exception class (the handler must lie on *every* exception edge of the call, so a handler narrowed to one
    # exception family does not qualify).  Shared: C14 (a key conflict found at flush time leaves the database unchanged) evaluates it too.
    repo, cg = ctx.repo, ctx.cg
    for qual, what in (('SessionCache.flush_and_commit', 'flush'), ('SessionCache.commit', 'flush'), ('SessionCache.commit', 'commit')):
        f = repo.fn(CORE, qual); g = cg.cfg(f); recv = f.recv
        src = nodes_calling(g, lambda c: isinstance(c.func, ast.Attribute) and c.func.attr == what and (
            dotted(c.func.value) == recv or what == 'commit' and norm(c.func.value).endswith('provider')))
        rb = nodes_calling(g, lambda c: is_call_to(c, recv, 'rollback'))
        ok = bool(src) and bool(rb)
        for s in src:
            es = [y for y, lab in g.succ[s.id] if lab == 'exc']
            if g.raise_.id in g.reach(es, avoid=rb): ok = False
        ctx.ob(P + '.rollback-when-%s-fails' % what, f, src[0].ast if src else f.node, ok,
               '' if ok else 'a failure of %s() in %s propagates without cache.rollback(): the connection goes back to the pool with the '
               'partial transaction still open' % (what, qual))


def global_commit_rules(ctx, P='C17-ABORT'):
    repo, cg = ctx.repo, ctx.cg
    cm = repo.fn(CORE, 'commit'); g = cg.cfg(cm)
    fl = nodes_calling(g, lambda c: is_call_to(c, 'cache', 'flush'))
    rr = nodes_calling(g, lambda c: isinstance(c.func, ast.Name) and c.func.id == 'rollback_and_reraise')
    ok = bool(fl) and bool(rr)
    for s in fl:
        es = [y for y, lab in g.succ[s.id] if lab == 'exc']
        if g.raise_.id in g.reach(es, avoid=rr): ok = False
    ctx.ob(P + '.global-commit-rolls-back-on-flush-failure', cm, fl[0].ast if fl else cm.node, ok, '' if ok else 'commit(): flush failure not rolled back')
    pcm = nodes_calling(g, lambda c: is_call_to(c, 'primary_cache', 'commit'))
    orb = nodes_calling(g, lambda c: is_call_to(c, 'cache', 'rollback'))
    ok = bool(pcm) and bool(orb)
    for s in pcm:
        es = [y for y, lab in g.succ[s.id] if lab == 'exc']
        tr = nodes_calling(g, lambda c: isinstance(c.func, ast.Name) and c.func.id == 'transact_reraise')
        # after the primary commit fails the loop over the other caches (containing rollback) is entered before re-raising
        loops = [x for x in g.nodes if x.kind == 'iter' and any(o.id in g.reach([x]) for o in orb)]
        # (failures of the bookkeeping statements inside the handler itself are not modelled)
        if not loops or any(t.id in g.reach(es, avoid=loops, edge_ok=lambda x, y, lab: lab not in ('exc', 'unmatched') or x == s.id or g.nodes[x].kind == 'dispatch') for t in tr): ok = False
    ctx.ob(P + '.global-commit-rolls-back-others', cm, pcm[0].ast if pcm else cm.node, ok, '' if ok else 'commit(): other caches are not rolled back when the primary commit fails')
    # ... and of *every* other cache: in the module-level commit() and rollback() each iteration of a loop over the session's caches passes the call
    # that ends that cache's session (`cache.rollback()` / `cache.commit()` / `cache.release()`) -- no `continue` for caches that "have nothing to
    # undo": a cache that is skipped keeps its connection and stays registered as the thread's current session of that database
    nloop = 0
    for qual in ('commit', 'rollback'):
        fq = repo.fn(CORE, qual); gq = cg.cfg(fq)
        for L in [x for x in gq.nodes if x.kind == 'iter' and isinstance(x.ast.target, ast.Name)]:
            var = L.ast.target.id
            ends = [x for x in gq.nodes if x.ast is not None and x.kind in ('stmt', 'test') and any(is_call_to(c, var, m_) for c in x.calls() for m_ in ('rollback', 'commit', 'release', 'close'))
                    and any(x.ast is y or x.stmt is y for b in L.ast.body for y in ast.walk(b))]
            if not ends: continue
            nloop += 1
            starts = [y for y, lab in gq.succ[L.id] if lab == 'loop']
            r_ = gq.reach(starts, avoid=ends, edge_ok=lambda x, y, lab: lab != 'exc')
            okl = L.id not in r_
            ctx.ob(P + '.every-cache-of-the-session-is-ended', fq, L.ast, okl,
                   '' if okl else '%s(): an iteration over the caches can skip `%s.%s()`: that database\'s session is neither rolled back nor released -- its connection is kept and the '
                   'next session of the thread finds the dead cache still registered' % (qual, var, norm(ends[0].ast)[:30]), node=L.ast)
    ctx.floor(P, nloop, 2, 'loops over the caches of a session that end them')
    # every cache is flushed before ANY database is committed: a flush error (constraint, cycle, hook) in one database must
    # surface while nothing is committed yet
    loops = [x for x in g.nodes if x.kind == 'iter' and norm(x.ast.iter) == 'caches' and any(f_.id in g.reach([x]) for f_ in fl)]
    commits = nodes_calling(g, lambda c: isinstance(c.func, ast.Attribute) and c.func.attr == 'commit')
    ok = bool(loops) and bool(commits) and all(g.dominated(c_, loops) for c_ in commits) and any(
        isinstance(st, ast.For) and norm(st.iter) == 'caches' and any(is_call_to(c_, norm(st.target), 'flush') for c_ in calls_in(st)) for st in walk_no_nested(cm.node))
    ctx.ob(P + '.global-commit-flushes-every-database-first', cm, fl[0].ast if fl else cm.node, ok,
           '' if ok else 'commit() does not flush ALL session caches (`for cache in caches: cache.flush()`) before the first database is committed: with two databases in one '
           'db_session a flush error in the second one is raised after the first one is durably committed (PartialCommitException instead of a clean rollback)',
           expected='for cache in caches: cache.flush()  -- before primary_cache.commit()')


def run(ctx):
    repo, cg = ctx.repo, ctx.cg
    ex = repo.fn(CORE, 'Database._exec_sql')
    flush = repo.fn(CORE, 'SessionCache.flush')
    n = 0
    for fn in repo.rule_funcs():
        if fn.mod.name != CORE: continue
        kind = has_dml_literal(fn)
        if not kind: continue
        g = cg.cfg(fn)
        sites = nodes_calling(g, lambda c: isinstance(c.func, ast.Attribute) and c.func.attr == '_exec_sql')
        if not sites: continue
        imm = [x for x in g.nodes if x.kind == 'stmt' and isinstance(x.ast, ast.Assign) and any((dotted(t) or '').endswith('.immediate') for t in x.ast.targets)
               and isinstance(x.ast.value, ast.Constant) and x.ast.value.value is True]
        callers = cg.callers_of(lambda t: t is fn)
        only_flush = bool(callers) and all(c[0] is flush for c in callers)
        for s in sites:
            for c in [c for c in s.calls() if isinstance(c.func, ast.Attribute) and c.func.attr == '_exec_sql']:
                n += 1
                ok = passes_start_transaction(c, ex.params) or g.dominated(s, imm) or only_flush
                ctx.ob('C17-DML.statement-runs-inside-the-transaction', fn, c, ok,
                       '' if ok else '%s statement is executed without start_transaction=True, without a dominating `cache.immediate = True`, and %s '
                       'is also called from %s: on SQLite the statement runs in autocommit mode and is committed at once, independently of '
                       'the rest of the session' % (kind, fn.qual, sorted({c[0].qual for c in callers} - {flush.qual})[:4] or 'nowhere'),
                       node=c, expected='database._exec_sql(sql, arguments, start_transaction=True)')
    ctx.floor('C17-DML', n, 8, 'DML statement sites')
    # flush sets immediate before saving
    g = cg.cfg(flush); recv = flush.recv
    imm = [x for x in g.nodes if x.kind == 'stmt' and isinstance(x.ast, ast.Assign) and any(dotted(t) == recv + '.immediate' for t in x.ast.targets)
           and isinstance(x.ast.value, ast.Constant) and x.ast.value.value is True]
    for e in nodes_calling(g, lambda c: isinstance(c.func, ast.Attribute) and c.func.attr in ('_save_', 'remove_m2m', 'add_m2m')):
        ok = g.dominated(e, imm)
        ctx.ob('C17-DML.flush-is-immediate', flush, e.ast, ok, '' if ok else 'flush emits statements before `cache.immediate = True`', node=e.ast)
    # raw statements
    de = repo.fn(CORE, 'Database.execute')
    cs = [c for c in calls_in(de.node) if isinstance(c.func, ast.Attribute) and c.func.attr == '_exec_raw_sql']
    raw = repo.fn(CORE, 'Database._exec_raw_sql')
    ok = bool(cs) and all(passes_start_transaction(c, raw.params) for c in cs)
    ctx.ob('C17-DML.execute-starts-transaction', de, cs[0] if cs else de.node, ok, '' if ok else 'Database.execute does not request a transaction for raw statements')
    cs = [c for c in calls_in(raw.node) if isinstance(c.func, ast.Attribute) and c.func.attr == '_exec_sql']
    ok = bool(cs) and all(passes_start_transaction(c, ex.params) for c in cs)
    ctx.ob('C17-DML.raw-sql-forwards-flag', raw, cs[0] if cs else raw.node, ok, '' if ok else '_exec_raw_sql drops start_transaction')

    # ---------------------------------------------------------------- BEGIN
    g = cg.cfg(ex)
    tst = [t for t in g.nodes if t.kind == 'test' and norm(t.ast) == 'start_transaction']
    prep = nodes_calling(g, lambda c: isinstance(c.func, ast.Attribute) and c.func.attr == 'prepare_connection_for_query_execution')
    asg = [x for x in g.nodes if x.kind == 'stmt' and isinstance(x.ast, ast.Assign) and any((dotted(t) or '').endswith('.immediate') for t in x.ast.targets)]
    ok = bool(tst) and bool(prep) and bool(asg)
    if ok:
        ts = [y for t in tst for y, lab in g.succ[t.id] if lab == 'T']
        ok = not any(p.id in g.reach(ts, avoid=asg) for p in prep) and all(g.dominated(p, tst) for p in prep)
    ctx.ob('C17-BEGIN.flag-set-before-connection-prepared', ex, tst[0].stmt if tst else ex.node, ok,
           '' if ok else 'start_transaction does not set cache.immediate before prepare_connection_for_query_execution()')
    execs = nodes_calling(g, lambda c: isinstance(c.func, ast.Attribute) and c.func.attr == 'execute')
    it = [t for t in g.nodes if t.kind == 'test' and norm(t.ast).endswith('.immediate')]
    intx = [x for x in g.nodes if x.kind == 'stmt' and isinstance(x.ast, ast.Assign) and any((dotted(t) or '').endswith('.in_transaction') for t in x.ast.targets)
            and isinstance(x.ast.value, ast.Constant) and x.ast.value.value is True]
    ok = bool(it) and bool(intx) and all(g.must_pass_after(e, it, exits=[g.exit]) for e in execs)
    if ok:
        ts = [y for t in it for y, lab in g.succ[t.id] if lab == 'T']
        ok = g.exit.id not in g.reach(ts, avoid=intx)
    ctx.ob('C17-BEGIN.in_transaction-recorded-after-immediate-statement', ex, it[0].stmt if it else ex.node, ok,
           '' if ok else 'after executing under `immediate`, _exec_sql can return without cache.in_transaction = True (commit would skip the provider commit)')
    pc = repo.fn(CORE, 'SessionCache.prepare_connection_for_query_execution')
    g = cg.cfg(pc); recv = pc.recv
    stm = nodes_calling(g, lambda c: isinstance(c.func, ast.Attribute) and c.func.attr == 'set_transaction_mode')
    tests = [t for t in g.nodes if t.kind == 'test' and norm(t.ast) == '%s.immediate and (not %s.in_transaction)' % (recv, recv)
             or t.kind == 'test' and norm(t.ast) == '%s.immediate and not %s.in_transaction' % (recv, recv)]
    ok = bool(stm) and bool(tests)
    if ok:
        ts = [y for t in tests for y, lab in g.succ[t.id] if lab == 'T']
        ok = g.exit.id not in g.reach(ts, avoid=stm + nodes_calling(g, lambda c: is_call_to(c, recv, 'reconnect')))
    ctx.ob('C17-BEGIN.existing-connection-starts-transaction', pc, tests[0].stmt if tests else pc.node, ok,
           '' if ok else 'an immediate session with an open connection can run statements without set_transaction_mode()')
    cn = repo.fn(CORE, 'SessionCache.connect')
    g = cg.cfg(cn)
    stm = nodes_calling(g, lambda c: isinstance(c.func, ast.Attribute) and c.func.attr == 'set_transaction_mode')
    ok = bool(stm) and g.must_pass_after(g.entry, stm, exits=[g.exit])
    ctx.ob('C17-BEGIN.new-connection-starts-transaction', cn, stm[0].ast if stm else cn.node, ok, '' if ok else 'connect() can return a connection without set_transaction_mode()')
    sq = repo.fn('pony.orm.dbproviders.sqlite', 'SQLiteProvider.set_transaction_mode')
    g = cg.cfg(sq); cache = sq.params[2]
    begin = [x for x in g.nodes if x.kind == 'stmt' and isinstance(x.ast, ast.Assign) and isinstance(x.ast.value, ast.Constant)
             and isinstance(x.ast.value.value, str) and x.ast.value.value.upper().startswith('BEGIN IMMEDIATE')]
    # finite-state run: with cache.immediate true, every normal exit has executed the BEGIN IMMEDIATE statement (`sql` tracked as a constant)
    def is_begin(v): return isinstance(v, ast.Constant) and isinstance(v.value, str) and v.value.upper().startswith('BEGIN IMMEDIATE')
    def eff_b(n, env):
        if n.kind != 'stmt': return None
        upd = {}
        if isinstance(n.ast, ast.Assign):
            for t_, v_ in assign_pairs(n.ast):
                if isinstance(t_, ast.Name) and (is_begin(v_) or env['sqlvar'] == t_.id): upd['sqlvar'] = t_.id if is_begin(v_) else ''
        for c in n.calls():
            if isinstance(c.func, ast.Attribute) and c.func.attr == 'execute' and c.args and (is_begin(c.args[0]) or (isinstance(c.args[0], ast.Name) and c.args[0].id == env['sqlvar'] != '')):
                upd['begun'] = True
        return {'normal': [upd]} if upd else None
    def atom_b(t, env):
        if t == cache + '.immediate': return env['imm']
        return None
    mb = Machine(g, ['imm', 'sqlvar', 'begun'], eff_b, atom_b, snap={cache + '.immediate': 'imm'})
    INb = mb.run([{'imm': True, 'sqlvar': '', 'begun': False}])
    ends = mb.states_at(INb, g.exit)
    ok = bool(begin) and bool(ends) and all(e['begun'] for e in ends)
    ctx.ob('C17-BEGIN.sqlite-begin-immediate', sq, begin[0].ast if begin else sq.node, ok, '' if ok else 'immediate SQLite session does not execute BEGIN IMMEDIATE')
    # the flag that says "a transaction is open" is recorded only after BEGIN succeeded: otherwise a failed BEGIN (database is locked) leaves
    # in_transaction True on a connection in autocommit mode, BEGIN is never retried and every later write is durable at once
    flags = [x for x in g.nodes if x.kind == 'stmt' and isinstance(x.ast, ast.Assign) and any(dotted(t_) == cache + '.in_transaction' for t_ in x.ast.targets)
             and isinstance(x.ast.value, ast.Constant) and x.ast.value.value is True]
    begin_exec = [x for x in nodes_calling(g, lambda c: isinstance(c.func, ast.Attribute) and c.func.attr == 'execute') if begin and any(x.id in g.reach([b], include_src=False) for b in begin)]
    for fl_ in flags:
        okf = bool(begin_exec) and g.dominated(fl_, begin_exec, edge_ok=lambda x, y, lab: True) and not any(fl_.id in {p_ for p_, lab in g.pred[be.id]} for be in begin_exec)
        # dominated by the execute node is not enough: the flag must lie on the *normal* continuation of the execute (not be reachable only... ) -- the execute's exception edge never reaches it
        if okf:
            exc_succ = [y for be in begin_exec for y, lab in g.succ[be.id] if lab == 'exc']
            okf = fl_.id not in g.reach(exc_succ)
        ctx.ob('C17-BEGIN.sqlite-flag-only-after-begin-succeeded', sq, fl_.ast, okf,
               '' if okf else '`%s` is not confined to the normal continuation of the BEGIN IMMEDIATE statement: when BEGIN fails the session believes a transaction is '
               'open, never begins one, and its later writes are committed one by one' % norm(fl_.ast), node=fl_.ast)
    ctx.floor('C17-BEGIN', len(flags), 1, 'in_transaction = True in SQLite set_transaction_mode')

    # ---------------------------------------------------------------- ABORT
    abort_rules(ctx)
    global_commit_rules(ctx)
    rbk = repo.fn(CORE, 'rollback_and_reraise'); g = cg.cfg(rbk)
    rb = nodes_calling(g, lambda c: isinstance(c.func, ast.Name) and c.func.id == 'rollback')
    ok = bool(rb) and g.must_pass_after(g.entry, rb, exits=[g.raise_, g.exit])
    ctx.ob('C17-ABORT.rollback_and_reraise-rolls-back', rbk, rbk.node, ok, '' if ok else 'rollback_and_reraise can leave without rollback()')
    # ---------------------------------------------------------------- RECONNECT
    # a statement that fails with a connection-level error is answered by SessionCache.reconnect(e): drop the connection, open a new one, run the
    # statement again.  That is only sound when no transaction was open -- the new connection knows nothing of the earlier writes.  provider.drop()
    # resets cache.in_transaction, so the decision must be taken from the flag's value *before* the drop.  Finite-state run over reconnect():
    # `was` = a transaction was open on entry, `intx` = the flag now; drop() clears the flag; connect() must be unreachable with was == True.
    rc = repo.fn(CORE, 'SessionCache.reconnect'); g = cg.cfg(rc); rrecv = rc.recv
    excp = rc.params[1]
    def eff_r(n, env):
        if n.kind != 'stmt': return None
        for c in n.calls():
            if isinstance(c.func, ast.Attribute) and c.func.attr == 'drop': return {'normal': [{'intx': False}], 'exc': [{'intx': False}]}
        if isinstance(n.ast, ast.Assign):
            for t_, v_ in assign_pairs(n.ast):
                if dotted(t_) == rrecv + '.in_transaction' and isinstance(v_, ast.Constant): return {'normal': [{'intx': bool(v_.value)}]}
        return None
    def atom_r(t, env):
        if t == rrecv + '.in_transaction': return env['intx']
        if t == excp + ' is not None': return True
        if t == excp + ' is None': return False
        return None
    mr = Machine(g, ['was', 'intx'], eff_r, atom_r, snap={rrecv + '.in_transaction': 'intx'})
    INr = mr.run([{'was': True, 'intx': True}, {'was': False, 'intx': False}])
    conn = nodes_calling(g, lambda c: is_call_to(c, rrecv, 'connect'))
    ctx.need(conn, 'C17: SessionCache.reconnect no longer calls connect()')
    bad = [e for cn in conn for e in mr.states_at(INr, cn) if e['was']]
    live = [e for cn in conn for e in mr.states_at(INr, cn) if not e['was']]
    ok = not bad and bool(live)
    ctx.ob('C17-RECONNECT.no-new-connection-in-the-middle-of-a-transaction', rc, conn[0].ast, ok,
           '' if ok else ('after a connection failure reconnect() can reach connect() although a transaction was in progress (state %s): the failed statement is re-run on a '
                          'fresh connection, the writes made before the failure are lost and the later ones are committed' % bad[0]) if bad else 'reconnect() never reconnects',
           expected='remember cache.in_transaction before provider.drop() (which resets it) and raise ConnectionClosedError')


MUTANTS = [
    dict(id='C17-skip1', file='pony/orm/core.py', fn='commit', old="        for cache in other_caches:\n            try: cache.rollback()", new="        for cache in other_caches:\n            if not cache.in_transaction: continue\n            try: cache.rollback()", expect='C17-ABORT.every-cache'),
    dict(id='C17-rec1', file='pony/orm/core.py', fn='SessionCache.reconnect', old="            in_transaction = cache.in_transaction\n            cache.connection = None\n            provider.drop(connection, cache)  # resets cache.in_transaction\n            if in_transaction: throw(",
         new="            cache.connection = None\n            provider.drop(connection, cache)  # resets cache.in_transaction\n            in_transaction = cache.in_transaction\n            if in_transaction: throw(", expect='C17-RECONNECT'),
    dict(id='C17-g1', file='pony/orm/core.py', fn='commit', old="        for cache in caches:\n            cache.flush()\n", new="        caches[0].flush()\n", expect='C17-ABORT.global-commit'),
    dict(id='C17-b1', file='pony/orm/dbproviders/sqlite.py', fn='SQLiteProvider.set_transaction_mode', old="                cursor.execute(sql)\n                cache.in_transaction = True\n", new="                cache.in_transaction = True\n                cursor.execute(sql)\n", expect='C17-BEGIN.sqlite-flag'),
    dict(id='C17-m1', file='pony/orm/core.py', fn='Entity._save_deleted_', old='database._exec_sql(sql, arguments, start_transaction=True)', new='database._exec_sql(sql, arguments)', expect='C17-DML.statement'),
    dict(id='C17-m2', file='pony/orm/core.py', fn='Entity._save_updated_', old='cursor = database._exec_sql(sql, arguments, start_transaction=True)', new='cursor = database._exec_sql(sql, arguments)', expect='C17-DML.statement'),
    dict(id='C17-m3', file='pony/orm/core.py', fn='Query.delete', old='        cache.immediate = True\n        cache.prepare_connection_for_query_execution()', new='        cache.prepare_connection_for_query_execution()', expect='C17-DML.statement'),
    dict(id='C17-m4', file='pony/orm/core.py', fn='Database.execute', old=', start_transaction=True)', new=')', expect='C17-DML.execute'),
    dict(id='C17-m5', file='pony/orm/core.py', fn='Database._exec_sql', old='        if start_transaction: cache.immediate = True\n        connection = cache.prepare_connection_for_query_execution()',
         new='        connection = cache.prepare_connection_for_query_execution()\n        if start_transaction: cache.immediate = True', expect='C17-BEGIN.flag-set'),
    dict(id='C17-m6', file='pony/orm/core.py', fn='SessionCache.flush_and_commit', old='        try: cache.flush()\n        except:\n            cache.rollback()\n            raise', new='        cache.flush()', expect='C17-ABORT'),
    dict(id='C17-m7', file='pony/orm/core.py', fn='SessionCache.flush', old='        prev_immediate = cache.immediate\n        cache.immediate = True\n', new='        prev_immediate = cache.immediate\n', expect='C17-DML'),
    dict(id='C17-m8', file='pony/orm/core.py', fn='SessionCache.prepare_connection_for_query_execution', old='elif cache.immediate and not cache.in_transaction:', new='elif cache.immediate and not cache.in_transaction and False:', expect='C17-BEGIN.existing'),
    dict(id='C17-m9', file='pony/orm/core.py', fn='commit', old='    except:\n        rollback_and_reraise(sys.exc_info())', new='    except:\n        raise', expect='C17-ABORT.global-commit-rolls-back-on-flush'),
    dict(id='C17-m10', file='pony/orm/core.py', fn='Database._exec_sql', old='        if cache.immediate:\n            cache.in_transaction = True\n', new='', expect='C17-BEGIN.in_transaction'),
]
