"""C22  Concurrent threads do not interfere through shared process state."""
import ast, re
from ..loader import dotted, walk_no_nested, norm, head, calls_in, Cls
from ..q import nodes_calling, alias_map

EXPLANATION = """
Static clauses decided (necessary conditions of C22):
 ATOM    on process-shared dictionaries (module-level caches, and the caches attached to a Database object that all
         threads share) only operations that are atomic and idempotent under the GIL are used without a lock: lookup,
         keyed store, setdefault, pop with default.  `del d[k]` and `d.pop(k)` without default after a separate lookup
         (check-then-act) raise KeyError when two threads invalidate the same entry; iteration over such a dictionary
         is only allowed under its lock.
 ADOPT   a translator taken out of the shared Database._translator_cache is used only after Query._get_translator
         re-validated it against this thread's parameter values: the cache is read nowhere else, and stores are plain keyed
         assignments (a setdefault would hand back another thread's translator built for other fixed parameter values).
 LOCAL   the holders of per-thread session state (core.Local, DbLocal, sqltranslation.Local, the connection pools,
         LocalExceptions) derive from localbase (threading.local).
 CROSS   operations that combine an object with a session check that the object's session cache is the current one and
         throw TransactionError otherwise (Attribute.validate, Set.validate, SetInstance.__contains__, Entity._load_,
         Entity.load).
 PIN     C05's pin rule: the process-wide caches are keyed by ids of code objects that are pinned for the life of the process.
"""
NOT_DECIDED = "data races inside a translator object shared by two threads; schedules"

CORE = 'pony.orm.core'
DB_SHARED = ('_translator_cache', '_constructed_sql_cache', '_insert_cache', '_global_stats')
LOCKED = {'_global_stats': '_global_stats_lock'}


def shared_module_dicts(repo):
    out = {}
    for m in repo.rule_modules():
        if '/example' in m.rel: continue
        for name, node in m.toplevel.items():
            if isinstance(node, ast.Assign) and isinstance(node.value, ast.Dict) and not node.value.keys:
                if name[0].isupper(): continue
                out[(m.name, name)] = node
    return out


def session_tests(f, g):
    """test nodes that compare the object's session cache with the current thread's by identity (`cache is not database._get_cache()`), read through
    locals that are bound once (`current_cache = database._get_cache()`)"""
    from ..q import resolve_names
    out = []
    for t in g.nodes:
        if t.kind != 'test': continue
        rt = resolve_names(f.node, t.ast)
        cmps = [c for c in ast.walk(rt) if isinstance(c, ast.Compare) and len(c.ops) == 1 and isinstance(c.ops[0], ast.IsNot)
                and any(('_session_cache_' in norm(x) or '_get_cache()' in norm(x)) for x in (c.left, c.comparators[0]))]
        if not cmps: continue
        # the test must come out true whenever the two caches differ, whatever else it mentions: `other_condition and cache is not current` does not
        texts = {norm(c) for c in cmps}
        from ..typestate import eval_test
        if eval_test(rt, lambda text, node: True if text in texts else None) is True: out.append(t)
    return out


def run(ctx):
    repo, cg = ctx.repo, ctx.cg
    # the process-wide caches (ast_cache, extractors_cache, the translator cache) are keyed by id(<code object>): a key is one query's for as long as
    # the process lives only if the code object is pinned -- otherwise a thread running an ad-hoc query is served another thread's translation
    from .C05 import pin_rule
    pin_rule(ctx, 'C22-PIN')
    shared = shared_module_dicts(repo)
    ctx.floor('C22-ATOM', len(shared), 10, 'module-level shared dictionaries')
    n = 0
    for fn in repo.rule_funcs():
        for node in walk_no_nested(fn.node):
            tgt = None; op = None
            if isinstance(node, ast.Delete):
                for t in node.targets:
                    if isinstance(t, ast.Subscript): tgt, op = t.value, 'del d[k]'
            elif isinstance(node, ast.Call) and isinstance(node.func, ast.Attribute):
                if node.func.attr == 'pop' and len(node.args) == 1 and not node.keywords: tgt, op = node.func.value, 'd.pop(k) without default'
                elif node.func.attr in ('popitem', 'clear'): tgt, op = node.func.value, 'd.%s()' % node.func.attr
            elif isinstance(node, ast.For):
                it = node.iter
                if isinstance(it, ast.Call) and isinstance(it.func, ast.Attribute) and it.func.attr in ('items', 'keys', 'values'): it = it.func.value
                tgt, op = it, 'iteration'
            elif isinstance(node, (ast.DictComp, ast.ListComp, ast.SetComp, ast.GeneratorExp)):
                it = node.generators[0].iter
                if isinstance(it, ast.Call) and isinstance(it.func, ast.Attribute) and it.func.attr in ('items', 'keys', 'values'): it = it.func.value
                tgt, op = it, 'iteration'
            if tgt is None: continue
            d = dotted(tgt)
            if not d: continue
            is_shared = None
            if isinstance(tgt, ast.Name):
                r = repo.resolve_name(fn.mod, tgt.id)
                if r and r[0] == 'var' and (r[1].name, tgt.id) in shared and tgt.id not in fn.params: is_shared = '%s.%s' % (r[1].name, tgt.id)
            elif isinstance(tgt, ast.Attribute) and tgt.attr in DB_SHARED:
                is_shared = 'Database.' + tgt.attr
            if is_shared is None and isinstance(tgt, ast.Name):
                src = alias_map(fn.node).get(tgt.id, '')            # a local that merely names the shared dictionary
                if src.split('.')[-1] in DB_SHARED: is_shared = 'Database.' + src.split('.')[-1]
            if not is_shared: continue
            n += 1
            lock = LOCKED.get(tgt.attr) if isinstance(tgt, ast.Attribute) else None
            under_lock = False
            if lock:
                for w in walk_no_nested(fn.node):
                    if isinstance(w, ast.With) and any(lock in norm(i.context_expr) for i in w.items) and any(x is node for b in w.body for x in ast.walk(b)):
                        under_lock = True
            ok = under_lock
            ctx.ob('C22-ATOM.shared-dict-operation-is-atomic', fn, node if not isinstance(node, ast.Call) else node, ok,
                   '' if ok else '%s on the process-shared dictionary %s without a lock: two threads that both found the entry race, and the '
                   'loser gets KeyError / RuntimeError although it would succeed alone' % (op, is_shared), node=node,
                   expected='d.pop(k, None) / keyed store / setdefault, or hold the dictionary\'s lock')
    ctx.count('C22-ATOM: non-atomic operations on shared dictionaries examined', n)
    # every function touching a shared dict is an obligation (positive instances)
    uses = 0
    for fn in repo.rule_funcs():
        for node in walk_no_nested(fn.node):
            if isinstance(node, ast.Attribute) and node.attr in DB_SHARED: uses += 1
            elif isinstance(node, ast.Name) and isinstance(node.ctx, ast.Load) and alias_map(fn.node).get(node.id, '').split('.')[-1] in DB_SHARED: uses += 1
            elif isinstance(node, ast.Name) and isinstance(node.ctx, ast.Load):
                r = repo.resolve_name(fn.mod, node.id)
                if r and r[0] == 'var' and (r[1].name, node.id) in shared and node.id not in fn.params: uses += 1
    ctx.floor('C22-ATOM', uses, 36, 'uses of shared dictionaries scanned')
    ctx.ob('C22-ATOM.scan-complete', '%s::<package>' % 'pony', 'shared dictionary uses scanned: %d' % uses, True, nontrivial=False)

    # ---------------------------------------------------------------- ADOPT
    gt = repo.fn(CORE, 'Query._get_translator')
    reads = stores = 0
    for fn in repo.rule_funcs():
        if fn.mod.name != CORE: continue
        am_ = alias_map(fn.node)
        for node in walk_no_nested(fn.node):
            is_alias_use = isinstance(node, ast.Name) and isinstance(node.ctx, ast.Load) and am_.get(node.id, '').split('.')[-1] == '_translator_cache'
            if (isinstance(node, ast.Attribute) and node.attr == '_translator_cache') or is_alias_use:
                par = [p for p in ast.walk(fn.node) if any(c is node for c in ast.iter_child_nodes(p))]
                p = par[0] if par else None
                kind = 'other'
                if isinstance(p, ast.Subscript) and isinstance(p.ctx, ast.Store): kind = 'store'
                elif isinstance(p, ast.Subscript) and isinstance(p.ctx, ast.Del): kind = 'del'
                elif isinstance(p, ast.Attribute) and p.attr in ('pop',): kind = 'del'
                elif isinstance(p, ast.Assign): kind = 'init'          # Database.__init__, or the binding of a local alias
                else: kind = 'read:' + (p.attr if isinstance(p, ast.Attribute) else type(p).__name__)
                if kind == 'store': stores += 1; continue
                if kind in ('del', 'init'): continue
                reads += 1
                ok = fn is gt and kind == 'read:get'
                ctx.ob('C22-ADOPT.shared-translator-read-only-through-revalidation', fn, p if p is not None else node, ok,
                       '' if ok else '%s takes a translator out of the shared _translator_cache (%s) outside Query._get_translator: it is used without '
                       'comparing its fixed parameter values with this thread\'s, so a thread can run a translation another thread cached for '
                       'different values' % (fn.qual, kind), node=node)
    ctx.floor('C22-ADOPT', reads, 1, 'reads of _translator_cache'); ctx.floor('C22-ADOPT', stores, 5, 'stores into _translator_cache')

    # ---------------------------------------------------------------- LOCAL
    for modn, cn in ((CORE, 'Local'), (CORE, 'DbLocal'), ('pony.orm.sqltranslation', 'Local'), ('pony.orm.dbapiprovider', 'Pool'),
                     ('pony.orm.dbproviders.sqlite', 'LocalExceptions'), ('pony.orm.dbproviders.sqlite', 'SQLitePool'),
                     ('pony.orm.dbproviders.postgres', 'PGPool')):
        # (OraPool is deliberately not thread-local: it delegates to cx_Oracle.SessionPool, which hands out one connection per acquire())
        c = repo.cls(modn, cn)
        ok = any(b.split('.')[-1] in ('localbase', 'local') for b in repo.ext_bases(c))
        ctx.ob('C22-LOCAL.session-state-holder-is-thread-local', '%s::%s' % (c.mod.rel, c.qual), 'class ' + cn, ok,
               '' if ok else '%s no longer derives from localbase: its per-session state is shared by all threads' % cn, node=c.node)
    lb = [m for m in repo.rule_modules() if 'localbase' in m.toplevel or 'localbase' in m.imports]
    src = repo.mod('pony.utils.utils')
    ok = 'localbase' in src.toplevel or 'localbase' in src.imports
    imp = src.imports.get('localbase')
    ok = imp == ('attr', 'threading', 'local')
    ctx.ob('C22-LOCAL.localbase-is-threading-local', 'pony/utils/utils.py::<module>', 'localbase', ok,
           '' if ok else 'localbase is not threading.local (%s)' % (imp,))

    # ---------------------------------------------------------------- CROSS
    for qual in ('Attribute.validate', 'Set.validate', 'SetInstance.__contains__', 'Entity._load_', 'Entity.load'):
        f = repo.fn(CORE, qual); g = cg.cfg(f)
        tests = session_tests(f, g)
        ok = bool(tests)
        for t in tests:
            ts = [y for y, lab in g.succ[t.id] if lab == 'T']
            if g.exit.id in g.reach(ts): ok = False
        ctx.ob('C22-CROSS.foreign-session-object-is-rejected', f, tests[0].stmt if tests else f.node, ok,
               '' if ok else '%s no longer rejects an object that belongs to another session/thread' % qual)

    # the loaders: no way out of the function bypasses the check, except the enumerated returns that touch nothing (same scheme as C32's NOOP_RETURNS)
    EARLY = {'Set.load': {'setdata.is_fully_loaded and not attr.is_volatile': 'nothing is loaded or changed: the cached collection is handed back as it is'},
             'Entity._load_': {}, 'Entity.load': {}}
    for qual, allowed_src in EARLY.items():
        f = repo.fn(CORE, qual); g = cg.cfg(f)
        tests = session_tests(f, g)
        allowed = {norm(ast.parse(k, mode='eval').body, limit=1000) for k in allowed_src}
        for k, why in allowed_src.items(): ctx.exception('C22-CROSS', '%s: `%s`' % (qual, k), why)
        an = {n.id for n in g.nodes if n.kind == 'test' and norm(n.ast, limit=1000) in allowed}
        eo = lambda x, y, lab: not (x in an and lab == 'T')
        ok = bool(tests) and g.exit.id not in g.reach([g.entry], avoid=tests, edge_ok=eo)
        pth = None if ok else g.path(g.entry, g.exit, avoid=tests, edge_ok=eo)
        ctx.ob('C22-CROSS.loader-cannot-return-without-the-session-check', f, tests[0].stmt if tests else f.node, ok,
               '' if ok else '%s can return normally without comparing the object\'s session with the current thread\'s (%s): an object of another thread\'s session is '
               'accepted and its session state is changed from this thread' % (qual, g.fmt_path(pth) if pth else 'no check'), node=tests[0].stmt if tests else None)
    # ---------------------------------------------------------------- PUBLISH
    # a translator becomes visible to every thread the moment it is stored in the shared Database._translator_cache: it must be complete by then.  After a
    # store `<db>._translator_cache[...] = t` no statement of the same function assigns an attribute of t
    npub = 0
    for fn in repo.rule_funcs():
        if fn.mod.name != CORE: continue
        g = None
        for st in walk_no_nested(fn.node):
            if not (isinstance(st, ast.Assign) and len(st.targets) == 1 and isinstance(st.targets[0], ast.Subscript) and (dotted(st.targets[0].value) or '').endswith('._translator_cache')
                    and isinstance(st.value, ast.Name)): continue
            g = g or cg.cfg(fn)
            store = [x for x in g.nodes if x.kind == 'stmt' and x.ast is st]
            if not store: continue
            npub += 1
            tname = st.value.id
            after = g.reach(store, include_src=False)
            late = [x for x in g.nodes if x.id in after and x.kind == 'stmt' and isinstance(x.ast, (ast.Assign, ast.AugAssign))
                    and any(isinstance(t, ast.Attribute) and dotted(t.value) == tname for t in (x.ast.targets if isinstance(x.ast, ast.Assign) else [x.ast.target]))]
            ctx.ob('C22-PUBLISH.translator-is-complete-before-it-is-shared', fn, st, not late,
                   '' if not late else 'the translator is stored in the shared cache at line %d and `%s` is assigned afterwards (line %d): another thread that takes it from the cache in '
                   'between sees a half-initialised object (AttributeError)' % (st.lineno, norm(late[0].ast)[:60], late[0].lineno), node=st)
    ctx.floor('C22-PUBLISH', npub, 2, 'stores of a translator into the shared cache')


MUTANTS = [
    dict(id='C22-x1', file='pony/orm/core.py', fn='Set.load', old="        if cache is not database._get_cache():\n            throw(TransactionError, \"Transaction of object %s belongs to different thread\")\n\n        if items:", new="        if items:", expect='C22-CROSS.loader'),
    dict(id='C22-m1', file='pony/orm/core.py', fn='Query._get_translator', old='database._translator_cache.pop(query_key, None)', new='del database._translator_cache[query_key]', expect='C22-ATOM'),
    dict(id='C22-m2', file='pony/orm/core.py', fn='Query.__init__', old='                database._translator_cache[query._key] = translator', new='                translator = database._translator_cache.setdefault(query._key, translator)', expect='C22-ADOPT'),
    dict(id='C22-m3', file='pony/orm/core.py', old='class DbLocal(localbase):', new='class DbLocal(object):', expect='C22-LOCAL'),
    dict(id='C22-m4', file='pony/orm/core.py', fn='SetInstance.__contains__', old="            throw(TransactionError, 'An attempt to mix objects belonging to different transactions')", new="            pass", expect='C22-CROSS'),
    dict(id='C22-m5', file='pony/orm/core.py', fn='Database.global_stats', old='        with database._global_stats_lock:\n            return', new='        if True:\n            return', expect='C22-ATOM'),
    dict(id='C22-m6', file='pony/orm/decompiling.py', fn='decompile', old='        ast_cache[key] = result', new='        ast_cache[key] = result\n        if len(ast_cache) > 10000: ast_cache.clear()', expect='C22-ATOM'),
]
