"""C06  Values reach the database unchanged: parameters, literals and identifiers."""
import ast
from ..loader import dotted, walk_no_nested, norm, head, calls_in, parents
from ..q import nodes_calling

EXPLANATION = """
Static clauses decided (necessary conditions of C06):
 STYLES   the three paramstyle tables agree (Param.__str__, the adapter built in SQLBuilder.__init__, adapt_sql): each
          handles exactly the five DB-API styles and raises for anything else; styles rendered as positional placeholders get a
          tuple adapter, styles rendered as named placeholders get a dict adapter keyed 'p<id>' -- the same key the placeholder
          text uses.
 PERCENT  every site that puts program-supplied *text* into the statement doubles '%' exactly for the two %-interpreting
          styles (format, pyformat): Value.quote_str, SQLBuilder.MOD, SQLBuilder.RAWSQL, adapt_sql.
 LIKE     LIKE patterns built from a value (StringMixin._like): the escape character is doubled first, then % and _ are
          escaped with it, on the constant path (Python .replace chain) and on the parameter path (nested REPLACE templates)
          alike; the escaping is applied exactly when the ESCAPE clause is emitted (same block / same flag), with the same
          escape character everywhere; the builders emit ESCAPE when given.
 LITERAL  inline string literals: every Value class escapes the characters that terminate or escape a string in its dialect
          (table: all dialects `'`; MySQL additionally `\\`).
 LITTWIN  SQLite compares dates and datetimes as TEXT, so a value written inline must be spelt exactly as the same value bound as a
          parameter (and as it is stored): for datetime and date the rendering in SQLiteValue.__str__ is the same function of the
          value as py2sql of the SQLite converter of that type (datetime2timestamp on both sides -- it always writes the
          microseconds; str(date) == date.isoformat()).
 DISPATCH in every isinstance dispatch chain of the builders, Value classes and converters a class is tested before its base classes
          (datetime before date, bool before int): the branch written for the specific type is reachable for it.
 IDENT    identifiers reach the statement only through quote_name/compound_name: in every method of the SQLBuilder
          hierarchy a table/alias/column name (tracked by forward dataflow from the identifier parameters) is never used as
          output text unquoted; DBAPIProvider.quote_name doubles the quote character; the DDL text functions of dbschema.py
          quote every `.name` they emit.
"""
NOT_DECIDED = "driver-side binding; numeric and date literal round trips; server SQL modes (NO_BACKSLASH_ESCAPES, ANSI_QUOTES)"

SB = 'pony.orm.sqlbuilding'
STYLES = {'qmark', 'format', 'numeric', 'named', 'pyformat'}
IDENT_PARAMS = {'table_name', 'alias', 'table_alias', 'col_name', 'returning'}
DIALECT_STRING_METACHARS = {'MySQL': {"'", '\\'}, None: {"'"}, 'SQLite': {"'"}, 'PostgreSQL': {"'"}, 'Oracle': {"'"}}


def style_chain(fn_node, var):
    """styles tested in `if var == 'x' / var in (..)` chains -> {style: body}, plus the final else body"""
    out = {}; tail = None
    for s in walk_no_nested(fn_node):
        if isinstance(s, ast.If) and var in norm(s.test) and not out:
            cur = s
            while True:
                t = cur.test
                if isinstance(t, ast.Compare) and len(t.ops) == 1:
                    c = t.comparators[0]
                    if isinstance(t.ops[0], ast.Eq) and isinstance(c, ast.Constant): out[c.value] = cur.body
                    elif isinstance(t.ops[0], ast.In) and isinstance(c, (ast.Tuple, ast.List)):
                        for e in c.elts:
                            if isinstance(e, ast.Constant): out[e.value] = cur.body
                if len(cur.orelse) == 1 and isinstance(cur.orelse[0], ast.If): cur = cur.orelse[0]
                else: tail = cur.orelse; break
    return out, tail


def raises(body):
    return any(dotted(c.func) == 'throw' and c.args and dotted(c.args[0]) == 'NotImplementedError' for s in body or [] for c in calls_in(s))


def run(ctx):
    repo, cg = ctx.repo, ctx.cg
    styles_rule(ctx); percent_rule(ctx); like_rule(ctx); literal_rule(ctx); littwin_rule(ctx); ident_rule(ctx)
    dispatch_rule(ctx, 'C06', ('pony/orm/sqlbuilding.py', 'pony/orm/dbproviders/', 'pony/orm/dbapiprovider.py'))
    # a value (string index, attribute name given to getattr) that is rendered INTO the statement text denotes the program's value only as long as the
    # cached translation is redone when the value changes: the fixed-parameter rules of C05 are necessary conditions of C06's inline-literal clause
    from . import C05
    C05.fixed_rule(ctx, prefix='C06-FIXED'); C05.embedded_rule(ctx, prefix='C06-FIXED')


def style_scenarios(cg, f, resolve=False):
    """evaluate the function once per paramstyle (and once for an unknown style): every comparison of a name/attribute with style constants
    (`x == 'qmark'`, `x in ('qmark', 'format')`) is decided by the scenario, everything else is unknown.  -> ({style: [statement texts reachable
    only because of that style]}, styles mentioned, unknown-style verdict).  Works for elif chains, sequences of early-return ifs, renamed
    locals, merged or split branches alike."""
    from ..typestate import eval_test
    g = cg.cfg(f)
    mentioned = set(); style_tests = []
    for t in g.nodes:
        if t.kind != 'test': continue
        for c in ast.walk(t.ast):
            if isinstance(c, ast.Compare) and len(c.ops) == 1:
                k = c.comparators[0]
                consts = [k.value] if isinstance(k, ast.Constant) else [e.value for e in k.elts if isinstance(e, ast.Constant)] if isinstance(k, (ast.Tuple, ast.List, ast.Set)) else []
                if consts and all(isinstance(v, str) for v in consts) and set(consts) & STYLES and isinstance(c.ops[0], (ast.Eq, ast.NotEq, ast.In, ast.NotIn)):
                    mentioned |= set(consts)
                    if t not in style_tests: style_tests.append(t)
    def reach_for(style):
        def atom(text, node):
            if isinstance(node, ast.Compare) and len(node.ops) == 1:
                k = node.comparators[0]
                consts = [k.value] if isinstance(k, ast.Constant) else [e.value for e in k.elts if isinstance(e, ast.Constant)] if isinstance(k, (ast.Tuple, ast.List, ast.Set)) else None
                if consts and all(isinstance(v, str) for v in consts) and (set(consts) & STYLES):
                    hit = style in consts
                    return hit if isinstance(node.ops[0], (ast.Eq, ast.In)) else (not hit)
            return None
        def edge_ok(x, y, lab):
            n_ = g.nodes[x]
            if n_.kind != 'test' or lab not in ('T', 'F'): return True
            v = eval_test(n_.ast, atom)
            return v is None or v == (lab == 'T')
        return g.reach([g.entry], edge_ok=edge_ok), edge_ok
    unknown, eo_unknown = reach_for('<unknown>')
    per = {}
    for st in sorted(STYLES):
        r, _ = reach_for(st)
        # single-assignment locals read like what they stand for (`param_id = param.id ... ':%d' % param_id`)
        from ..q import resolve_names
        per[st] = [norm(resolve_names(f.node, g.nodes[i].ast) if resolve else g.nodes[i].ast, limit=400) for i in sorted(r - unknown) if g.nodes[i].ast is not None and g.nodes[i].kind in ('stmt', 'test')]
    throws = [x for x in g.nodes if x.kind == 'stmt' and x.ast is not None and any(dotted(c.func) == 'throw' and c.args and dotted(c.args[0]) == 'NotImplementedError' for c in x.calls())]
    ok_unknown = bool(style_tests) and bool(throws) and any(t.id in unknown for t in throws) and \
        all(g.must_pass_after(t, throws, exits=[g.exit], edge_ok=eo_unknown) for t in sorted([t for t in style_tests if t.id in unknown], key=lambda t: t.lineno)[-1:])
    handled = {st for st in STYLES if per[st] and not any('NotImplementedError' in x for x in per[st])}
    return per, mentioned, handled, ok_unknown


def styles_rule(ctx):
    repo, cg = ctx.repo, ctx.cg
    sites = [repo.fn(SB, 'Param.__str__'), repo.fn(SB, 'SQLBuilder.__init__'), repo.fn('pony.orm.core', 'adapt_sql')]
    tables = {}
    for f in sites:
        per, mentioned, handled, ok_unknown = style_scenarios(cg, f, resolve=(f.qual == 'Param.__str__'))
        tables[f.qual] = per
        ok = handled == STYLES and (mentioned & STYLES) == STYLES and not (mentioned - STYLES)
        ctx.ob('C06-STYLES.handles-exactly-the-five-styles', f, f.node, ok, '' if ok else '%s handles %s (mentions %s)' % (f.qual, sorted(handled), sorted(mentioned)))
        ctx.ob('C06-STYLES.unknown-style-raises', f, f.node, ok_unknown, '' if ok_unknown else '%s: an unknown paramstyle falls through' % f.qual)
    ps, init = tables['Param.__str__'], tables['SQLBuilder.__init__']
    for st in sorted(STYLES):
        ptxt = ' '.join(ps.get(st, [])); atxt = ' '.join(init.get(st, []))
        named = 'p%d' in ptxt
        ok = ("'p%d' % param.id" in atxt) if named else ('tuple(' in atxt)
        ob = ctx.ob('C06-STYLES.placeholder-form-matches-argument-container', sites[1], 'paramstyle ' + st, ok,
                    '' if ok else 'style %r is rendered as %s placeholders (%s) but its adapter builds %s' % (
                        st, 'named' if named else 'positional', ptxt[:80], 'a tuple' if 'tuple(' in atxt else 'a dict' if atxt else 'nothing'))
        ob.key += '::' + st
        if st in ('numeric', 'named', 'pyformat'):
            ok = 'param.id' in ptxt
            ctx.ob('C06-STYLES.numbered-placeholder-uses-param-id', sites[0], 'paramstyle ' + st, ok, '' if ok else 'placeholder for %r does not use param.id' % st).key += '::' + st


def percent_rule(ctx):
    repo = ctx.repo
    for modn, qual in ((SB, 'Value.quote_str'), (SB, 'SQLBuilder.MOD'), (SB, 'SQLBuilder.RAWSQL'), ('pony.orm.core', 'adapt_sql')):
        f = repo.fn(modn, qual)
        # scenario evaluation: the statement that doubles % is reached for exactly the styles whose driver evaluates `sql % args`
        per, _m, _h, _u = style_scenarios(ctx.cg, f)
        doubling = {st for st in STYLES if any("'%%'" in x or "' %% '" in x for x in per[st])}
        ok = doubling == {'format', 'pyformat'}
        detail = '' if ok else 'doubles %% for %s (must be exactly format and pyformat)' % (sorted(doubling) or 'no style')
        ctx.ob('C06-PERCENT.text-site-doubles-percent-for-format-styles', f, f.node, ok,
               '' if ok else '%s puts text into the statement but: %s -- a format-style driver evaluates `sql %% args`, so a literal %% must be doubled there and only there' % (qual, detail))


def like_rule(ctx):
    repo, cg = ctx.repo, ctx.cg
    f = repo.fn('pony.orm.sqltranslation', 'StringMixin._like')
    # constant path: python replace chain
    chains = []
    for s in walk_no_nested(f.node):
        if isinstance(s, ast.Assign) and isinstance(s.value, ast.Call):
            e = s.value; ch = []
            while isinstance(e, ast.Call) and isinstance(e.func, ast.Attribute) and e.func.attr == 'replace' and len(e.args) == 2 \
                    and all(isinstance(a, ast.Constant) for a in e.args):
                ch.append((e.args[0].value, e.args[1].value)); e = e.func.value
            if ch: chains.append((s, ch[::-1]))
    ctx.need(len(chains) == 1, 'C06-LIKE: expected one .replace chain in _like, found %d' % len(chains))
    stmt, ch = chains[0]
    E = ch[0][0]
    ok = ch[0] == (E, E + E) and {a for a, b in ch[1:]} == {'%', '_'} and all(b == E + a for a, b in ch[1:]) and len(E) == 1 and E not in '%_'
    ctx.ob('C06-LIKE.constant-pattern-escaped-in-order', f, stmt, ok,
           '' if ok else 'replace chain %s: the escape character must be doubled first, then %% and _ escaped with it' % ch, node=stmt)
    # parameter path: nested REPLACE templates
    reps = []
    for s in walk_no_nested(f.node):
        if isinstance(s, ast.Assign) and isinstance(s.value, ast.List) and s.value.elts and isinstance(s.value.elts[0], ast.Constant) and s.value.elts[0].value == 'REPLACE':
            a, b = s.value.elts[2], s.value.elts[3]
            reps.append((s, a.elts[1].value, b.elts[1].value))
    seq = [(a, b) for _, a, b in sorted(reps, key=lambda r: r[0].lineno)]
    ok = seq == ch
    ctx.ob('C06-LIKE.parameter-pattern-escaped-like-constant', f, reps[0][0] if reps else f.node, ok,
           '' if ok else 'the REPLACE templates %s differ from the constant path %s' % (seq, ch))
    # escaping applied <=> ESCAPE emitted
    esc_assigns = [s for s in walk_no_nested(f.node) if isinstance(s, ast.Assign) and any(dotted(t) == 'escape' for t in s.targets)
                   and isinstance(s.value, ast.Constant) and s.value.value is True]
    def block_of(st):
        for b in bodies(f.node):
            if st in b: return b
    ok = any(block_of(stmt) is block_of(e) for e in esc_assigns) and any(block_of(reps[0][0]) is block_of(e) for e in esc_assigns) if reps else False
    ctx.ob('C06-LIKE.escaping-applied-exactly-when-ESCAPE-is-emitted', f, stmt, ok,
           '' if ok else 'the escaping of the pattern and `escape = True` are not in the same block: either an escaped pattern is sent without an ESCAPE '
           'clause (the doubled escape characters are then matched literally) or an ESCAPE clause is sent for an unescaped pattern', node=stmt)
    app = [s for s in walk_no_nested(f.node) if isinstance(s, ast.If) and norm(s.test) == 'escape' and any("['VALUE', %r]" % E in norm(x) for x in s.body)]
    ctx.ob('C06-LIKE.escape-operand-uses-same-character', f, app[0] if app else f.node, bool(app), '' if app else 'the ESCAPE operand is not the escape character %r used in the pattern' % E)
    for cls in repo.subclasses(repo.cls(SB, 'SQLBuilder')):
        for nm in ('LIKE', 'NOT_LIKE'):
            m = cls.methods.get(nm)
            if m is None: continue
            ok = any(isinstance(s, ast.If) and norm(s.test) == 'escape' and 'ESCAPE' in ' '.join(norm(x) for x in s.body) for s in walk_no_nested(m.node))
            ctx.ob('C06-LIKE.builder-emits-escape-clause', m, m.node, ok, '' if ok else '%s.%s ignores its escape operand' % (cls.name, nm))


def literal_rule(ctx):
    repo = ctx.repo
    V = repo.cls(SB, 'Value')
    for cls in repo.subclasses(repo.cls(SB, 'SQLBuilder')):
        vc, val = repo.lookup_attr(cls, 'value_class')
        dial_c, dial = repo.lookup_attr(cls, 'dialect')
        d = dial.value if isinstance(dial, ast.Constant) else None
        if val is None or cls.name in ('SQLBuilder',) and d is None: pass
        r = repo.resolve_name(cls.mod, dotted(val)) if val is not None else None
        if not r or r[0] != 'class': continue
        q = repo.lookup(r[1], 'quote_str')
        ctx.need(q is not None, 'C06-LITERAL: %s has no quote_str' % r[1].name)
        escaped = set()
        for c in calls_in(q.node):
            if isinstance(c.func, ast.Attribute) and c.func.attr == 'replace' and len(c.args) == 2 and all(isinstance(a, ast.Constant) for a in c.args):
                a, b = c.args[0].value, c.args[1].value
                if a != '%' and len(a) == 1 and b in (a + a, '\\' + a): escaped.add(a)
        need = DIALECT_STRING_METACHARS.get(d, {"'"})
        missing = sorted(need - escaped)
        ctx.ob('C06-LITERAL.value-class-escapes-dialect-metacharacters', '%s::%s' % (cls.mod.rel, cls.qual), '%s literals via %s.quote_str' % (d or 'generic', q.cls.name), not missing,
               '' if not missing else 'inline string literals of the %s builder are produced by %s.quote_str, which escapes %s but not %s: a value containing it '
               'changes where the literal ends' % (d, q.cls.name, sorted(escaped), missing), node=q.node)


def _canon(e, var, typ):
    """canonical spelling of a text rendering of `var` (None = not in the recognised vocabulary)"""
    t = norm(e).replace(var, 'v')
    if typ == 'date' and t == 'str(v)': t = 'v.isoformat()'
    if typ == 'datetime' and t == 'str(v)': t = "v.isoformat(' ')"
    known = ('datetime2timestamp(v)', 'v.isoformat()', "v.isoformat(' ')", 'str(v)')
    if t in known or t.startswith('v.strftime('): return t
    return None


def dispatch_rule(ctx, prefix, scope):
    """type dispatch by isinstance chains (Value.__str__, converters' validate / py2sql / sql2py, the builders): a test for a class must not be
    answered already by an earlier test for one of its base classes (datetime after date, bool after int, a repo class after its base) -- the
    branch written for the specific type would be dead and the value rendered / converted as the general one"""
    from ..q import shadowed_isinstance_tests
    repo, cg = ctx.repo, ctx.cg
    nt = 0
    for f in sorted(repo.rule_funcs(), key=lambda f_: f_.full):
        if not any(f.mod.rel.startswith(s_) for s_ in scope): continue
        tests = [c for c in ast.walk(f.node) if isinstance(c, ast.Call) and dotted(c.func) == 'isinstance' and len(c.args) == 2 and isinstance(c.args[0], ast.Name)]
        if len(tests) < 2: continue
        repo.consulted.add(f.mod.name)
        g = cg.cfg(f)
        dead = shadowed_isinstance_tests(repo, f.mod, g, f.node)
        nt += len(tests)
        for t, target, earlier in dead:
            ctx.ob(prefix + '-DISPATCH.specific-type-is-tested-before-its-base', f, t.ast, False,
                   'the branch `%s` can never be taken for a %s: `%s` has answered first (a %s is one of those), so the value is handled as the general type '
                   '-- for SQLite literals: a datetime spelt as a date-like text that no stored value equals' % (norm(t.ast)[:60], target, earlier[:60], target), node=t.ast)
        if not dead:
            ctx.ob(prefix + '-DISPATCH.specific-type-is-tested-before-its-base', f, f.node, True, '')
    ctx.floor(prefix + '-DISPATCH', nt, 40, 'isinstance tests in dispatch chains')


def littwin_rule(ctx):
    repo = ctx.repo
    SQ = 'pony.orm.dbproviders.sqlite'
    f = repo.fn(SQ, 'SQLiteValue.__str__')
    n = 0
    for typ, convname in (('datetime', 'SQLiteDatetimeConverter'), ('date', 'SQLiteDateConverter')):
        branch = [st for st in walk_no_nested(f.node) if isinstance(st, ast.If) and isinstance(st.test, ast.Call) and dotted(st.test.func) == 'isinstance'
                  and len(st.test.args) == 2 and dotted(st.test.args[1]) == 'datetime.' + typ]
        ctx.need(len(branch) == 1, 'C06-LITTWIN: branch for datetime.%s not found in SQLiteValue.__str__' % typ)
        var = norm(branch[0].test.args[0])
        rets = [r for r in ast.walk(branch[0]) if isinstance(r, ast.Return)]
        ctx.need(len(rets) == 1 and isinstance(rets[0].value, ast.Call) and isinstance(rets[0].value.func, ast.Attribute) and rets[0].value.func.attr == 'quote_str'
                 and len(rets[0].value.args) == 1, 'C06-LITTWIN: unexpected shape of the %s branch of SQLiteValue.__str__' % typ)
        lit = _canon(rets[0].value.args[0], var, typ)
        p2 = repo.fn(SQ, convname + '.py2sql')
        prets = [r for r in walk_no_nested(p2.node) if isinstance(r, ast.Return)]
        ctx.need(len(prets) == 1, 'C06-LITTWIN: %s.py2sql has %d returns' % (convname, len(prets)))
        par = _canon(prets[0].value, p2.params[1], typ)
        ctx.need(lit is not None and par is not None, 'C06-LITTWIN: rendering of %s not in the recognised vocabulary: literal `%s`, parameter `%s`'
                 % (typ, norm(rets[0].value.args[0]), norm(prets[0].value)))
        n += 1
        ok = lit == par
        ctx.ob('C06-LITTWIN.inline-literal-spelt-like-the-bound-parameter', f, rets[0].value, ok,
               '' if ok else 'a %s written inline is rendered as %s, the same value bound as a parameter (and stored) as %s: SQLite compares them as text, so '
               '`attr == <literal>` misses the row that `attr == <parameter>` finds' % (typ, lit, par), node=rets[0], expected=par)
    ctx.floor('C06-LITTWIN', n, 2, 'text-compared types')
    # intervals are stored as a number of days (REAL); the inline literal and the bound parameter are two renderings of the same timedelta and each
    # must take all of it: days, seconds and microseconds (or total_seconds()).  A rendering that leaves a component out denotes another value.
    FIELDS = {'days', 'seconds', 'microseconds'}
    def td_fields(root, var):
        got = set()
        for x in ast.walk(root):
            if isinstance(x, ast.Attribute) and dotted(x.value) == var and x.attr in FIELDS: got.add(x.attr)
            if isinstance(x, ast.Call) and isinstance(x.func, ast.Attribute) and x.func.attr == 'total_seconds' and dotted(x.func.value) == var: got |= FIELDS
            if isinstance(x, ast.Name) and x.id == var and isinstance(x.ctx, ast.Load):
                pass
        # the whole value handed on (str(value), repr(value), value / other) keeps everything
        for x in ast.walk(root):
            if isinstance(x, ast.BinOp) and (dotted(x.left) == var or dotted(x.right) == var): got |= FIELDS
            if isinstance(x, ast.Call) and any(dotted(a) == var for a in x.args) and dotted(x.func) not in ('isinstance', 'type'): got |= FIELDS
        return got
    tb = [st for st in walk_no_nested(f.node) if isinstance(st, ast.If) and isinstance(st.test, ast.Call) and dotted(st.test.func) == 'isinstance'
          and len(st.test.args) == 2 and dotted(st.test.args[1]) == 'datetime.timedelta']
    ctx.need(len(tb) == 1, 'C06-LITTWIN: branch for datetime.timedelta not found in SQLiteValue.__str__')
    var = norm(tb[0].test.args[0])
    holder = ast.Module(body=tb[0].body, type_ignores=[])
    miss = sorted(FIELDS - td_fields(holder, var))
    ctx.ob('C06-LITTWIN.interval-literal-takes-the-whole-timedelta', f, tb[0], not miss,
           '' if not miss else 'an inline timedelta is rendered without its %s: the literal denotes a different interval than the value (and than the same value bound as a parameter)' % ', '.join(miss),
           node=tb[0])
    p2 = repo.fn(SQ, 'SQLiteTimedeltaConverter.py2sql')
    miss = sorted(FIELDS - td_fields(p2.node, p2.params[1]))
    ctx.ob('C06-LITTWIN.interval-parameter-takes-the-whole-timedelta', p2, p2.node, not miss,
           '' if not miss else 'a timedelta bound as a parameter is converted without its %s' % ', '.join(miss))


def bodies(node):
    for fld in ('body', 'orelse', 'finalbody'):
        b = getattr(node, fld, None)
        if isinstance(b, list) and b and isinstance(b[0], ast.stmt):
            yield b
            for s in b:
                if isinstance(s, (ast.FunctionDef, ast.AsyncFunctionDef, ast.ClassDef)): continue
                yield from bodies(s)
    for h in getattr(node, 'handlers', []) or []: yield from bodies(h)


QUOTERS = ('quote_name', 'compound_name', 'format_table_name', 'column_list')


def ident_rule(ctx):
    repo, cg = ctx.repo, ctx.cg
    qn = repo.fn('pony.orm.dbapiprovider', 'DBAPIProvider.quote_name')
    # every return of quote_name is assembled only from the quote character and from *doubled* text: a local is "doubled" when it was bound to
    # <name-or-doubled>.replace(quote_char, quote_char + quote_char); a qualified name is handled by recursive quote_name calls on its items
    g = cg.cfg(qn); pname = qn.params[1]
    from ..q import resolve_names, reaching_defs, value_of_def
    qc_names = {'quote_char'} | {t.id for st in walk_no_nested(qn.node) if isinstance(st, ast.Assign) and isinstance(st.value, ast.Attribute) and st.value.attr == 'quote_char'
                                 for t in st.targets if isinstance(t, ast.Name)}
    def is_qc(e): return isinstance(e, ast.Name) and e.id in qc_names or isinstance(e, ast.Attribute) and e.attr == 'quote_char'
    def is_twice(e):
        e = resolve_names(qn.node, e)
        return isinstance(e, ast.BinOp) and (isinstance(e.op, ast.Add) and is_qc(e.left) and is_qc(e.right) or isinstance(e.op, ast.Mult) and (
            is_qc(e.left) and isinstance(e.right, ast.Constant) and e.right.value == 2 or is_qc(e.right) and isinstance(e.left, ast.Constant) and e.left.value == 2))
    def is_doubling(v):
        return isinstance(v, ast.Call) and isinstance(v.func, ast.Attribute) and v.func.attr == 'replace' and len(v.args) == 2 and is_qc(v.args[0]) and is_twice(v.args[1])
    ok = any(is_doubling(c) for c in ast.walk(qn.node))
    ctx.ob('C06-IDENT.quote_name-doubles-the-quote-character', qn, qn.node, ok, '' if ok else 'quote_name no longer doubles the quote character inside identifiers')
    rets = [x for x in g.nodes if x.kind == 'stmt' and isinstance(x.ast, ast.Return) and x.ast.value is not None]
    ctx.floor('C06-IDENT', len(rets), 2, 'returns of quote_name')
    for r in rets:
        why = ['']
        def safe(e, at, depth=0):
            """the text `e` is the quote character, doubled text, or built from those; `at` = CFG node where it is evaluated"""
            if isinstance(e, ast.Constant) and isinstance(e.value, str): return True
            if is_qc(e): return True
            if isinstance(e, ast.BinOp) and isinstance(e.op, ast.Add): return safe(e.left, at, depth) and safe(e.right, at, depth)
            if isinstance(e, ast.BinOp) and isinstance(e.op, ast.Mod) and isinstance(e.left, ast.Constant):
                return all(safe(x, at, depth) for x in (e.right.elts if isinstance(e.right, ast.Tuple) else [e.right]))
            if is_doubling(e): return True                  # <anything>.replace(q, q+q): whatever the receiver held, the result has every quote character doubled
            if isinstance(e, ast.Call) and isinstance(e.func, ast.Attribute) and e.func.attr == 'join' and len(e.args) == 1 and isinstance(e.args[0], (ast.GeneratorExp, ast.ListComp)):
                ge = e.args[0]
                cv = {gn.target.id for gn in ge.generators if isinstance(gn.target, ast.Name)}
                it_ok = all(isinstance(gn.iter, ast.Name) and gn.iter.id == pname for gn in ge.generators)
                el = ge.elt
                rec = isinstance(el, ast.Call) and isinstance(el.func, ast.Attribute) and el.func.attr == 'quote_name' and len(el.args) == 1 and isinstance(el.args[0], ast.Name) and el.args[0].id in cv
                if not (it_ok and rec): why[0] = 'a qualified name whose items are not quoted by a recursive call'
                return it_ok and rec and safe(e.func.value, at, depth)
            if isinstance(e, ast.Name) and depth < 4:
                ds = reaching_defs(g, at, e.id, with_params=True)
                if not ds or any(d is g.entry for d in ds):
                    why[0] = 'the raw name' if e.id == pname else '`%s`, which is not doubled on every path' % e.id
                    return False
                for d in ds:
                    v = value_of_def(d, e.id)
                    if v is None or not safe(v, d, depth + 1):
                        why[0] = why[0] or '`%s`, which is not doubled on every path' % e.id
                        if e.id != pname or 'raw' not in why[0]: why[0] = '`%s`, which is not doubled on every path' % e.id
                        return False
                return True
            why[0] = why[0] or '`%s`' % norm(e)[:40]
            return False
        okr = safe(r.ast.value, r)
        ctx.ob('C06-IDENT.quote_name-doubles-on-every-path', qn, r.ast, okr,
               '' if okr else 'this return of quote_name emits %s: a name (or a part of a qualified name) containing the quote character closes the identifier early and changes '
               'the statement' % why[0], node=r.ast)
    n = 0
    for cls in repo.subclasses(repo.cls(SB, 'SQLBuilder')):
        for name, f in cls.methods.items():
            srcs = [p for p in f.params[1:] if p in IDENT_PARAMS]
            unpack = [t for s in walk_no_nested(f.node) if isinstance(s, ast.Assign) for t in s.targets if isinstance(t, ast.Tuple)
                      and any(isinstance(e, ast.Name) and e.id == 'alias' for e in t.elts)]
            loops = [s for s in walk_no_nested(f.node) if isinstance(s, ast.For) and dotted(s.iter) in ('columns',)]
            comps = [c for x in walk_no_nested(f.node) if isinstance(x, (ast.ListComp, ast.GeneratorExp)) for c in x.generators if dotted(c.iter) in ('columns',)]
            if not (srcs or unpack or loops or comps): continue
            n += 1
            bad = unquoted_uses(cg, f, set(srcs), bool(unpack))
            ctx.ob('C06-IDENT.identifier-emitted-only-through-quote_name', f, bad[0] if bad else f.node, not bad,
                   '' if not bad else 'identifier `%s` is used as statement text without quote_name(): a name containing the quote character, a space or a '
                   'keyword changes the structure of the statement' % norm(bad[0]), node=bad[0] if bad else None)
    ctx.floor('C06-IDENT', n, 9, 'builder methods that receive identifiers')
    # dbschema DDL text
    ds = repo.mod('pony.orm.dbschema')
    m = 0
    for f in [x for x in repo.rule_funcs() if x.mod is ds and x.name in ('get_sql', 'get_create_command', '_get_create_sql', 'column_list', 'names_row')]:
        pm = parents(f.node)
        for a in [x for x in walk_no_nested(f.node) if isinstance(x, ast.Attribute) and x.attr == 'name' and isinstance(x.ctx, ast.Load)]:
            m += 1
            ok = False; p = a
            while p in pm:
                p = pm[p]
                if isinstance(p, ast.Call) and (dotted(p.func) or '').split('.')[-1] in QUOTERS: ok = True; break
                if isinstance(p, (ast.Assert, ast.Lambda, ast.Compare)) or isinstance(p, ast.Call) and dotted(p.func) in ('throw', 'sorted', 'split'): ok = True; break
                if isinstance(p, (ast.If, ast.IfExp)) and any(y is a for y in ast.walk(p.test)): ok = True; break
            ctx.ob('C06-IDENT.ddl-name-is-quoted', f, a, ok, '' if ok else '`%s` is placed into DDL text without quote_name()' % norm(a), node=a, nontrivial=not ok or m % 4 == 0)
    ctx.floor('C06-IDENT', m, 10, '.name uses in DDL text functions')


def unquoted_uses(cg, f, srcs, track_alias):
    """forward dataflow of 'raw identifier' names; returns Load uses of a raw name outside quoting calls and tests"""
    g = cg.cfg(f)
    pm = parents(f.node)
    def sanitized_expr(e):
        return isinstance(e, ast.Call) and (dotted(e.func) or '').split('.')[-1] in QUOTERS or isinstance(e, ast.Constant) and e.value is None
    def transfer(n, state, lab):
        st = set(state)
        if n.kind == 'test' and lab in ('T', 'F'):
            t = norm(n.ast)
            for v in list(st):
                if (t == '%s is not None' % v and lab == 'F') or (t == '%s is None' % v and lab == 'T') or (t == 'not %s' % v and lab == 'T'): st.discard(v)
            return frozenset(st)
        a = n.ast
        if n.kind == 'stmt' and isinstance(a, ast.Assign) and lab != 'exc':
            for t in a.targets:
                if isinstance(t, ast.Name):
                    if sanitized_expr(a.value) or is_builder_call(a.value, f): st.discard(t.id)
                    elif any(isinstance(x, ast.Name) and x.id in st and not under_quoter(x, pm) for x in ast.walk(a.value)): st.add(t.id)
                    elif t.id in st: st.discard(t.id)
                elif isinstance(t, ast.Tuple) and track_alias:
                    for e in t.elts:
                        if isinstance(e, ast.Name) and e.id == 'alias': st.add('alias')
        if n.kind == 'iter' and lab == 'loop' and dotted(a.iter) == 'columns':
            for x in ast.walk(a.target):
                if isinstance(x, ast.Name): st.add(x.id)
        return frozenset(st)
    IN = g.forward(srcs, transfer)
    bad = []
    for n in g.nodes:
        if n.ast is None or n.id not in IN: continue
        raw = set(IN[n.id])
        # comprehension variables over `columns`
        for x in n.walk():
            if isinstance(x, (ast.ListComp, ast.GeneratorExp)):
                for c in x.generators:
                    if dotted(c.iter) == 'columns':
                        for y in ast.walk(c.target):
                            if isinstance(y, ast.Name): raw.add(y.id)
        for x in n.walk():
            if isinstance(x, ast.Name) and isinstance(x.ctx, ast.Load) and x.id in raw:
                if under_quoter(x, pm) or in_test_context(x, pm, n) or delegated(x, pm, f): continue
                # plain re-binding `a = b` is handled by the dataflow, not a use
                p = pm.get(x)
                if isinstance(p, ast.Assign) and p.value is x: continue
                if isinstance(p, ast.comprehension): continue
                if isinstance(p, ast.For) and p.iter is x: continue
                bad.append(x)
    return bad


def is_builder_call(e, f):
    """result of another builder method: already statement text"""
    return isinstance(e, ast.Call) and isinstance(e.func, ast.Attribute) and (e.func.attr.isupper() or e.func.attr == f.name) \
        and dotted(e.func.value) in (f.params[0], 'SQLBuilder')


def under_quoter(x, pm):
    p = x
    while p in pm:
        p = pm[p]
        if isinstance(p, ast.Call) and (dotted(p.func) or '').split('.')[-1] in QUOTERS: return True
        if isinstance(p, ast.stmt): return False
    return False


def in_test_context(x, pm, n):
    if n.kind == 'test': return True
    p = x
    while p in pm:
        q = pm[p]
        if isinstance(q, (ast.Compare, ast.Assert)): return True
        if isinstance(q, ast.IfExp) and q.test is p: return True
        if isinstance(q, ast.BoolOp) and isinstance(pm.get(q), (ast.If, ast.IfExp)): return True
        if isinstance(q, ast.Call) and dotted(q.func) in ('isinstance', 'throw', 'len'): return True
        if isinstance(q, ast.stmt): return False
        p = q
    return False


def delegated(x, pm, f):
    """passed on to the same-named method of a base builder, or to another builder method as its identifier argument"""
    p = pm.get(x)
    if isinstance(p, ast.Call) and isinstance(p.func, ast.Attribute):
        if p.func.attr == f.name: return True
        if p.func.attr.isupper() and dotted(p.func.value) in (f.params[0], 'SQLBuilder'): return True
    return False


MUTANTS = [
    dict(id='C06-disp1', file='pony/orm/dbproviders/sqlite.py', fn='SQLiteValue.__str__', old="        if isinstance(value, datetime.datetime):\n            return self.quote_str(datetime2timestamp(value))\n        if isinstance(value, datetime.date):\n            return self.quote_str(str(value))\n",
         new="        if isinstance(value, datetime.date):\n            return self.quote_str(str(value))\n        if isinstance(value, datetime.datetime):\n            return self.quote_str(datetime2timestamp(value))\n", expect='C06-DISPATCH'),
    dict(id='C06-disp2', file='pony/orm/sqlbuilding.py', fn='Value.__str__', old="        if isinstance(value, bool):\n            return value and '1' or '0'\n        if isinstance(value, str):\n            return self.quote_str(value)\n",
         new="        if isinstance(value, str):\n            return self.quote_str(value)\n        if isinstance(value, (int, float, Decimal)):\n            return str(value)\n        if isinstance(value, bool):\n            return value and '1' or '0'\n", expect='C06-DISPATCH'),
    dict(id='C06-disp3', file='pony/orm/sqlbuilding.py', fn='Value.__str__', old="        if isinstance(value, bool):\n            return value and '1' or '0'\n        if isinstance(value, str):\n            return self.quote_str(value)\n",
         new="        if isinstance(value, str):\n            return self.quote_str(value)\n        if isinstance(value, bool):\n            return value and '1' or '0'\n", benign=True),
    dict(id='C06-td', file='pony/orm/dbproviders/sqlite.py', fn='SQLiteTimedeltaConverter.py2sql', old="        return val.days + (val.seconds + val.microseconds / 1000000.0) / 86400.0", new="        return val.days + val.seconds / 86400.0", expect='C06-LITTWIN.interval-parameter'),
    dict(id='C06-q1', file='pony/orm/dbapiprovider.py', fn='DBAPIProvider.quote_name', old="            return quote_char + name + quote_char\n        return '.'.join(provider.quote_name(item) for item in name)", new="        else:\n            name = (quote_char + '.' + quote_char).join(name)\n        return quote_char + name + quote_char", expect='C06-IDENT.quote_name-doubles-on-every-path'),
    dict(id='C06-lt1', file='pony/orm/dbproviders/sqlite.py', fn='SQLiteValue.__str__', old="return self.quote_str(datetime2timestamp(value))", new="return self.quote_str(value.isoformat(' '))", expect='C06-LITTWIN'),
    dict(id='C06-lt2', file='pony/orm/dbproviders/sqlite.py', fn='SQLiteValue.__str__', old="return self.quote_str(str(value))", new="return self.quote_str(value.isoformat())", benign=True),
    dict(id='C06-m1', file='pony/orm/sqltranslation.py', fn='StringMixin._like',
         old="            if '%' in value or '_' in value:\n                escape = True\n                value = value.replace('!', '!!').replace('%', '!%').replace('_', '!_')",
         new="            escape = '%' in value or '_' in value\n            value = value.replace('!', '!!').replace('%', '!%').replace('_', '!_')", expect='C06-LIKE.escaping-applied'),
    dict(id='C06-m2', file='pony/orm/sqltranslation.py', fn='StringMixin._like', old="value.replace('!', '!!').replace('%', '!%').replace('_', '!_')", new="value.replace('%', '!%').replace('_', '!_').replace('!', '!!')", expect='C06-LIKE.constant'),
    dict(id='C06-m3', file='pony/orm/sqlbuilding.py', fn='Value.quote_str', old="        if self.paramstyle in ('format', 'pyformat'): s = s.replace('%', '%%')\n", new='', expect='C06-PERCENT'),
    dict(id='C06-m4', file='pony/orm/sqlbuilding.py', fn='SQLBuilder.__init__', old="        elif paramstyle in ('named', 'pyformat'):", new="        elif paramstyle in ('named',):", expect='C06-STYLES'),
    dict(id='C06-m5', file='pony/orm/sqlbuilding.py', fn='SQLBuilder.COLUMN', old="            return [ '%s' % builder.quote_name(col_name) ]", new="            return [ '%s' % col_name ]", expect='C06-IDENT.identifier'),
    dict(id='C06-m6', file='pony/orm/sqlbuilding.py', fn='SQLBuilder.INSERT', old="join(', ', [builder.quote_name(column) for column in columns ])", new="join(', ', [column for column in columns ])", expect='C06-IDENT.identifier'),
    dict(id='C06-m7', file='pony/orm/dbapiprovider.py', fn='DBAPIProvider.quote_name', old="            name = name.replace(quote_char, quote_char+quote_char)\n", new='', expect='C06-IDENT.quote_name'),
    dict(id='C06-m8', file='pony/orm/dbschema.py', fn='Column.get_sql', old='        append(quote_name(column.name))', new='        append(column.name)', expect='C06-IDENT.ddl'),
    dict(id='C06-m9', file='pony/orm/sqlbuilding.py', fn='SQLBuilder.LIKE', old="        result = builder(expr), ' LIKE ', builder(template)\n        if escape: result = result + (' ESCAPE ', builder(escape))\n", new="        result = builder(expr), ' LIKE ', builder(template)\n", expect='C06-LIKE.builder'),
    dict(id='C06-m10', file='pony/orm/sqlbuilding.py', fn='SQLBuilder.sql_join', old="            elif alias is not None: alias = builder.quote_name(alias)", new="            elif alias is not None: alias = alias.lower()", expect='C06-IDENT.identifier'),
]
