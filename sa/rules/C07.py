"""C07  Stored attribute values read back unchanged for every type."""
import ast, importlib, sys
from ..loader import dotted, walk_no_nested, norm, head, calls_in
from ..q import nodes_calling

EXPLANATION = """
Static clauses decided (necessary conditions of C07):
 MOD     resolved-name existence: an attribute access `M.name` where M is bound (by this module's imports) to a standard
         library module must exist in that module (checked against the running CPython).  Inside the converters'
         `try: ... except: return val` blocks a misspelt access (strptime on the datetime *module*) raises AttributeError that
         is swallowed, and the raw database value is returned instead of the converted one.
 TWIN    a lossy normalisation applied on the way to the database (quantize to the declared scale, rounding of
         microseconds) is also applied by `validate` of the same converter hierarchy, so the value the session keeps after a
         flush is the value a fresh session reads.
 LEX     text written for the database is produced with isoformat()/explicit formatting, not with strftime('%Y...'): %Y is
         not zero-padded for years below 1000 on glibc, and the readers (strptime / positional slicing) need four digits.
 NULLMAP only a missing value reads back as None: in the readers (sql2py / dbval2val of every converter) a `return None` is never
         decided by the *truthiness* of a decoded value (a variable assigned from json.loads(...), a conversion call, ...): an
         empty array, empty dict, 0 or '' that was stored would come back as None.  Truthiness of the raw database value and
         explicit `is None` tests are the accepted forms.
 WRITE   every changed value is written: in Entity._save_updated_ each iteration of the loop over the attributes whose write
         bit is set adds the attribute's columns to the UPDATE and its value to the arguments (no iteration is skipped), and the
         write path (_save_, _save_created_, _save_updated_, _update_dbvals_) never consults the converters' tolerant
         comparison dbvals_equal, which exists to compare what the *database returned* with what the session remembers; in
         Entity._save_created_ every attribute that has a value contributes to the INSERT.
 PARAM   a write-side conversion (py2sql / val2dbval) does not consult an option that only init(kwargs) sets (precision, ...): a converter
         created for a query parameter never ran init, so the same value would be spelt differently as a parameter and as a stored value.
 DISPATCH as C06-DISPATCH, over the converter modules.
"""
# for Json / array attributes "the value the program saw after the flush" includes its in-place changes: that they are tracked and written (C28) is a
# necessary condition of C07 for those attribute types
INCLUDES = ('C28',)

NOT_DECIDED = "value-level round trips per backend and type (needs execution against each engine)"

SCOPE = ('pony/orm/dbapiprovider.py', 'pony/orm/dbproviders/', 'pony/converting.py', 'pony/utils/utils.py')
LOSSY = ('quantize', 'round_microseconds_to_precision')
WRITE_SIDE = ('py2sql', 'val2dbval')
WRITE_HELPERS = ('datetime2timestamp',)
UTILS_FUNCS = ('datetime2timestamp', 'timestamp2datetime', 'str2date', 'str2time', 'str2datetime', 'str2timedelta', 'timedelta2str')


def stdlib_module(name):
    top = name.split('.')[0]
    return top in sys.stdlib_module_names


def run(ctx):
    repo, cg = ctx.repo, ctx.cg
    mods = [m for m in repo.rule_modules() if any(m.rel.startswith(s) for s in SCOPE)]
    from .C06 import dispatch_rule
    dispatch_rule(ctx, 'C07', ('pony/orm/dbapiprovider.py', 'pony/orm/dbproviders/', 'pony/converting.py', 'pony/orm/ormtypes.py'))
    # ---------------------------------------------------------------- MOD
    n = 0
    for m in mods:
        repo.consulted.add(m.name)
        bound = {local: imp[1] for local, imp in m.imports.items() if imp[0] == 'module' and imp[1] not in repo.modules and stdlib_module(imp[1])}
        if not bound: continue
        # names rebound anywhere in the module (assignment / def / class / parameter) shadow the import in that scope
        for fn in [f for f in repo.rule_funcs() if f.mod is m] + [None]:
            if m.rel == 'pony/utils/utils.py' and (fn is None or fn.qual.split('.')[0] not in UTILS_FUNCS): continue   # only the conversion helpers of utils
            node = fn.node if fn is not None else m.tree
            shadow = set()
            if fn is not None:
                f2 = fn
                while f2 is not None:
                    shadow |= set(f2.params) | set(f2.kwonly) | {x for x in (f2.vararg, f2.kwarg) if x}
                    shadow |= {t.id for s in walk_no_nested(f2.node) for t in ast.walk(s) if isinstance(t, ast.Name) and isinstance(t.ctx, ast.Store)}
                    f2 = f2.parent
            it = walk_no_nested(node) if fn is not None else (x for st in m.tree.body if not isinstance(st, (ast.FunctionDef, ast.ClassDef)) for x in ast.walk(st))
            for x in it:
                if isinstance(x, ast.Attribute) and isinstance(x.value, ast.Name) and x.value.id in bound and x.value.id not in shadow and isinstance(x.ctx, ast.Load):
                    modname = bound[x.value.id]
                    # `from datetime import datetime` later in the module rebinds the name: resolve_name gives the effective binding
                    if m.imports.get(x.value.id, (None,))[0] != 'module': continue
                    try: pymod = importlib.import_module(modname)
                    except Exception: continue
                    n += 1
                    ok = hasattr(pymod, x.attr)
                    where = fn if fn is not None else '%s::<module>' % m.rel
                    ctx.ob('C07-MOD.attribute-exists-in-stdlib-module', where, x, ok,
                           '' if ok else '`%s.%s`: `%s` is the standard module %s here, which has no attribute %r (AttributeError at run time; inside a '
                           'bare `except: return val` the raw database value is returned unconverted)' % (x.value.id, x.attr, x.value.id, modname, x.attr), node=x,
                           nontrivial=not ok or x.attr in ('strptime', 'strftime', 'timedelta', 'date', 'time', 'datetime'))
    ctx.floor('C07-MOD', n, 20, 'stdlib module attribute accesses in conversion code')
    # ---------------------------------------------------------------- TWIN / PAIR
    conv = repo.cls('pony.orm.dbapiprovider', 'Converter')
    for c in repo.subclasses(conv):
        for w in WRITE_SIDE:
            f = repo.lookup(c, w)
            if f is None or w not in c.methods and f.cls is not c: pass
            f = c.methods.get(w)
            if f is None: continue
            ops = {k.func.attr for k in calls_in(f.node) if isinstance(k.func, ast.Attribute) and k.func.attr in LOSSY}
            for op in sorted(ops):
                v = repo.lookup(c, 'validate')
                vops = set()
                k2 = v
                seen = set()
                while k2 is not None and k2.full not in seen:
                    seen.add(k2.full)
                    vops |= {k.func.attr for k in calls_in(k2.node) if isinstance(k.func, ast.Attribute)}
                    # follow explicit delegation to a base validate
                    nxt = None
                    for k in calls_in(k2.node):
                        if isinstance(k.func, ast.Attribute) and k.func.attr == 'validate' and isinstance(k.func.value, (ast.Name, ast.Attribute)):
                            r = repo.resolve_name(k2.mod, dotted(k.func.value).split('.')[-1]) if dotted(k.func.value) else None
                            if r and r[0] == 'class': nxt = repo.lookup(r[1], 'validate')
                    k2 = nxt
                ok = op in vops
                ctx.ob('C07-TWIN.lossy-write-normalisation-also-in-validate', f, '%s.%s uses %s' % (c.name, w, op), ok,
                       '' if ok else '%s.%s applies %s() before writing, but validate() of %s does not: after a flush the session keeps the '
                       'un-normalised value while the database (and every fresh session) has the normalised one' % (c.name, w, op, c.name), node=f.node)
    # ---------------------------------------------------------------- LEX
    nlex = 0
    targets = [f for f in repo.rule_funcs() if f.mod in mods and (f.name in WRITE_SIDE and f.cls is not None or f.name in WRITE_HELPERS)]
    ctx.floor('C07-LEX', len(targets), 15, 'write-side conversion functions')
    for f in targets:
        bad = [k for k in calls_in(f.node) if isinstance(k.func, ast.Attribute) and k.func.attr == 'strftime' and k.args
               and isinstance(k.args[0], ast.Constant) and isinstance(k.args[0].value, str) and '%Y' in k.args[0].value]
        nlex += 1
        ctx.ob('C07-LEX.no-strftime-year-on-write-side', f, bad[0] if bad else f.node, not bad,
               '' if not bad else '`%s` formats the year with %%Y: glibc does not zero-pad years below 1000, the stored text is then not parsed back by the '
               'reader (the value comes back as str) and sorts wrongly as text' % norm(bad[0]), node=bad[0] if bad else None, expected='isoformat()', nontrivial=bool(bad))

    # ---------------------------------------------------------------- PARAM
    # "parameters use the same conversion as stored values": a converter made for a query parameter (get_converter_by_py_type: no attribute) never
    # ran init(kwargs), so every option that init() sets (precision, exp, ...) is None / absent for it.  A write-side conversion that consults such
    # an option spells the same value differently for a parameter and for a stored attribute.
    PARAM_EXCEPTIONS = {('SQLiteDecimalConverter', 'exp'): 'quantize() only changes the number of trailing zeros; the column has NUMERIC affinity, SQLite compares the numbers, not their text'}
    npar = 0
    for f in targets:
        if f.cls is None: continue
        fields = set()
        for c in repo.mro(f.cls):
            m = c.methods.get('init')
            if m is not None:
                for s_ in ast.walk(m.node):
                    if isinstance(s_, ast.Assign):
                        fields |= {t.attr for t in s_.targets if isinstance(t, ast.Attribute) and dotted(t.value) == m.recv}
        npar += 1
        reads = sorted({a.attr for a in ast.walk(f.node) if isinstance(a, ast.Attribute) and dotted(a.value) == f.recv and a.attr in fields})
        bad = []
        for r_ in reads:
            if (f.cls.name, r_) in PARAM_EXCEPTIONS: ctx.exception('C07-PARAM', '%s.%s' % (f.cls.name, r_), PARAM_EXCEPTIONS[(f.cls.name, r_)])
            else: bad.append(r_)
        ctx.ob('C07-PARAM.write-side-conversion-ignores-per-attribute-options', f, f.node, not bad,
               '' if not bad else '%s.%s consults %s, an option that only a converter created for an attribute has (init() sets it; for a query parameter it is None): the same '
               'value is written differently as a parameter and as a stored attribute, so `attr == parameter` misses the row that holds the value'
               % (f.cls.name, f.name, ', '.join('converter.' + b for b in bad)))
    ctx.floor('C07-PARAM', npar, 12, 'write-side conversion methods')
    # ---------------------------------------------------------------- NULLMAP
    nnm = 0
    for f in repo.rule_funcs():
        if f.mod not in mods or f.cls is None or f.name not in ('sql2py', 'dbval2val') or len(f.params) < 2: continue
        nnm += 1
        raw = f.params[1]
        decoded = {t.id for st in walk_no_nested(f.node) if isinstance(st, ast.Assign) and isinstance(st.value, ast.Call) for t in st.targets if isinstance(t, ast.Name) and t.id != raw}
        bad = []
        for t in [x for x in walk_no_nested(f.node) if isinstance(x, ast.If)]:
            rn = [r for b in t.body for r in ast.walk(b) if isinstance(r, ast.Return) and (r.value is None or (isinstance(r.value, ast.Constant) and r.value.value is None))]
            if not rn: continue
            # names tested by truthiness (bare name, `not name`, operands of and/or) -- not inside comparisons or calls
            def truth_names(e):
                if isinstance(e, ast.Name): return {e.id}
                if isinstance(e, ast.UnaryOp) and isinstance(e.op, ast.Not): return truth_names(e.operand)
                if isinstance(e, ast.BoolOp): return set().union(*[truth_names(v) for v in e.values])
                return set()
            hit = truth_names(t.test) & decoded
            if hit: bad.append((t, sorted(hit)))
        ctx.ob('C07-NULLMAP.only-null-reads-back-as-none', f, bad[0][0].test if bad else f.node, not bad,
               '' if not bad else '%s.%s returns None when the decoded value `%s` is falsy: an empty array / empty document / zero that was stored reads back as None in a '
               'fresh session' % (f.cls.name, f.name, bad[0][1][0]), node=bad[0][0] if bad else None, expected='test `is None` (or the raw database value), not the truthiness of the decoded value',
               nontrivial=bool(bad))
    ctx.floor('C07-NULLMAP', nnm, 15, 'reader functions (sql2py / dbval2val)')
    # ---------------------------------------------------------------- WRITE
    su = repo.fn('pony.orm.core', 'Entity._save_updated_')
    g = ctx.cg.cfg(su)
    loops = [x for x in g.nodes if x.kind == 'iter' and '_wbits_' in norm(x.ast.iter) and any('_vals_' in norm(b) for b in x.ast.body)]   # the value-collecting loop
    ctx.need(bool(loops), 'C07-WRITE: loop over the attributes with write bits not found in Entity._save_updated_')
    for L in loops:
        tv = norm(L.ast.target)
        ext = nodes_calling(g, lambda c: isinstance(c.func, ast.Attribute) and c.func.attr == 'extend' and dotted(c.func.value) == 'update_columns'
                            and c.args and norm(c.args[0]) == tv + '.columns')
        vals = nodes_calling(g, lambda c: isinstance(c.func, ast.Attribute) and c.func.attr in ('extend', 'append') and dotted(c.func.value) == 'values')
        body_first = [y for y, lab in g.succ[L.id] if lab in ('body', 'T', 'iter')] or [y for y, lab in g.succ[L.id]][:1]
        def every_iteration(guards):
            r = g.reach([n_.id for n_ in L.ast.body and [x for x in g.nodes if x.stmt is L.ast.body[0]][:1]], avoid=guards)
            return L.id not in r
        ok1 = bool(ext) and every_iteration(ext); ok2 = bool(vals) and every_iteration(vals)
        ctx.ob('C07-WRITE.every-written-attribute-is-in-the-update', su, L.ast.iter, ok1 and ok2,
               '' if ok1 and ok2 else 'an iteration of the loop over the attributes with pending writes can finish without adding %s: the new value of that '
               'attribute stays in the session but is never sent to the database' % ('its columns to update_columns' if not ok1 else 'its value to the arguments'), node=L.ast)
        clr = [x for x in g.nodes if x.kind == 'stmt' and isinstance(x.ast, ast.AugAssign) and dotted(x.ast.target) and dotted(x.ast.target).endswith('._wbits_')
               and any(x.stmt is b or x.ast in ast.walk(b) for b in L.ast.body)]
        ctx.ob('C07-WRITE.write-bits-not-cleared-while-collecting', su, clr[0].ast if clr else L.ast.iter, not clr,
               '' if not clr else 'write bits are cleared inside the loop that collects the columns to update', node=clr[0].ast if clr else L.ast)
    nw = 0
    for q in ('Entity._save_', 'Entity._save_created_', 'Entity._save_updated_', 'Entity._save_deleted_', 'Entity._update_dbvals_', 'Entity._save_principal_objects_'):
        f = repo.fn('pony.orm.core', q); nw += 1
        bad = [c for c in calls_in(f.node) if isinstance(c.func, ast.Attribute) and c.func.attr == 'dbvals_equal']
        ctx.ob('C07-WRITE.no-tolerant-comparison-on-the-write-path', f, bad[0] if bad else f.node, not bad,
               '' if not bad else '`%s` decides what to write with the tolerant comparison (floats within 1e-14 relative, ...): a small change of a value is '
               'treated as no change and never stored' % norm(bad[0]), node=bad[0] if bad else None, nontrivial=bool(bad))
    ctx.floor('C07-WRITE', nw, 6, 'write-path functions')
    # ---------------------------------------------------------------- DECFLOAT
    # SQLite (NUMERIC affinity) hands short decimals back as REAL.  Decimal(<float>) is the exact binary expansion of the float
    # (Decimal(0.1) = 0.1000000000000000055...), Decimal(str(<float>)) its shortest decimal form: on the read side the raw database value
    # must reach Decimal() through str()/repr(), whatever the scale (quantize only hides the noise below ~17 significant digits)
    DC = repo.cls('pony.orm.dbapiprovider', 'DecimalConverter')
    ndec = 0
    for cls in repo.subclasses(DC):
        f = cls.methods.get('sql2py')
        if f is None or len(f.params) < 2: continue
        if cls.mod.name != 'pony.orm.dbproviders.sqlite': continue      # PostgreSQL/MySQL/Oracle drivers deliver DECIMAL columns as Decimal or text, never as float
        raw = f.params[1]
        from ..q import alias_map, deref
        am = alias_map(f.node)
        for c in calls_in(f.node):
            if dotted(c.func) == 'Decimal' and c.args:
                ndec += 1
                a = c.args[0]
                direct = isinstance(a, ast.Name) and (a.id == raw or deref(f.node, a, am) == raw)
                ok = not direct
                ctx.ob('C07-DECFLOAT.database-real-reaches-Decimal-through-its-text', f, c, ok,
                       '' if ok else '%s.sql2py builds Decimal(%s) from the raw database value: a REAL such as 0.1 becomes 0.1000000000000000055..., which quantize() '
                       'does not remove for scales above ~16 digits' % (cls.name, norm(a)), node=c, expected='Decimal(str(val))')
    ctx.floor('C07-DECFLOAT', ndec, 1, 'Decimal() constructions in read-side decimal converters')


MUTANTS = [
    dict(id='C07-param1', file='pony/orm/dbproviders/sqlite.py', fn='SQLiteTimeConverter.py2sql', old="        return val.isoformat()", new="        return val.isoformat(timespec='auto' if converter.precision else 'seconds')", expect='C07-PARAM'),
    dict(id='C07-dec1', file='pony/orm/dbproviders/sqlite.py', fn='SQLiteDecimalConverter.sql2py', old="        try: val = Decimal(str(val))", new="        try: val = Decimal(val)", expect='C07-DECFLOAT'),
    dict(id='C07-dec2', file='pony/orm/dbproviders/sqlite.py', fn='SQLiteDecimalConverter.sql2py', old="        try: val = Decimal(str(val))", new="        try: val = Decimal(repr(val))", expect='C07-DECFLOAT', benign=True),
    dict(id='C07-n1', file='pony/orm/dbproviders/sqlite.py', fn='SQLiteArrayConverter.dbval2val', old="        if obj is None:\n            return items\n", new="        if obj is None:\n            return items\n        if not items and converter.attr.nullable:\n            return None\n", expect='C07-NULLMAP'),
    dict(id='C07-w1', file='pony/orm/core.py', fn='Entity._save_updated_', old="            update_columns.extend(attr.columns)\n            val = obj._vals_[attr]\n", new="            val = obj._vals_[attr]\n            if val == obj._dbvals_.get(attr): continue\n            update_columns.extend(attr.columns)\n", expect='C07-WRITE.every'),
    dict(id='C07-w2', file='pony/orm/core.py', fn='Entity._save_updated_', old="                dbval = attr.converters[0].val2dbval(val, obj)\n", new="                dbval = attr.converters[0].val2dbval(val, obj)\n                same = attr.converters[0].dbvals_equal(obj._dbvals_.get(attr), dbval)\n", expect='C07-WRITE.no-tolerant'),
    dict(id='C07-m1', file='pony/orm/dbproviders/sqlite.py', fn='SQLiteTimeConverter.sql2py', old="dt = datetime.datetime.strptime(val, '%H:%M:%S')", new="dt = datetime.strptime(val, '%H:%M:%S')", expect='C07-MOD'),
    dict(id='C07-m2', file='pony/orm/dbapiprovider.py', fn='DecimalConverter.validate', old="        if exp is not None and val.is_finite(): val = val.quantize(exp)  # the scale the database will store\n", new='', expect='C07-TWIN'),
    dict(id='C07-m3', file='pony/utils/utils.py', fn='datetime2timestamp', old="    result = d.isoformat(' ')\n    if len(result) == 19: return result + '.000000'\n    return result", new="    return d.strftime('%Y-%m-%d %H:%M:%S.%f')", expect='C07-LEX'),
    dict(id='C07-m4', file='pony/orm/dbproviders/sqlite.py', fn='SQLiteDateConverter.py2sql', old="return val.isoformat()", new="return val.strftime('%Y-%m-%d')", expect='C07-LEX'),
    dict(id='C07-m5', file='pony/orm/dbapiprovider.py', fn='DecimalConverter.validate', old='if exp is not None and val.is_finite(): val = val.quantize(exp)', new='if exp is not None and val.is_finite(): val = val.quantize(exp)  # same', benign=True),
    dict(id='C07-m6', file='pony/orm/dbproviders/sqlite.py', fn='SQLiteTimedeltaConverter.sql2py', old='return datetime.timedelta(days=val)', new='return datetime.time_delta(days=val)', expect='C07-MOD'),
]
