"""C13  A modification that raises leaves the session exactly as it was."""
import ast, builtins
from ..loader import dotted, walk_no_nested, norm, head, calls_in, stmts_of, AnalysisError
from ..q import nodes_calling

EXPLANATION = """
Static clauses decided on the undo protocol of core.py (necessary conditions of C13).  A *protocol function* is one that
takes an `undo_funcs`/`undo` parameter or creates `undo_funcs = []`.  Session state is abstracted to location classes
(_status_, _wbits_, _save_pos_, _vals_[..], save queue, key-index slots, collection content / count / added+removed,
modified-collections set).
 REG    a nested undo closure is appended to undo_funcs, and that registration dominates every later failure point
        (throw, or call that receives undo_funcs) of the function.
 ORDER  every handler runs the registered closures through reversed(undo_funcs).
 NONE   the list is created (`undo_funcs = []`) exactly when the parameter is None: the deciding test is `undo_funcs is
        None` / `not (undo_funcs is not None)`, never the truthiness of a list that callers legitimately pass empty.
 COVER  every forward mutation of a location class that can be followed by a failure (in a function with an undo
        parameter: every one, since the caller may fail later) is restored by a registered closure of the same function
        (same location class), under the status value the forward branch leaves behind (constant propagation of
        `_status_` into the closure's tests); a key-index mutation may instead be paired, in the same block, with an append
        to an undo list that the closure (or the caller's closure) replays.
 REG    (also) the closure of a function that queues its object AFTER its nested operations is registered after them too: undo functions
        are replayed in reverse registration order and pop the save queue, so registration order must equal queue order.
 SNAP   an undo closure restores from snapshots: a variable it reads is not a live alias (`v = setdata.added`) of a container the
        forward code mutates in place afterwards.
 STALE  an undo closure reads no variable that the forward code assigns inside a loop (it would see the value of the
        last iteration, not of the item it is undoing) unless the closure's own loop rebinds it.
 POS     a save-queue position (_save_pos_ or a local given it) is compared (is None / == n), never tested for truth: 0 is a position.
"""
NOT_DECIDED = "semantic equality of the whole session snapshot; failures raised by user hooks or the database during flush"

CORE = 'pony.orm.core'
PROTOCOL_FLOOR = 13
EXEMPT_LOC = {'cache.modified'}

SET_MUT = {'add', 'remove', 'discard', 'clear', 'update', 'difference_update', 'pop'}


def base_of(node):
    return dotted(node) or norm(node)


def is_index_expr(e):
    """expression denotes a key-index dict of the session cache"""
    d = dotted(e)
    if d and (d in ('cache_index', 'pk_index') or d.endswith('_index')): return True
    if isinstance(e, ast.Subscript):
        b = dotted(e.value) or ''
        return b in ('cache_indexes', 'cache.indexes') or b.endswith('.indexes')
    return False


def mutations(st):
    """location classes mutated by a simple statement -> list of (loc, base, kind)"""
    out = []
    tgts = []
    if isinstance(st, ast.Assign): tgts = list(st.targets)
    elif isinstance(st, ast.AugAssign): tgts = [st.target]
    elif isinstance(st, ast.Delete): tgts = list(st.targets)
    flat = []
    for t in tgts:
        if isinstance(t, (ast.Tuple, ast.List)): flat += list(t.elts)
        else: flat.append(t)
    for t in flat:
        if isinstance(t, ast.Attribute):
            if t.attr in ('_status_', '_wbits_', '_save_pos_'): out.append((t.attr, base_of(t.value), 'store'))
            elif t.attr == 'count' and (dotted(t.value) or '').startswith('setdata'): out.append(('count', dotted(t.value), 'store'))
            elif t.attr in ('added', 'removed') and (dotted(t.value) or '').startswith('setdata'): out.append(('addrem', dotted(t.value), 'store'))
            elif dotted(t) in EXEMPT_LOC: pass
        elif isinstance(t, ast.Subscript):
            v = t.value
            if isinstance(v, ast.Attribute) and v.attr == '_vals_': out.append(('_vals_', base_of(v.value), 'store'))
            elif dotted(v) == 'objects_to_save': out.append(('queue_slot', '', 'store'))          # a slot of the queue is vacated / refilled: its own location class
            elif is_index_expr(v): out.append(('index', '', 'store'))
        elif isinstance(t, ast.Name):
            if isinstance(st, ast.AugAssign) and t.id.startswith('setdata') and isinstance(st.op, (ast.BitOr, ast.Sub, ast.BitAnd)):
                out.append(('set', t.id, 'aug'))
            if isinstance(st, ast.AugAssign) and t.id in ('added', 'removed'): out.append(('addrem', t.id, 'aug'))
    for c in [n for n in walk_no_nested(st) if isinstance(n, ast.Call)]:
        f = c.func
        if not isinstance(f, ast.Attribute): continue
        v = f.value; d = dotted(v) or ''
        if isinstance(v, ast.Attribute) and v.attr == '_vals_' and f.attr in ('pop', 'update', 'setdefault', 'clear'):
            out.append(('_vals_', base_of(v.value), f.attr))
        elif d == 'objects_to_save' and f.attr in ('append', 'pop', 'insert', 'remove'): out.append(('save_queue', '', f.attr))
        elif is_index_expr(v) and f.attr in ('pop', 'setdefault', 'update', 'clear', '__setitem__'): out.append(('index', '', f.attr))
        elif d.startswith('setdata') and '.' not in d and f.attr in SET_MUT: out.append(('set', d, f.attr))
        elif d.startswith('setdata') and d.endswith(('.added', '.removed')) and f.attr in SET_MUT: out.append(('addrem', d.split('.')[0], f.attr))
        elif (d == 'objects_with_modified_collections' or 'modified_collections' in norm(v)) and f.attr in ('add', 'remove', 'discard'):
            out.append(('modcoll', '', f.attr))
    return out


def simple_stmts(fn_node):
    return [s for s in stmts_of(fn_node) if not isinstance(s, (ast.If, ast.For, ast.While, ast.Try, ast.With, ast.FunctionDef, ast.ClassDef))]


def status_after(fn_node, st):
    """constant assigned to <x>._status_ in the same statement list as st (the status the forward branch leaves) or None"""
    # the statement list that holds st, then the lists that enclose it (innermost first): `if status == 'modified': q[pos] = None` sits one level
    # below the `obj._status_ = 'marked_to_delete'` of its branch
    holders = []
    for body in bodies_of(fn_node):
        if any(st is x or any(st is y for y in ast.walk(x)) for x in body if not isinstance(x, (ast.FunctionDef, ast.AsyncFunctionDef, ast.ClassDef))):
            holders.append(body)
    holders.sort(key=lambda b: sum(1 for x in b for _ in ast.walk(x)))          # smallest (innermost) first
    for body in holders:
        for s in body:
            if isinstance(s, ast.Assign) and any(isinstance(t, ast.Attribute) and t.attr == '_status_' for t in s.targets) \
                    and isinstance(s.value, ast.Constant) and isinstance(s.value.value, str):
                return s.value.value
    return None


def bodies_of(node):
    for fld in ('body', 'orelse', 'finalbody'):
        b = getattr(node, fld, None)
        if isinstance(b, list) and b and isinstance(b[0], ast.stmt):
            yield b
            for s in b:
                if isinstance(s, (ast.FunctionDef, ast.AsyncFunctionDef, ast.ClassDef)): continue
                yield from bodies_of(s)
    for h in getattr(node, 'handlers', []) or []: yield from bodies_of(h)


def closure_restores(ctx, closure, status_const):
    """location classes restored by an undo closure on the paths feasible when <obj>._status_ == status_const"""
    g = ctx.cg.cfg(closure)
    def edge_ok(x, y, lab):
        n = g.nodes[x]
        if n.kind != 'test' or lab not in ('T', 'F') or status_const is None: return True
        t = n.ast
        if isinstance(t, ast.Compare) and len(t.ops) == 1 and isinstance(t.left, ast.Attribute) and t.left.attr == '_status_' \
                and isinstance(t.comparators[0], ast.Constant):
            eq = (status_const == t.comparators[0].value)
            if isinstance(t.ops[0], ast.NotEq): eq = not eq
            elif not isinstance(t.ops[0], ast.Eq): return True
            return eq == (lab == 'T')
        return True
    reach = g.reach([g.entry], edge_ok=edge_ok)
    # statements that sit inside `for ... in <undo list>`: their restores are data-driven (only what was appended is replayed)
    in_replay = {}
    for s in walk_no_nested(closure.node):
        if isinstance(s, ast.For) and dotted(s.iter):
            for b in s.body:
                for x in walk_no_nested(b):
                    if isinstance(x, ast.stmt): in_replay[id(x)] = dotted(s.iter)
    locs = set()
    for n in g.nodes:
        if n.id in reach and n.kind == 'stmt':
            for loc, base, kind in mutations(n.ast):
                if loc == 'index' and id(n.ast) in in_replay: locs.add('index@' + in_replay[id(n.ast)])
                else: locs.add(loc)
    return locs


def replayed_lists(closure):
    """names of undo lists the closure iterates (for x in <list>) """
    return {dotted(s.iter) for s in walk_no_nested(closure.node) if isinstance(s, ast.For) and dotted(s.iter)}


def run(ctx):
    repo, cg = ctx.repo, ctx.cg
    core = repo.mod(CORE)
    proto = []
    for f in repo.rule_funcs():
        if f.mod is not core or f.parent is not None: continue
        creates = any(isinstance(s, ast.Assign) and any(dotted(t) == 'undo_funcs' for t in s.targets) and norm(s.value) == '[]'
                      for s in walk_no_nested(f.node))
        if 'undo_funcs' in f.params or 'undo' in f.params or creates: proto.append((f, creates))
    ctx.floor('C13', len(proto), PROTOCOL_FLOOR, 'functions in the undo protocol')
    for f, creates in proto:
        check_function(ctx, f, creates)
    position_rule(ctx, 'C13-POS')
    from .C11 import failsafe_rule
    failsafe_rule(ctx, 'C13-FAILSAFE')      # an index updater that refuses a key has recorded (for the caller's undo) whatever it took out before
    # ---------------------------------------------------------------- ORDER
    n = 0
    for f in repo.rule_funcs():
        if f.mod is not core: continue
        for s in walk_no_nested(f.node):
            if isinstance(s, ast.For) and isinstance(s.target, ast.Name) and s.target.id == 'undo_func':
                n += 1
                ok = norm(s.iter) == 'reversed(undo_funcs)'
                ctx.ob('C13-ORDER.undo-runs-in-reverse', f, s, ok,
                       '' if ok else 'registered undo closures are run in forward order (%s): a later closure that depends on the state an '
                       'earlier one restores sees it already restored' % norm(s.iter), expected='for undo_func in reversed(undo_funcs)')
    ctx.floor('C13-ORDER', n, 7, 'handlers replaying undo_funcs')


_MAY_RAISE = {}


def fn_may_raise(ctx, fn, depth=2):
    """the function contains throw(...) / raise outside an `except` that re-raises nothing new, or calls (resolved exactly, by dispatch or super) one
    that does, `depth` levels down.  Assertions do not count (they state what cannot happen)."""
    key = (fn.full, depth)
    if key in _MAY_RAISE: return _MAY_RAISE[key]
    _MAY_RAISE[key] = False
    r = False
    for st in walk_no_nested(fn.node):
        if isinstance(st, ast.Raise) and st.exc is not None: r = True; break
        if isinstance(st, ast.Call) and dotted(st.func) == 'throw': r = True; break
    if not r and depth > 0:
        for c, ts, kind in ctx.cg.callees(fn):
            if kind in ('exact', 'dispatch', 'super') and any(fn_may_raise(ctx, t, depth - 1) for t in ts): r = True; break
    _MAY_RAISE[key] = r
    return r


def call_may_raise(ctx, fn, call):
    ts, kind = ctx.cg.resolve(fn, call)
    return kind in ('exact', 'dispatch', 'super') and any(fn_may_raise(ctx, t) for t in ts)


def position_rule(ctx, prefix):
    """an object's place in the save queue (`_save_pos_`, or a local that was given it) is None or an index, and 0 is an index: every test on it is a
    comparison (`is None`, `is not None`, `== n`); a truthiness test treats the first queued object as not queued -- the undo of a refused
    delete then fails to put it back and its INSERT / UPDATE is silently dropped at commit"""
    nt = 0
    for f in ctx.repo.rule_funcs():
        if f.mod.name != 'pony.orm.core': continue
        src_names = {t.id for st in ast.walk(f.node) if isinstance(st, ast.Assign) and isinstance(st.value, ast.Attribute) and st.value.attr == '_save_pos_'
                     for t in st.targets if isinstance(t, ast.Name)}
        outer = f.parent
        while outer is not None:            # closures see the locals of the enclosing function
            src_names |= {t.id for st in walk_no_nested(outer.node) if isinstance(st, ast.Assign) and isinstance(st.value, ast.Attribute) and st.value.attr == '_save_pos_'
                          for t in st.targets if isinstance(t, ast.Name)}
            outer = outer.parent
        def is_pos(e): return isinstance(e, ast.Attribute) and e.attr == '_save_pos_' or isinstance(e, ast.Name) and e.id in src_names
        def truth_operands(e):
            if isinstance(e, ast.BoolOp):
                for v in e.values: yield from truth_operands(v)
            elif isinstance(e, ast.UnaryOp) and isinstance(e.op, ast.Not): yield from truth_operands(e.operand)
            else: yield e
        for n in walk_no_nested(f.node):
            tests = [n.test] if isinstance(n, (ast.If, ast.While, ast.Assert)) else []
            tests += [x.test for x in ast.walk(n) if isinstance(x, ast.IfExp)] if isinstance(n, ast.stmt) and not isinstance(n, (ast.FunctionDef, ast.If, ast.While, ast.For, ast.With, ast.Try)) else []
            for t in tests:
                ops = list(truth_operands(t))
                if not any(is_pos(x) for o in ops for x in ast.walk(o)): continue
                nt += 1
                bad = [o for o in ops if is_pos(o)]
                ctx.ob(prefix + '.queue-position-is-compared-never-tested-for-truth', f, t, not bad,
                       '' if not bad else '`%s` tests a save-queue position for truth: position 0 (the first object created or modified since the last flush) counts as "not queued"; '
                       'after a refused delete that object is not put back into the queue and its pending INSERT / UPDATE is never written' % norm(t)[:70], node=n)
    ctx.floor(prefix, nt, 5, 'tests on a save-queue position')


def check_function(ctx, f, creates, only_cover_locs=None, prefix='C13', reg_for=None):
    repo, cg = ctx.repo, ctx.cg
    g = cg.cfg(f)
    closures = [c for c in f.nested.values() if c.name.startswith('undo')]
    has_param = 'undo_funcs' in f.params
    if only_cover_locs is not None:
        return cover_rule(ctx, f, g, closures, has_param, only_cover_locs, prefix)
    if reg_for is not None:
        # only the registration clause (REG.closure-registered-before-failure-points), for functions whose closures restore the given location
        # class (C11: the index maps): the same analysis as below, every other obligation filtered out
        if not any(isinstance(x, ast.Subscript) and 'index' in norm(x.value) for c in closures for x in ast.walk(c.node)): return
        class _Only(object):
            def __init__(self, inner): self._i = inner
            def __getattr__(self, name): return getattr(self._i, name)
            def ob(self, rule, *a, **k):
                if rule.endswith('-REG.closure-registered-before-failure-points'): return self._i.ob(rule, *a, **k)
                class _K(object): key = ''
                return _K()
            def floor(self, *a, **k): pass
            def count(self, *a, **k): pass
            def exception(self, *a, **k): pass
        return check_function(_Only(ctx), f, creates, prefix=prefix)
    # ------------------------------------------------------------ NONE
    for s in walk_no_nested(f.node):
        if isinstance(s, ast.Assign) and any(dotted(t) == 'undo_funcs' for t in s.targets):
            if not has_param:
                continue
            if norm(s.value) != '[]':
                ctx.ob(prefix + '-NONE.list-created-iff-parameter-is-None', f, s, False,
                       'undo_funcs is rebound to `%s`: an empty list passed by the caller is falsy and gets replaced by a private list '
                       'that the caller never replays' % norm(s.value), expected='if undo_funcs is None: undo_funcs = []')
                continue
            ok, why = none_guard_ok(ctx, f, g, s)
            ctx.ob(prefix + '-NONE.list-created-iff-parameter-is-None', f, s, ok, why,
                   expected='`if undo_funcs is None` / `flag = undo_funcs is not None; if not flag: undo_funcs = []`')
    if has_param:
        # the flag that decides whether this call replays the list must be the None-ness of the parameter
        for s in walk_no_nested(f.node):
            if isinstance(s, ast.Assign) and len(s.targets) == 1 and isinstance(s.targets[0], ast.Name) \
                    and s.targets[0].id in ('is_reverse_call', 'is_recursive_call'):
                ok = norm(s.value) == 'undo_funcs is not None'
                ctx.ob(prefix + '-NONE.nested-call-flag', f, s, ok,
                       '' if ok else 'the nested-call flag is %s: an outer caller legitimately passes an *empty* list, which this treats as a '
                       'top-level call (own private undo list, never replayed by the caller)' % norm(s.value),
                       expected='undo_funcs is not None')
    # ------------------------------------------------------------ REG
    fail_points = [n for n in g.nodes if n.ast is not None and n.kind == 'stmt' and (
        g.is_noreturn_stmt(n.ast) or any(any(dotted(a) in ('undo_funcs',) for a in c.args) or any(dotted(k.value) == 'undo_funcs' for k in c.keywords)
                                         for c in n.calls()))]
    # a call into pony code that can refuse its argument (validate(), check...) is a failure point as well: resolved callees (exact / dispatch /
    # super) whose body -- or a callee's, two levels down -- contains throw(...) / raise
    raising = [n for n in g.nodes if n.ast is not None and n.kind == 'stmt' and n not in fail_points and any(call_may_raise(ctx, f, c_) for c_ in n.calls())]
    # the database-load branch of a shared function states `assert undo_funcs is None`: no modification is in progress there, nothing to undo
    load_only = [n for n in g.nodes if n.kind == 'stmt' and isinstance(n.ast, ast.Assert) and norm(n.ast.test) == 'undo_funcs is None']
    raising = [n for n in raising if not (load_only and g.dominated(n, load_only))]
    fail_points = fail_points + raising
    for c in closures:
        defn = [n for n in g.nodes if n.ast is c.node]
        regs = nodes_calling(g, lambda call: dotted(call.func) == 'undo_funcs.append' and call.args and dotted(call.args[0]) == c.name)
        ok = bool(regs)
        detail = '' if ok else 'closure %s is defined but never appended to undo_funcs: the handler has nothing to replay and the object keeps ' \
                               'its new status / write bits / save-queue entry after the failed call' % c.name
        if ok and defn:
            # a failure point matters once the function has changed session state itself: from every own mutation that is not already preceded by
            # the registration, no failure point (throw, or a call that receives undo_funcs) is reachable without passing the registration
            own = [n for n in g.nodes if n.kind == 'stmt' and n.copy == '' and n.ast is not None and not isinstance(n.ast, (ast.FunctionDef, ast.AsyncFunctionDef, ast.ClassDef))
                   and not (isinstance(n.ast, ast.Assign) and norm(n.ast.value) == 'SetData()') and any(True for _ in mutations(n.ast))]
            fresh_ = fresh_object_vars(f)
            own = [n for n in own if not all(base in fresh_ or (loc in ('count', 'set', 'addrem') and fresh_setdata_block(f, n.ast, base)) for loc, base, kind in mutations(n.ast))]
            late = []
            for m_ in own:
                if g.dominated(m_, regs): continue
                r_ = g.reach([m_], avoid=regs, include_src=False)
                late += [(m_, p) for p in fail_points if p.id in r_ and not (isinstance(p.ast, ast.Raise) and p.ast.exc is None)
                         and not isinstance(p.ast, ast.Assert)]          # `assert False` marks a path that cannot happen
            if late:
                m_, p_ = late[0]
                ok = False; detail = 'after the change at line %d (`%s`) the failure point at line %d (`%s`) can be reached before undo_funcs.append(%s): the change ' \
                                     'would not be undone' % (m_.lineno, head(m_.ast, 50), p_.lineno, head(p_.ast, 50), c.name)
            # undo functions are replayed in reverse order of registration, and the ones that put an object into the save queue take it out again with
            # pop(): the registration order has to be the order of the queue appends.  So between the registration of this closure and the
            # function's own append to the queue no nested operation (a call that receives undo_funcs) may run -- it would append and register
            # in between, and the replay would pop the wrong object
            pops_queue = any(isinstance(x, ast.Call) and isinstance(x.func, ast.Attribute) and x.func.attr == 'pop' and 'objects_to_save' in norm(x.func.value) for x in ast.walk(c.node))
            q_apps = nodes_calling(g, lambda call: isinstance(call.func, ast.Attribute) and call.func.attr == 'append' and 'objects_to_save' in norm(call.func.value))
            if ok and pops_queue and q_apps:
                nested = [p for p in fail_points if any(any(dotted(a) == 'undo_funcs' for a in c2.args) or any(dotted(k.value) == 'undo_funcs' for k in c2.keywords) for c2 in p.calls())]
                between = [p for p in nested if any(p.id in g.reach([rg], include_src=False) for rg in regs) and any(qa.id in g.reach([p], include_src=False) for qa in q_apps)]
                ctx.ob(prefix + '-REG.undo-order-matches-queue-order', f, c.node, not between,
                       '' if not between else 'the closure (it pops the save queue) is registered at line %d, the nested operation at line %d runs after that and before this '
                       'function appends its own object to the queue: the nested operation queues and registers in between, so the reversed replay pops the wrong object '
                       '(AssertionError in the undo instead of the original error, session left half-restored)' % (regs[0].lineno, between[0].lineno), node=c.node,
                       expected='register the closure after the nested operations, immediately before the function changes and queues its own object')
        ctx.ob(prefix + '-REG.closure-registered-before-failure-points', f, c.node, ok, detail, expected='undo_funcs.append(%s)' % c.name)
        # ---------------------------------------------------------- STALE
        loop_vars = set()
        for s in walk_no_nested(f.node):
            if isinstance(s, (ast.For, ast.While)):
                for b in s.body:
                    for x in walk_no_nested(b):
                        if isinstance(x, ast.Name) and isinstance(x.ctx, ast.Store): loop_vars.add(x.id)
                if isinstance(s, ast.For):
                    for x in ast.walk(s.target):
                        if isinstance(x, ast.Name): loop_vars.add(x.id)
        local = set(c.params)
        for x in ast.walk(c.node):
            if isinstance(x, ast.Name) and isinstance(x.ctx, ast.Store): local.add(x.id)
        free = {x.id for x in ast.walk(c.node) if isinstance(x, ast.Name) and isinstance(x.ctx, ast.Load)} - local - set(dir(builtins))
        stale = sorted(free & loop_vars)
        ctx.ob(prefix + '-STALE.closure-reads-no-loop-variant-variable', f, c.node, not stale,
               '' if not stale else 'closure %s reads %s, which the forward loop reassigns per item: when undoing it sees the value of the last '
               'iteration (its own loop does not rebind it)' % (c.name, stale), expected='unpack the value saved per item in the undo list')
        # ---------------------------------------------------------- SNAP
        # what the closure restores from must be a snapshot, not a live reference: a variable the closure reads that was bound to a bare
        # attribute of session state (`old_added = setdata.added`) aliases a container which the forward code goes on to mutate in place
        # (`added |= to_add`); the "restore" then puts the mutated container back
        MUT_METHODS = {'add', 'update', 'discard', 'remove', 'clear', 'append', 'extend', 'pop', 'difference_update', 'intersection_update'}
        binds = {}
        for st in walk_no_nested(f.node):
            if not isinstance(st, ast.Assign): continue
            for t in st.targets:
                pairs_ = list(zip(t.elts, st.value.elts)) if isinstance(t, ast.Tuple) and isinstance(st.value, ast.Tuple) and len(t.elts) == len(st.value.elts) else [(t, st.value)]
                for tt, vv in pairs_:
                    if isinstance(tt, ast.Name) and isinstance(vv, ast.Attribute) and dotted(vv): binds.setdefault(tt.id, []).append((dotted(vv), st))
        mutated = {}        # location text -> statement that mutates it in place
        for st in walk_no_nested(f.node):
            if isinstance(st, ast.AugAssign) and isinstance(st.op, (ast.BitOr, ast.Sub, ast.BitAnd, ast.Add)):
                tgt = dotted(st.target)
                for loc in ([tgt] if tgt and '.' in tgt else [l for l, _ in binds.get(tgt, [])]): mutated.setdefault(loc, st)
            if isinstance(st, ast.Expr) and isinstance(st.value, ast.Call) and isinstance(st.value.func, ast.Attribute) and st.value.func.attr in MUT_METHODS:
                tgt = dotted(st.value.func.value)
                for loc in ([tgt] if tgt and '.' in tgt else [l for l, _ in binds.get(tgt or '', [])]): mutated.setdefault(loc, st)
        # names the closure uses as the VALUE it restores (right-hand side of a store into session state), not as a handle it operates on
        restored = set()
        for st in ast.walk(c.node):
            if isinstance(st, ast.Assign) and any(isinstance(t, (ast.Attribute, ast.Subscript, ast.Tuple)) for t in st.targets):
                for v_ in ([st.value] + (list(st.value.elts) if isinstance(st.value, ast.Tuple) else [])):
                    if isinstance(v_, ast.Name): restored.add(v_.id)
        aliased = [(v, loc, st) for v in sorted(free & restored) for loc, st in binds.get(v, []) if loc in mutated and mutated[loc].lineno > st.lineno]
        ctx.ob(prefix + '-SNAP.closure-restores-from-a-copy', f, c.node, not aliased,
               '' if not aliased else 'closure %s restores from `%s`, which was bound to the live container `%s` (line %d) that the forward code mutates in place afterwards '
               '(`%s`, line %d): undoing puts the already-changed container back, so pending changes of the failed call survive' %
               (c.name, aliased[0][0], aliased[0][1], aliased[0][2].lineno, norm(mutated[aliased[0][1]]), mutated[aliased[0][1]].lineno),
               expected='%s = set(%s) (a copy) when it is not None' % (aliased[0][0], aliased[0][1]) if aliased else '')
    cover_rule(ctx, f, g, closures, has_param, None, prefix)


def protocol_functions(ctx):
    repo = ctx.repo
    core = repo.mod(CORE)
    out = []
    for f in repo.rule_funcs():
        if f.mod is not core or f.parent is not None: continue
        creates = any(isinstance(s, ast.Assign) and any(dotted(t) == 'undo_funcs' for t in s.targets) and norm(s.value) == '[]'
                      for s in walk_no_nested(f.node))
        if 'undo_funcs' in f.params or 'undo' in f.params or creates: out.append((f, creates))
    return out


def cover_rule(ctx, f, g, closures, has_param, only_locs, prefix):
    fail_points = [n for n in g.nodes if n.ast is not None and n.kind == 'stmt' and (
        g.is_noreturn_stmt(n.ast) or any(any(dotted(a) in ('undo_funcs',) for a in c.args) or any(dotted(k.value) == 'undo_funcs' for k in c.keywords)
                                         for c in n.calls()))]
    # ------------------------------------------------------------ COVER
    reg_closures = [c for c in closures if nodes_calling(g, lambda call: dotted(call.func) == 'undo_funcs.append' and call.args and dotted(call.args[0]) == c.name)]
    undo_list_params = [p for p in f.params if p == 'undo']
    fresh = fresh_object_vars(f)
    body_nodes = [n for n in g.nodes if n.kind == 'stmt' and n.copy == '' and n.ast is not None
                  and not isinstance(n.ast, (ast.FunctionDef, ast.AsyncFunctionDef, ast.ClassDef))]
    fail_ids = [p for p in fail_points if not (isinstance(p.ast, ast.Raise) and p.ast.exc is None)]
    for n in body_nodes:
        if isinstance(n.ast, ast.Assign) and norm(n.ast.value) == 'SetData()': continue              # empty, not-loaded placeholder slot
        for loc, base, kind in mutations(n.ast):
            if only_locs is not None and loc not in only_locs: continue
            if base in fresh and loc in ('_status_', '_wbits_', '_save_pos_', '_vals_'): continue     # object under construction
            if loc in ('count', 'set', 'addrem') and fresh_setdata_block(f, n.ast, base): continue     # initialising the placeholder just created
            # can a failure follow this mutation?  (functions with an undo parameter: the caller may still fail)
            follows = has_param or bool(undo_list_params) or any(p.id in g.reach([n], include_src=False) for p in fail_ids)
            if not follows: continue
            st_const = status_after(f.node, n.ast) if loc in ('save_queue', 'queue_slot', '_save_pos_', '_status_', 'index') else None
            covered = any(loc in closure_restores(ctx, c, st_const) for c in reg_closures)
            how = 'closure'
            if not covered and loc == 'index':
                # paired, in the same block, with an append to an undo list that is replayed (by a closure here or by the caller)
                lists = set(undo_list_params)
                for c in reg_closures: lists |= replayed_lists(c)
                apps = nodes_calling(g, lambda call: isinstance(call.func, ast.Attribute) and call.func.attr == 'append'
                                     and dotted(call.func.value) in lists)
                if apps and g.must_pass_after(n, apps, exits=[g.exit]):
                    covered = True; how = 'append to a replayed undo list on every continuing path'
            stx = (' (status left by this branch: %r)' % st_const) if st_const else ''
            ctx.ob(prefix + '-COVER.mutation-has-registered-undo', f, n.ast, covered,
                   '' if covered else 'forward mutation of %s%s can be followed by a failure%s but no registered undo closure of %s restores '
                   'that location%s' % (loc, (' of ' + base) if base else '', ' in the caller' if has_param else '', f.qual, stx),
                   node=n.ast, expected='restore of %s in a closure appended to undo_funcs' % loc)


def fresh_setdata_block(f, st, var):
    for body in bodies_of(f.node):
        if st in body:
            return any(isinstance(s, ast.Assign) and norm(s.value) == 'SetData()' and any(dotted(t) == var for t in s.targets) for s in body)
    return False


def fresh_object_vars(f):
    """variables denoting the object under construction: receiver of __init__, or bound from object.__new__ / obj_to_init"""
    out = set()
    if f.name == '__init__' and f.recv: out.add(f.recv)
    for s in walk_no_nested(f.node):
        if isinstance(s, ast.Assign) and len(s.targets) == 1 and isinstance(s.targets[0], ast.Name):
            v = norm(s.value)
            if v.startswith('object.__new__(') or v == 'obj_to_init': out.add(s.targets[0].id)
    return out


def none_guard_ok(ctx, f, g, assign):
    """`undo_funcs = []` must execute exactly when the parameter is None"""
    if norm(assign.value) != '[]': return True, ''
    nodes = g.nodes_of(assign)
    if not nodes: return True, ''
    # find the governing test: the `if` whose body contains the assignment
    for s in walk_no_nested(f.node):
        if isinstance(s, ast.If) and assign in s.body:
            from ..typestate import equivalent_to_atom, resolve_flags
            if equivalent_to_atom(f.node, s.test, 'undo_funcs is None'): return True, ''
            return False, 'the list is replaced under `%s` (i.e. `%s`), which is not "the parameter is None": an empty list passed by the caller is falsy and ' \
                          'gets replaced by a private one that nobody replays' % (norm(s.test), norm(resolve_flags(f.node, s.test)))
    if norm(assign.value) == '[]': return False, 'unconditional `undo_funcs = []` in a function that receives undo_funcs'
    return True, ''


MUTANTS = [
    dict(id='C13-late-validate', file='pony/orm/core.py', fn='Attribute.__set__', old="            if not attr.reverse and not attr.is_part_of_unique_index:\n                obj._vals_[attr] = new_val\n                return",
         new="            new_val = attr.validate(new_val, obj, from_db=False)\n            if not attr.reverse and not attr.is_part_of_unique_index:\n                obj._vals_[attr] = new_val\n                return", expect='C13-REG.closure-registered'),
    dict(id='C13-ro1', file='pony/orm/core.py', fn='Entity._delete_', old="                for cache_index, old_key in undo_list: cache_index[old_key] = obj\n\n            try:", new="                for cache_index, old_key in undo_list: cache_index[old_key] = obj\n\n            undo_funcs.append(undo_func)\n            try:", expect='C13-REG.undo-order'),
    dict(id='C13-sn1', file='pony/orm/core.py', fn='Set.__set__', old="            old_added = None if setdata.added is None else set(setdata.added)\n            old_removed = None if setdata.removed is None else set(setdata.removed)\n", new="            old_added, old_removed = setdata.added, setdata.removed\n", expect='C13-SNAP'),
    dict(id='C13-m1', file='pony/orm/core.py', fn='Entity._delete_', old='is_recursive_call = undo_funcs is not None', new='is_recursive_call = bool(undo_funcs)', expect='C13-NONE'),
    dict(id='C13-m2', file='pony/orm/core.py', fn='Entity._delete_', old='        if not is_recursive_call: undo_funcs = []', new='        undo_funcs = undo_funcs or []', expect='C13-NONE'),
    dict(id='C13-m3', file='pony/orm/core.py', fn='Set.reverse_add', old='        undo_funcs.append(undo_func)\n', new='', expect='C13-REG'),
    dict(id='C13-m4', file='pony/orm/core.py', fn='Attribute.__set__', old='for undo_func in reversed(undo_funcs): undo_func()', new='for undo_func in undo_funcs: undo_func()', expect='C13-ORDER'),
    dict(id='C13-m5', file='pony/orm/core.py', fn='Set.reverse_add', old='                if setdata.count is not None: setdata.count -= 1\n', new='', expect='C13-COVER'),
    dict(id='C13-m6', file='pony/orm/core.py', fn='Entity._delete_', old='                        undo_list.append((pk_index, obj._pkval_))\n', new='', expect='C13-COVER'),
    dict(id='C13-m7', file='pony/orm/core.py', fn='Attribute.__set__', old='                obj._wbits_ = wbits\n', new='', expect='C13-COVER'),
    dict(id='C13-m8', file='pony/orm/core.py', fn='Set.reverse_add', old='            for obj, in_removed, was_modified_earlier in undo:', new='            for obj, _in_removed, was_modified_earlier in undo:', expect='C13-STALE'),
    dict(id='C13-m9', file='pony/orm/core.py', fn='Attribute.__set__',
         old='            undo_funcs.append(undo_func)\n            if old_val == new_val: return\n            try:\n',
         new='            if old_val == new_val: return\n            try:\n                undo_funcs.append(undo_func)\n', benign=True),
    dict(id='C13-m10', file='pony/orm/core.py', fn='Entity._delete_',
         old='                    obj2 = cache_index.pop(val)\n                    assert obj2 is obj\n                    undo_list.append((cache_index, val))',
         new='                    cache_index.pop(val, None)', expect='C13-COVER'),
]
