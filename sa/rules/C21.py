"""C21  Repeated reads in a session return the same value or fail loudly."""
import ast
from ..loader import dotted, walk_no_nested, norm, head, calls_in
from ..q import nodes_calling, assign_pairs

EXPLANATION = """
Static clauses decided (necessary conditions of C21):
 OVERWRITE  the two functions that overwrite a value previously read from the database (Attribute.db_set and
            Entity._db_set_) reach every store into obj._dbvals_ only after the test `rbits & bit` (bit taken from
            _bits_except_volatile_, so volatile attributes are exempt) whose true branch throws UnrepeatableReadError.
 OBSERVE    observing a collection records the read: every normal return of Set.copy (the function behind iteration,
            set(), ==) is dominated by the block that sets the read bit of each item's reverse attribute -- without it a
            later refresh of the child row silently moves the child out of a collection the session already saw.
 SERIAL     the serialising readers hand attribute values to the program, so they record the read like plain attribute access does:
            Entity.to_dict and Bag._process_object obtain every value through attr.__get__(obj) (collections: __get__ or Set.copy),
            never through attr.get(obj) or obj._vals_[attr], which return the value without setting the read bit.
 PHANTOM    Set.load and Set.prefetch_load_all compare the freshly loaded rows with what the session holds and throw
            'Phantom object ... disappeared' before marking the collection fully loaded; db_reverse_add throws 'Phantom object
            ... appeared' for a fully loaded, non-volatile collection before adding the item.
"""
NOT_DECIDED = "schedules of concurrent sessions; what the database returns"

CORE = 'pony.orm.core'


def throws(g, name):
    return [n for n in g.nodes if n.kind == 'stmt' and isinstance(n.ast, ast.Expr) and isinstance(n.ast.value, ast.Call)
            and dotted(n.ast.value.func) == 'throw' and n.ast.value.args and dotted(n.ast.value.args[0]) == name]


def run(ctx):
    repo, cg = ctx.repo, ctx.cg
    from .C20 import ownbits_rule
    ownbits_rule(ctx, 'C21-OWNBITS')       # a read is recorded on the object that was read, guarded by that object's own write bits
    # ---------------------------------------------------------------- OVERWRITE
    n = 0
    for qual in ('Attribute.db_set', 'Entity._db_set_'):
        f = repo.fn(CORE, qual); g = cg.cfg(f)
        stores = [x for x in g.nodes if x.kind == 'stmt' and (
            isinstance(x.ast, ast.Assign) and any(isinstance(t, ast.Subscript) and isinstance(t.value, ast.Attribute) and t.value.attr == '_dbvals_' for t in x.ast.targets)
            or any(isinstance(c.func, ast.Attribute) and c.func.attr in ('pop', 'update') and isinstance(c.func.value, ast.Attribute) and c.func.value.attr == '_dbvals_' for c in x.calls()))]
        from ..typestate import scenario_edges
        from ..q import alias_map
        am = alias_map(f.node)
        rb_names = {n_ for n_, src in am.items() if src.endswith('._rbits_')} | {'rbits'}
        def read_atom(text, node):
            # "this attribute was read": <obj>._rbits_ & bit (or through a local alias of _rbits_) is truthy
            if isinstance(node, ast.BinOp) and isinstance(node.op, ast.BitAnd) and norm(node.right) == 'bit' and (norm(node.left).endswith('._rbits_') or norm(node.left) in rb_names): return True
            return None
        eo = scenario_edges(g, f.node, read_atom)
        bitdefs = [s for s in walk_no_nested(f.node) if isinstance(s, ast.Assign) and any(dotted(t) == 'bit' for t in s.targets)]
        src_ok = bool(bitdefs) and all('_bits_except_volatile_' in norm(s.value) or norm(s.value).split('[')[0] in {n_ for n_, src in am.items() if src.endswith('._bits_except_volatile_')} for s in bitdefs)
        thr = throws(g, 'UnrepeatableReadError')
        ctx.floor('C21-OVERWRITE', len(stores), 1, 'stores into _dbvals_ in %s' % qual)
        has_test = any(read_atom(norm(x), x) for t in g.nodes if t.kind in ('test', 'stmt') and t.ast is not None for x in ast.walk(t.ast) if isinstance(x, ast.BinOp))
        rr = g.reach([g.entry], edge_ok=eo)
        for s in stores:
            n += 1
            ok = has_test and bool(thr) and s.id not in rr and src_ok and any(t.id in rr for t in thr)
            ctx.ob('C21-OVERWRITE.value-read-is-not-silently-replaced', f, s.ast, ok,
                   '' if ok else 'the database value remembered for an attribute can be overwritten without passing `if rbits & bit: throw(UnrepeatableReadError)` '
                   '(bit from _bits_except_volatile_: %s)' % src_ok, node=s.ast)
    # ---------------------------------------------------------------- OBSERVE
    cp = repo.fn(CORE, 'Set.copy'); g = cg.cfg(cp)
    marks = [x for x in g.nodes if x.kind == 'stmt' and isinstance(x.ast, ast.AugAssign) and isinstance(x.ast.target, ast.Attribute) and x.ast.target.attr == '_rbits_']
    ctx.need(marks, 'C21: Set.copy no longer records read bits')
    gov = [t for t in g.nodes if t.kind == 'test' and 'reverse.is_collection' in norm(t.ast) and any(m.id in g.reach([t]) for m in marks)]
    rets = [x for x in g.nodes if x.kind == 'stmt' and isinstance(x.ast, ast.Return)]
    ctx.floor('C21-OBSERVE', len(rets), 1, 'returns of Set.copy')
    for r in rets:
        ok = bool(gov) and g.dominated(r, gov)
        ctx.ob('C21-OBSERVE.collection-read-records-read-bits', cp, r.ast, ok,
               '' if ok else 'Set.copy can return the collection content (line %d) without passing the block that sets the read bit of each item\'s '
               'reverse attribute: a later refresh of a child row silently removes the child from a collection the session already observed' % r.lineno,
               node=r.ast)
    # the marking loop ranges over the whole collection
    loops = [s for s in walk_no_nested(cp.node) if isinstance(s, ast.For) and any(isinstance(x, ast.AugAssign) for x in ast.walk(s))]
    ok = bool(loops) and all(norm(l.iter) == 'setdata' for l in loops)
    ctx.ob('C21-OBSERVE.every-item-is-marked', cp, loops[0] if loops else cp.node, ok, '' if ok else 'the read-bit loop does not range over the whole collection')
    # ---------------------------------------------------------------- PHANTOM
    for qual in ('Set.load', 'Set.prefetch_load_all'):
        f = repo.fn(CORE, qual); g = cg.cfg(f)
        full = [x for x in g.nodes if x.kind == 'stmt' and isinstance(x.ast, ast.Assign) and any(isinstance(t, ast.Attribute) and t.attr == 'is_fully_loaded' for t in x.ast.targets)
                and isinstance(x.ast.value, ast.Constant) and x.ast.value.value is True]
        ex = nodes_calling(g, lambda c: isinstance(c.func, ast.Attribute) and c.func.attr == '_exec_sql')
        # scenario: the collection was known before (its SetData is not fresh), it is not volatile, and rows the session had seen are missing
        # from the result (`phantoms` non-empty): no merge of the loaded rows is reachable after the query -- UnrepeatableReadError instead
        from ..typestate import scenario_edges
        def ph_atom(text, node):
            if text == 'phantoms': return True
            if text == 'attr.is_volatile': return False
            if text.startswith('setdata') and text.endswith(' is None'): return False
            if text.startswith('setdata') and text.endswith(' is not None'): return True
            return None
        eo = scenario_edges(g, f.node, ph_atom)
        merges = [x for x in g.nodes if x.kind == 'stmt' and isinstance(x.ast, ast.AugAssign) and isinstance(x.ast.op, ast.BitOr) and norm(x.ast.value) == 'items']
        thr = throws(g, 'UnrepeatableReadError')
        ph = [t for t in g.nodes if t.kind == 'test' and any(isinstance(x, ast.Name) and x.id == 'phantoms' for x in ast.walk(t.ast))]
        ok = bool(full) and bool(ph) and bool(ex) and bool(thr)
        detail = ''
        srcs = [y for e in ex for y, lab in g.succ[e.id] if lab != 'exc']
        rr = g.reach(srcs, edge_ok=eo)
        for mnode in merges:
            if mnode.id in rr: ok = False; detail = 'loaded rows are merged at line %d although items the session had seen disappeared (no phantom test on that path)' % mnode.lineno
        if ok and not any(t.id in rr for t in thr): ok = False; detail = 'the phantom test does not lead to UnrepeatableReadError'
        ctx.ob('C21-PHANTOM.disappeared-item-detected-before-merge', f, ph[0].stmt if ph else f.node, ok, detail or ('' if ok else 'phantom check missing'))
    dra = repo.fn(CORE, 'Set.db_reverse_add'); g = cg.cfg(dra)
    adds = nodes_calling(g, lambda c: isinstance(c.func, ast.Attribute) and c.func.attr == 'add' and dotted(c.func.value) == 'setdata')
    def ap_atom(text, node):
        if text == 'setdata is None': return False
        if text == 'setdata is not None': return True
        if text == 'setdata.is_fully_loaded': return True
        if text == 'attr.is_volatile': return False
        return None
    from ..typestate import scenario_edges
    rr = g.reach([g.entry], edge_ok=scenario_edges(g, dra.node, ap_atom))
    thr = throws(g, 'UnrepeatableReadError')
    ok = bool(adds) and bool(thr) and not any(a.id in rr for a in adds) and any(t.id in rr for t in thr)
    ctx.ob('C21-PHANTOM.appeared-item-detected', dra, adds[0].ast if adds else dra.node, ok,
           '' if ok else 'an item can be added to a fully loaded, non-volatile collection from database rows without UnrepeatableReadError')
    # the sibling merge in Set.prefetch_load_all (many-to-many rows queried again by prefetch()): scenario "the collection is fully loaded, not volatile,
    # and the query returned items the session does not hold" -- the merge `setdata |= items` is unreachable, UnrepeatableReadError is.
    # (Set.load merges too, but only into collections it selected because they are NOT fully loaded.)
    pf = repo.fn(CORE, 'Set.prefetch_load_all'); g = cg.cfg(pf)
    def ap2_atom(text, node):
        if text == 'items': return True
        if text.endswith('.is_fully_loaded'): return True
        if text == 'attr.is_volatile': return False
        if text == 'phantoms': return False
        if text.startswith('setdata') and text.endswith(' is None'): return False
        if text.startswith('setdata') and text.endswith(' is not None'): return True
        return None
    eo2 = scenario_edges(g, pf.node, ap2_atom)
    merges = [x for x in g.nodes if x.kind == 'stmt' and isinstance(x.ast, ast.AugAssign) and isinstance(x.ast.op, ast.BitOr) and norm(x.ast.value) == 'items']
    rr = g.reach([g.entry], edge_ok=eo2)
    thr = throws(g, 'UnrepeatableReadError')
    ok = bool(merges) and not any(m_.id in rr for m_ in merges) and any(t.id in rr for t in thr)
    ctx.ob('C21-PHANTOM.appeared-item-detected-by-prefetch', pf, merges[0].ast if merges else pf.node, ok,
           '' if ok else 'prefetch merges newly appeared many-to-many items into a collection that is already fully loaded (and observed) without UnrepeatableReadError; '
           'its sibling Set.db_reverse_add refuses exactly that')

    # ---------------------------------------------------------------- SERIAL
    for modname, qual in (('pony.orm.core', 'Entity.to_dict'), ('pony.orm.serialization', 'Bag._process_object')):
        f = repo.fn(modname, qual)
        silent = [c for c in calls_in(f.node) if isinstance(c.func, ast.Attribute) and c.func.attr == 'get' and dotted(c.func.value) in ('attr',) and c.args]
        silent += [x for x in walk_no_nested(f.node) if isinstance(x, ast.Subscript) and isinstance(x.ctx, ast.Load) and isinstance(x.value, ast.Attribute) and x.value.attr in ('_vals_', '_dbvals_')]
        recording = [c for c in calls_in(f.node) if isinstance(c.func, ast.Attribute) and c.func.attr == '__get__' and dotted(c.func.value) == 'attr']
        ok = bool(recording) and not silent
        ctx.ob('C21-SERIAL.serialised-values-are-recorded-as-read', f, silent[0] if silent else f.node, ok,
               '' if ok else '%s reads an attribute value with `%s`, which does not set the read bit: the program has seen the value, yet a later refresh of the row overwrites it '
               'silently instead of raising UnrepeatableReadError' % (qual, norm(silent[0]) if silent else 'no attr.__get__(obj)'), node=silent[0] if silent else None,
               expected='attr.__get__(obj)')
    # a one-to-one link whose column is on the other side: reading it through the column-less attribute is an observation of the partner's
    # column.  Scenario "attr has a reverse, no columns of its own, the value is an object that exists in the database": every return of the
    # value passes a statement that adds a bit to <value>._rbits_ (sibling of what Set.copy does for the items of a collection)
    ag = repo.fn(CORE, 'Attribute.__get__'); g = cg.cfg(ag); arecv = ag.recv
    def o2o_atom(text, node):
        if isinstance(node, ast.Attribute) and dotted(node.value) == arecv and node.attr == 'columns': return False
        if isinstance(node, ast.Attribute) and dotted(node.value) == arecv and node.attr == 'reverse': return True
        if isinstance(node, ast.Attribute) and dotted(node.value) == arecv and node.attr == 'is_collection': return False
        if text.startswith(arecv + '.pk_offset is'): return text.endswith(' is None')              # not a primary key attribute
        if text.endswith(' is None'): return False                                                  # the objects exist, their write bits too
        if text.endswith(' is not None'): return True
        if isinstance(node, ast.BinOp) and isinstance(node.op, ast.BitAnd): return False        # nothing written yet
        return None
    eo = scenario_edges(g, ag.node, o2o_atom, resolve=False)
    vrets = [x for x in g.nodes if x.kind == 'stmt' and isinstance(x.ast, ast.Return) and isinstance(x.ast.value, ast.Name)]
    ctx.need(vrets, 'C21: Attribute.__get__ no longer returns a local value')
    live = g.reach([g.entry], edge_ok=eo)
    vrets = [r for r in vrets if r.id in live]
    ctx.need(vrets, 'C21: no return of Attribute.__get__ is reachable for a column-less one-to-one attribute')
    for r in vrets:
        vname = r.ast.value.id
        marks = [x for x in g.nodes if x.kind == 'stmt' and isinstance(x.ast, ast.AugAssign) and isinstance(x.ast.op, ast.BitOr) and isinstance(x.ast.target, ast.Attribute)
                 and x.ast.target.attr == '_rbits_' and dotted(x.ast.target.value) == vname]
        ok = bool(marks) and r.id not in g.reach([g.entry], avoid=marks, edge_ok=eo) and r.id in g.reach([g.entry], edge_ok=eo)
        ctx.ob('C21-OBSERVE.one-to-one-read-recorded-on-the-storing-side', ag, r.ast, ok,
               '' if ok else 'Attribute.__get__ returns the partner of a one-to-one link stored in the partner\'s column without recording the read on the partner '
               '(the attribute has no column, so its own read bit is 0): after another transaction moves the partner, a reload changes the value silently', node=r.ast)
    # ---------------------------------------------------------------- GROW
    # what was observed stays recorded until the session ends: the read marks of an existing object only grow.  Every statement of core.py that
    # rebinds <obj>._rbits_ is `|=`, or assigns a superset (`x._rbits_ | ...`, the full mask _all_bits_except_volatile_), or initialises a fresh
    # object (constant 0 / None in the function that creates it), or is the one listed exception.
    GROW_EXC = {('Entity._update_dbvals_', '&='): "after INSERT an attribute left to the database default has no known database value: its (vacuous) read mark is dropped "
                                                  "together with the value, the next access loads it"}
    ngrow = 0
    for fn in repo.rule_funcs():
        if fn.mod.name != CORE: continue
        creates = any(dotted(c.func) == 'object.__new__' for c in calls_in(fn.node))
        for st in walk_no_nested(fn.node):
            tg = []
            if isinstance(st, ast.AugAssign): tg = [(st.target, None)]
            elif isinstance(st, ast.Assign): tg = list(assign_pairs(st))
            for t, v in tg:
                if not (isinstance(t, ast.Attribute) and t.attr == '_rbits_'): continue
                ngrow += 1
                owner = norm(t.value)
                if isinstance(st, ast.AugAssign):
                    ok = isinstance(st.op, ast.BitOr); form = {ast.BitOr: '|=', ast.BitAnd: '&=', ast.BitXor: '^='}.get(type(st.op), 'op=')
                else:
                    form = '='
                    ok = v is not None and (
                        (isinstance(v, ast.BinOp) and isinstance(v.op, ast.BitOr) and any(norm(x) == owner + '._rbits_' for x in (v.left, v.right)))
                        or (isinstance(v, ast.Attribute) and v.attr == '_all_bits_except_volatile_')
                        or (creates and isinstance(v, ast.Constant) and v.value in (0, None))
                        or (creates and isinstance(v, ast.Attribute) and v.attr == '_wbits_'))
                    if not ok and creates and isinstance(st.value, ast.Constant) and st.value.value in (0, None): ok = True        # obj._rbits_ = obj._wbits_ = 0
                exc = GROW_EXC.get((fn.qual, form))
                if not ok and exc:
                    # the exception holds for the INSERT case only: with after_create false the statement must be unreachable
                    gx = cg.cfg(fn)
                    node_ = [x for x in gx.nodes if x.kind == 'stmt' and x.ast is st]
                    live_ = gx.reach([gx.entry], edge_ok=scenario_edges(gx, fn.node, lambda text, node: False if text == 'after_create' else None, resolve=False))
                    if node_ and node_[0].id not in live_:
                        ctx.exception('C21-GROW', '%s %s' % (fn.qual, form), exc); ok = True
                ctx.ob('C21-GROW.read-marks-of-an-existing-object-only-grow', fn, st, ok,
                       '' if ok else '`%s` replaces or shrinks the read marks of an object the session may already have observed: a later refresh of an attribute read earlier '
                       'overwrites the observed value without UnrepeatableReadError' % norm(st)[:80], node=st, expected='obj._rbits_ |= ...')
    ctx.floor('C21-GROW', ngrow, 6, 'statements that rebind _rbits_')
    # every function that loads a collection completely and hands out its size or content records the read of each item, like Set.copy
    # (len(group.students) is as much an observation of the whole collection as iterating over it)
    nfull = 0
    for clsname in ('Set', 'SetInstance'):
        for f in repo.cls(CORE, clsname).methods.values():
            g = cg.cfg(f)
            loads = [x for x in g.nodes if x.kind == 'stmt' and x.ast is not None and any(isinstance(c.func, ast.Attribute) and c.func.attr == 'load' and len(c.args) == 1 and not c.keywords for c in x.calls())]
            if not loads: continue
            rets = [x for x in g.nodes if x.kind == 'stmt' and isinstance(x.ast, ast.Return) and x.ast.value is not None and any(
                isinstance(c, ast.Call) and dotted(c.func) in ('len', 'set', 'list', 'tuple', 'sorted', 'frozenset', 'iter') and c.args and dotted(c.args[0]) == 'setdata' for c in ast.walk(x.ast.value))]
            for r in rets:
                nfull += 1
                marks = [x for x in g.nodes if x.kind == 'stmt' and isinstance(x.ast, ast.AugAssign) and isinstance(x.ast.op, ast.BitOr) and isinstance(x.ast.target, ast.Attribute) and x.ast.target.attr == '_rbits_']
                gov = [t for t in g.nodes if t.kind == 'test' and 'reverse.is_collection' in norm(t.ast) and any(m.id in g.reach([t]) for m in marks)]
                ok = bool(gov) and g.dominated(r, gov)
                ctx.ob('C21-OBSERVE.full-load-observer-records-the-read', f, r.ast, ok,
                       '' if ok else '%s loads the whole collection and returns `%s` without setting the read bit of each item\'s reverse attribute: after another transaction '
                       'moves an item away, a refresh shrinks the collection silently' % (f.qual, norm(r.ast.value)), node=r.ast, expected='go through Set.copy()')
    ctx.floor('C21-OBSERVE', nfull, 1, 'functions that fully load a collection and return its size or content')


MUTANTS = [
    dict(id='C21-grow3', file='pony/orm/core.py', fn='Entity._update_dbvals_', old="            elif after_create and val is None:", new="            elif val is None and (after_create or attr not in new_dbvals):", expect='C21-GROW'),
    dict(id='C21-pf', file='pony/orm/core.py', fn='Set.prefetch_load_all', old="                    if items and setdata2.is_fully_loaded and not attr.is_volatile: throw(UnrepeatableReadError,", new="                    if items and setdata2.is_fully_loaded and attr.is_volatile: throw(UnrepeatableReadError,", expect='C21-PHANTOM.appeared-item-detected-by-prefetch'),
    dict(id='C21-len', file='pony/orm/core.py', fn='SetInstance.__len__', old="        return len(wrapper.copy())  # the whole collection is observed: copy() records the read of every item",
         new="        attr = wrapper._attr_; obj = wrapper._obj_\n        setdata = obj._vals_.get(attr)\n        if setdata is None or not setdata.is_fully_loaded: setdata = attr.load(obj)\n        return len(setdata)", expect='C21-OBSERVE.full-load'),
    dict(id='C21-grow1', file='pony/orm/core.py', fn='Entity._save_updated_', old="        obj._rbits_ |= obj._wbits_ & obj._all_bits_except_volatile_", new="        obj._rbits_ = obj._wbits_ & obj._all_bits_except_volatile_", expect='C21-GROW'),
    dict(id='C21-grow2', file='pony/orm/core.py', fn='Entity._save_updated_', old="        obj._rbits_ |= obj._wbits_ & obj._all_bits_except_volatile_", new="        obj._rbits_ = obj._rbits_ | (obj._wbits_ & obj._all_bits_except_volatile_)", expect='C21-GROW', benign=True),
    dict(id='C21-o2o', file='pony/orm/core.py', fn='Attribute.__get__', old="            if wbits is not None and not wbits & bit: value._rbits_ |= bit", new="            if wbits is not None and not wbits & bit: obj._rbits_ |= bit", expect='C21-OBSERVE.one-to-one'),
    dict(id='C21-s1', file='pony/orm/core.py', fn='Entity.to_dict', old="            value = attr.__get__(obj)\n", new="            value = attr.get(obj) if not attr.is_collection else attr.__get__(obj)\n", expect='C21-SERIAL'),
    dict(id='C21-m1', file='pony/orm/core.py', fn='Set.copy', old='        if setdata is None or not setdata.is_fully_loaded: setdata = attr.load(obj)\n',
         new='        if setdata is not None and setdata.is_fully_loaded: return set(setdata)\n        setdata = attr.load(obj)\n', expect='C21-OBSERVE'),
    dict(id='C21-m2', file='pony/orm/core.py', fn='Entity._db_set_', old='bit = obj._bits_except_volatile_[attr]\n            if rbits & bit:', new='bit = obj._bits_except_volatile_[attr]\n            if rbits & bit and False:', expect='C21-OVERWRITE'),
    dict(id='C21-m3', file='pony/orm/core.py', fn='Attribute.db_set', old='        bit = obj._bits_except_volatile_[attr]\n        if obj._rbits_ & bit:', new='        bit = obj._bits_except_volatile_[attr]\n        if obj._rbits_ & bit & obj._wbits_:', expect='C21-OVERWRITE'),
    dict(id='C21-m4', file='pony/orm/core.py', fn='Set.db_reverse_add', old='            elif setdata.is_fully_loaded and not attr.is_volatile: throw(UnrepeatableReadError,', new='            elif False: throw(UnrepeatableReadError,', expect='C21-PHANTOM.appeared'),
    dict(id='C21-m5', file='pony/orm/core.py', fn='Set.load', old='                    if phantoms and not attr.is_volatile: throw(UnrepeatableReadError,', new='                    if False: throw(UnrepeatableReadError,', expect='C21-PHANTOM.disappeared'),
    dict(id='C21-m6', file='pony/orm/core.py', fn='Attribute.db_set', old='bit = obj._bits_except_volatile_[attr]', new='bit = obj._bits_[attr]', expect='C21-OVERWRITE'),
]
