"""C31  Serialised and pickled objects reflect current state and round-trip."""
import ast
from ..loader import dotted, walk_no_nested, norm, head, calls_in
from ..q import nodes_calling, const_sets, value_atom, resolve_local
from ..typestate import scenario_edges

EXPLANATION = """
Static clauses decided (necessary conditions of C31):
 ESC     Bag._reduce_composite_pk is an instance of the standard injective escaping scheme: each part is converted with
         str(), the escape character E is doubled FIRST, then the separator S is escaped as E+S, and the parts are joined with
         S (E != S, both single characters).  Any other order or a missing step makes two distinct composite keys collide.
 FRESH   Bag.to_dict builds its result from scratch: the scratch table bag.dicts is cleared before the first object is
         processed (a previous call that raised half-way must not leave entries behind that are then served as current values),
         values are read through attr.__get__ (current session state) and the table is cleared again before returning.
 FLUSH   Entity.to_dict flushes a modified live session before reading, and reads values through attr.__get__.
 INCLUDE Database.to_json reports every attribute the caller lists in include= (unless excluded): lazy attributes and collections are
         skipped only when they were not asked for.
 PICKLE  Entity.__reduce__ refuses deleted, created and modified objects before building the state (only database-backed
         state is pickled); its reduce value names a module-level function that goes through the identity map, and the attribute
         values are applied with _db_set_ (by that function, or by __setstate__ in the three-element form).
 CYCLE   related objects are not inside the *arguments* of the reduce value (pickle writes those before it memoises the object,
         so objects that refer to each other would recurse until RecursionError): they travel in the state element, or as keys.
 ARGS    every parameter of an unpickling function is read; a collection is declared fully loaded only after the pickled items were put into it.
 FIRSTCOL a raw primary key is reduced to its first column only under a guard on the number of key columns (not of key attributes).
 GIVEN   every object put into the bag is processed in full whatever was visited before; a related-object visit never replaces an entry.
 MIX     a Bag refuses objects of another database or another session.
"""
NOT_DECIDED = "value equality after unpickling; JSON encoding of every attribute type"

SER = 'pony.orm.serialization'
CORE = 'pony.orm.core'


def run(ctx):
    repo, cg = ctx.repo, ctx.cg
    # ---------------------------------------------------------------- ESC
    rc = repo.fn(SER, 'Bag._reduce_composite_pk')
    rets = [s for s in walk_no_nested(rc.node) if isinstance(s, ast.Return)]
    ctx.need(len(rets) == 1, 'C31: _reduce_composite_pk has %d returns' % len(rets))
    v = rets[0].value
    if isinstance(v, ast.Call) and len(v.args) == 1: v = ast.Call(func=v.func, args=[resolve_local(rc.node, v.args[0])], keywords=v.keywords)     # parts built into a local first
    ok, why = False, 'not of the form SEP.join(<escape chain over str(item)> for item in pk)'
    if isinstance(v, ast.Call) and isinstance(v.func, ast.Attribute) and v.func.attr == 'join' and isinstance(v.func.value, ast.Constant) \
            and len(v.args) == 1 and isinstance(v.args[0], (ast.GeneratorExp, ast.ListComp)):
        sep = v.func.value.value
        chain = []
        e = v.args[0].elt
        while isinstance(e, ast.Call) and isinstance(e.func, ast.Attribute) and e.func.attr == 'replace' and len(e.args) == 2 \
                and all(isinstance(a, ast.Constant) and isinstance(a.value, str) for a in e.args):
            chain.append((e.args[0].value, e.args[1].value)); e = e.func.value
        chain.reverse()
        base_ok = isinstance(e, ast.Call) and dotted(e.func) == 'str' and len(e.args) == 1 and dotted(e.args[0]) == dotted(v.args[0].generators[0].target)
        if not base_ok: why = 'the parts are not converted with str(item) before escaping'
        elif len(chain) != 2: why = 'expected exactly two replace steps (escape char, then separator), found %s' % chain
        else:
            (a1, b1), (a2, b2) = chain
            E = a1
            if len(E) != 1 or len(sep) != 1 or E == sep: why = 'escape %r / separator %r are not two distinct single characters' % (E, sep)
            elif b1 != E + E: why = 'first step must double the escape character %r, found %r -> %r' % (E, a1, b1)
            elif a2 != sep or b2 != E + sep: why = 'second step must escape the separator %r as %r, found %r -> %r' % (sep, E + sep, a2, b2)
            else: ok = True
    ctx.ob('C31-ESC.composite-key-encoding-is-injective', rc, rets[0], ok, '' if ok else why + ': distinct composite keys can be encoded to the same string',
           expected="','.join(str(item).replace('*', '**').replace(',', '*,') for item in pk)")
    users = [c for f in repo.rule_funcs() if f.mod.name == SER for c in calls_in(f.node) if isinstance(c.func, ast.Attribute) and c.func.attr == '_reduce_composite_pk']
    ctx.floor('C31-ESC', len(users), 2, 'uses of _reduce_composite_pk')
    # ---------------------------------------------------------------- FRESH
    td = repo.fn(SER, 'Bag.to_dict'); g = cg.cfg(td); bag = td.recv
    clears = nodes_calling(g, lambda c: dotted(c.func) == bag + '.dicts.clear')
    uses = [x for x in g.nodes if x.ast is not None and x not in clears and any(isinstance(y, ast.Attribute) and y.attr == 'dicts' and dotted(y.value) == bag for y in x.walk())]
    uses += nodes_calling(g, lambda c: isinstance(c.func, ast.Attribute) and c.func.attr == '_process_object')
    ctx.floor('C31-FRESH', len(uses), 2, 'uses of the scratch table in Bag.to_dict')
    bad = [u for u in uses if not g.dominated(u, clears)]
    ctx.ob('C31-FRESH.scratch-table-cleared-before-use', td, bad[0].ast if bad else td.node, not bad,
           '' if not bad else 'bag.dicts is read at line %d without having been cleared in this call: entries left by an earlier to_dict() that raised are '
           'reported as the objects\' current values' % bad[0].lineno, node=bad[0].ast if bad else None)
    rets = [x for x in g.nodes if x.kind == 'stmt' and isinstance(x.ast, ast.Return)]
    ok = all(any(c.lineno > max(u.lineno for u in uses) and g.dominated(r, [c]) for c in clears) for r in rets) if rets and uses else False
    ctx.ob('C31-FRESH.scratch-table-cleared-after-use', td, td.node, ok, '' if ok else 'bag.dicts keeps the processed objects after to_dict returns')
    po = repo.fn(SER, 'Bag._process_object')
    reads = [s for s in walk_no_nested(po.node) if isinstance(s, ast.Assign) and any(dotted(t) == 'value' for t in s.targets)]
    ok = any(norm(s.value) == 'attr.__get__(obj)' for s in reads)
    ctx.ob('C31-FRESH.values-read-through-descriptor', po, reads[0] if reads else po.node, ok, '' if ok else 'Bag reads values by %s, not attr.__get__(obj)' % [norm(s.value) for s in reads][:2])
    # ---------------------------------------------------------------- FLUSH
    et = repo.fn(CORE, 'Entity.to_dict'); g = cg.cfg(et)
    fl = nodes_calling(g, lambda c: isinstance(c.func, ast.Attribute) and c.func.attr == 'flush')
    gets = nodes_calling(g, lambda c: isinstance(c.func, ast.Attribute) and c.func.attr == '__get__')
    tests = [t for t in g.nodes if t.kind == 'test' and norm(t.ast) == 'cache is not None and cache.is_alive and cache.modified']
    ok = bool(fl) and bool(gets) and bool(tests) and all(g.dominated(x, tests) for x in gets)
    if ok:
        ts = [y for t in tests for y, lab in g.succ[t.id] if lab == 'T']
        ok = not any(x.id in g.reach(ts, avoid=fl) for x in gets)
    ctx.ob('C31-FLUSH.to_dict-flushes-before-reading', et, tests[0].stmt if tests else et.node, ok,
           '' if ok else 'Entity.to_dict can read attribute values of a modified live session without flushing first')
    # ---------------------------------------------------------------- PICKLE
    rd = repo.fn(CORE, 'Entity.__reduce__'); g = cg.cfg(rd)
    # scenario evaluation: with obj._status_ set to each unsaved / deleted status, no path reaches a normal return
    sets = const_sets(repo.mod(CORE)); subj = rd.recv + '._status_'
    refused = sorted(sets.get('del_statuses', ())) + ['created', 'modified']
    rets = [x for x in g.nodes if x.kind == 'stmt' and isinstance(x.ast, ast.Return)]
    ok = bool(rets) and len(refused) >= 5
    leak = []
    for val in refused:
        eo = scenario_edges(g, rd.node, value_atom(rd.node, subj, val, sets), resolve=False)
        r_ = g.reach([g.entry.id], edge_ok=eo)
        if any(x.id in r_ for x in rets): ok = False; leak.append(val)
    eo = scenario_edges(g, rd.node, value_atom(rd.node, subj, 'loaded', sets), resolve=False)
    if not any(x.id in g.reach([g.entry.id], edge_ok=eo) for x in rets): ok = False; leak.append('loaded object cannot be pickled')
    ctx.ob('C31-PICKLE.only-stored-state-is-pickled', rd, rd.node, ok, '' if ok else 'Entity.__reduce__ does not refuse deleted/created/modified objects before building the state: %s' % ', '.join(leak))
    # what __reduce__ hands to pickle: (callable, args[, state]).  The callable is a module-level function that goes through the identity map; the
    # attribute values are applied with _db_set_ (by the callable, or by __setstate__ when the three-element form is used)
    rvals = [s_.value for s_ in walk_no_nested(rd.node) if isinstance(s_, ast.Return) and s_.value is not None]
    ctx.need(rvals and all(isinstance(v, ast.Tuple) and len(v.elts) >= 2 and isinstance(v.elts[0], ast.Name) for v in rvals), 'C31-PICKLE: Entity.__reduce__ does not return (callable, args, ...)')
    for v in rvals:
        ue = repo.fn_opt(CORE, v.elts[0].id)
        cs = [c.func.attr for c in calls_in(ue.node) if isinstance(c.func, ast.Attribute)] if ue is not None else []
        ss = repo.fn_opt(CORE, 'Entity.__setstate__')
        cs_state = [c.func.attr for c in calls_in(ss.node) if isinstance(c.func, ast.Attribute)] if ss is not None and len(v.elts) >= 3 else []
        ok = ue is not None and ue.cls is None
        ctx.ob('C31-PICKLE.reduce-targets-a-module-level-function', rd, v, ok, '' if ok else '__reduce__ returns %s: pickle cannot import the callable by name' % norm(v)[:60], node=v)
        ok = '_get_from_identity_map_' in cs and '_db_set_' in cs + cs_state
        ctx.ob('C31-PICKLE.unpickle-goes-through-identity-map', ue or rd, (ue or rd).node, ok, '' if ok else 'unpickling bypasses the identity map / _db_set_')
        # pickle memoises an object only after the *arguments* of its reduce value have been written.  Related objects placed in the arguments are
        # therefore pickled before the object itself is known: two objects that refer to each other (both sides of a one-to-one, two entities
        # with references to each other) recurse until RecursionError.  Cycle-safe forms: references travel in the third element (state), or as keys.
        args_txt = norm(v.elts[1])
        arg_names = {a_.id for a_ in ast.walk(v.elts[1]) if isinstance(a_, ast.Name)}
        fills = [s_ for s_ in ast.walk(rd.node) if isinstance(s_, ast.Assign) and any(isinstance(t, ast.Subscript) and isinstance(t.value, ast.Name) and t.value.id in arg_names for t in s_.targets)]
        from_vals = [s_ for s_ in fills if any(isinstance(l, (ast.For,)) and '_vals_' in norm(l.iter) and s_ in list(ast.walk(l)) for l in ast.walk(rd.node))]
        guarded = [s_ for s_ in from_vals if any(isinstance(t_, ast.If) and s_ in list(ast.walk(t_)) and ('reverse' in norm(t_.test) or 'py_type' in norm(t_.test) or 'is_relation' in norm(t_.test)) for t_ in ast.walk(rd.node))]
        ok = not from_vals or len(guarded) == len(from_vals)
        ctx.ob('C31-CYCLE.related-objects-are-not-pickled-inside-the-reduce-arguments', rd, v, ok,
               '' if ok else 'Entity.__reduce__ puts every loaded attribute value, related objects included, into the arguments `%s` of its reduce value: pickle writes those before it '
               'memoises the object, so loaded objects that refer to each other (both sides of a one-to-one) cannot be pickled -- RecursionError' % args_txt[:40], node=v)
    # ---------------------------------------------------------------- ARGS
    # whatever a __reduce__ of core.py hands to pickle is used on the way back: every parameter of the module-level function it names is read
    # (unpickle_setwrapper used to ignore `items`: the collection came back empty); and a collection is declared fully loaded only after the
    # pickled items -- or something derived from them -- were put into its SetData
    nred = 0
    for f in repo.rule_funcs():
        if f.mod.name != CORE or f.name != '__reduce__' or f.cls is None: continue
        for r_ in [x.value for x in walk_no_nested(f.node) if isinstance(x, ast.Return) and isinstance(x.value, ast.Tuple) and x.value.elts and isinstance(x.value.elts[0], ast.Name)]:
            callee = repo.fn_opt(CORE, r_.elts[0].id)
            if callee is None or callee.cls is not None: continue
            nred += 1
            loads = {n_.id for n_ in ast.walk(callee.node) if isinstance(n_, ast.Name) and isinstance(n_.ctx, ast.Load)}
            unused = [p_ for p_ in callee.params if p_ not in loads]
            ctx.ob('C31-ARGS.unpickling-function-uses-everything-it-was-given', callee, callee.node, not unused,
                   '' if not unused else '%s never reads its parameter %s: that part of what %s.__reduce__ pickled is dropped on the way back' % (callee.name, unused, f.cls.name), node=callee.node)
    ctx.floor('C31-ARGS', nred, 3, '__reduce__ methods naming a module-level unpickling function')
    us = repo.fn(CORE, 'unpickle_setwrapper'); gu = cg.cfg(us)
    marks_ = [x for x in gu.nodes if x.kind == 'stmt' and isinstance(x.ast, ast.Assign) and any(isinstance(t, ast.Attribute) and t.attr == 'is_fully_loaded' for t in x.ast.targets)
              and isinstance(x.ast.value, ast.Constant) and x.ast.value.value is True]
    ctx.need(marks_ and len(us.params) >= 3, 'C31-ARGS: unpickle_setwrapper no longer marks the collection as fully loaded')
    itemsp = us.params[2]
    derived = {itemsp}
    for _ in range(3):
        for st in walk_no_nested(us.node):
            if isinstance(st, ast.Assign) and any(isinstance(n_, ast.Name) and n_.id in derived for n_ in ast.walk(st.value)):
                derived |= {t.id for t in st.targets if isinstance(t, ast.Name)}
    def fills(n):
        if n.kind != 'stmt' or n.ast is None: return False
        a = n.ast
        if isinstance(a, ast.AugAssign) and isinstance(a.target, ast.Name) and any(isinstance(x, ast.Name) and x.id in derived for x in ast.walk(a.value)): return True
        return any(isinstance(c.func, ast.Attribute) and c.func.attr in ('update', 'add', '__ior__') and any(isinstance(x, ast.Name) and x.id in derived for a_ in c.args for x in ast.walk(a_)) for c in n.calls())
    fill_nodes = [n for n in gu.nodes if fills(n)]
    def nonempty(text, node):
        if isinstance(node, ast.Name) and node.id in derived: return True          # scenario: there are pickled items the session does not know yet
        return None
    eo_u = scenario_edges(gu, us.node, nonempty, resolve=False)
    for m_ in marks_:
        ok = bool(fill_nodes) and gu.dominated(m_, fill_nodes, edge_ok=eo_u)
        ctx.ob('C31-ARGS.collection-is-fully-loaded-only-with-the-pickled-items', us, m_.ast, ok,
               '' if ok else 'unpickle_setwrapper declares the collection fully loaded without having put the pickled items into it: the unpickled collection is empty and the session '
               'answers len() / count() / `in` for the owner from that empty state', node=m_.ast)
    # ---------------------------------------------------------------- FIRSTCOL
    # a raw primary key is a tuple of *column* values.  Reporting only its first column (`pk[0]`) is injective exactly when the key has one column:
    # under the scenario "the key has several columns" no `<raw key>[0]` is reachable.  The number of key *attributes* is another thing -- one
    # attribute that refers to an entity with a composite key has several columns (_pk_is_composite_ is False for it).
    from ..loader import parents as _parents
    from ..typestate import eval_test as _ev
    nfc = 0
    def with_nested(fs):
        for f_ in fs:
            yield f_
            yield from with_nested(getattr(f_, 'nested', {}).values())
    seen_fc = set()
    for f in with_nested([f_ for f_ in repo.rule_funcs() if f_.mod.name in (CORE, SER)]):
        if id(f.node) in seen_fc: continue
        seen_fc.add(id(f.node))
        if not any(isinstance(c.func, ast.Attribute) and c.func.attr == '_get_raw_pkval_' for c in calls_in(f.node)): continue
        def is_raw_call(e): return isinstance(e, ast.Call) and isinstance(e.func, ast.Attribute) and e.func.attr == '_get_raw_pkval_'
        raw_vars = {t.id for st in ast.walk(f.node) if isinstance(st, ast.Assign) and is_raw_call(st.value) for t in st.targets if isinstance(t, ast.Name)}
        subs = [x for x in ast.walk(f.node) if isinstance(x, ast.Subscript) and isinstance(x.slice, ast.Constant) and x.slice.value == 0 and isinstance(x.ctx, ast.Load)
                and (is_raw_call(x.value) or isinstance(x.value, ast.Name) and x.value.id in raw_vars)]
        pm = _parents(f.node)
        def own(x):                     # not inside a nested def (those are functions of their own)
            y = x
            while y in pm:
                y = pm[y]
                if isinstance(y, (ast.FunctionDef, ast.AsyncFunctionDef, ast.Lambda)) and y is not f.node: return False
            return True
        subs = [x for x in subs if own(x)]
        if not subs: continue
        g = cg.cfg(f)
        def many(text, node):
            if isinstance(node, ast.Compare) and len(node.ops) == 1 and isinstance(node.left, ast.Call) and dotted(node.left.func) == 'len' and len(node.left.args) == 1 \
                    and isinstance(node.comparators[0], ast.Constant) and isinstance(node.comparators[0].value, int):
                a0 = node.left.args[0]
                if isinstance(a0, ast.Name) and a0.id in raw_vars or is_raw_call(a0) or (dotted(a0) or '').endswith('_pk_columns_'):
                    k = node.comparators[0].value
                    vals = {{ast.Eq: n_ == k, ast.NotEq: n_ != k, ast.Gt: n_ > k, ast.GtE: n_ >= k, ast.Lt: n_ < k, ast.LtE: n_ <= k}.get(type(node.ops[0])) for n_ in (2, 3)}
                    if len(vals) == 1: return vals.pop()
            return None
        eo = scenario_edges(g, f.node, many, resolve=True)
        live = g.reach([g.entry], edge_ok=eo)
        for sb in subs:
            nfc += 1
            reachable = True
            y = sb
            while y in pm and not isinstance(pm[y], ast.stmt):
                p_ = pm[y]
                if isinstance(p_, ast.IfExp) and y is not p_.test:
                    v_ = _ev(p_.test, many)
                    if v_ is not None and v_ != (y is p_.body): reachable = False
                y = p_
            st_ = pm.get(y)
            if reachable and st_ is not None:
                nodes_ = [n_ for n_ in g.nodes if n_.ast is not None and any(z is sb for z in n_.walk())]
                if nodes_ and not any(n_.id in live for n_ in nodes_): reachable = False
            ctx.ob('C31-FIRSTCOL.first-column-stands-for-the-key-only-when-the-key-has-one-column', f, sb, not reachable,
                   '' if not reachable else '`%s` can be taken for a key with several columns (the guard does not test the number of key columns / the length of the raw key): '
                   'objects whose keys share the first column are reported under one key and overwrite each other' % norm(sb), node=sb)
    ctx.floor('C31-FIRSTCOL', nfc, 5, 'first-column reductions of a raw primary key')
    # ---------------------------------------------------------------- GIVEN
    # "report ... the objects given": every object put into the bag is processed in full (with its collections) whatever was visited before it, and a
    # visit of a *related* object (attribute values only) never replaces an entry that exists.  The scratch table is a table of tables,
    # bag.dicts[<entity>][<object>]: a membership test on bag.dicts itself asks for an entity, not for the object, and is vacuous.
    td = repo.fn(SER, 'Bag.to_dict'); gt = cg.cfg(td)
    loops_g = [x for x in gt.nodes if x.kind == 'iter' and any(isinstance(a_, ast.Attribute) and a_.attr == 'objects' for a_ in ast.walk(x.ast.iter))]
    ctx.need(loops_g, 'C31-GIVEN: the loop over bag.objects in Bag.to_dict was not found')
    inner_g = [x for x in gt.nodes if x.kind == 'iter' and x not in loops_g and any(x.ast in ast.walk(L.ast) for L in loops_g)]
    full = nodes_calling(gt, lambda c: isinstance(c.func, ast.Attribute) and c.func.attr == '_process_object' and len(c.args) == 1 and not c.keywords)
    for L in inner_g or loops_g:
        starts = [y for y, lab in gt.succ[L.id] if lab == 'loop']
        r_ = gt.reach(starts, avoid=full, edge_ok=lambda x, y, lab: lab != 'exc')
        ok = bool(full) and L.id not in r_
        ctx.ob('C31-GIVEN.every-object-given-is-processed-in-full', td, L.ast, ok,
               '' if ok else 'an iteration over the objects given can end without bag._process_object(obj): an object that was entered before as a related object of another one '
               '(attribute values only) is reported without its collections -- to_dict([student, group]) and to_dict([group, student]) differ', node=L.ast)
    po = repo.fn(SER, 'Bag._process_object'); gp_ = cg.cfg(po)
    partial = [(x, c) for x in gp_.nodes if x.ast is not None for c in x.calls() if isinstance(c.func, ast.Attribute) and c.func.attr == '_process_object'
               and any(k.arg == 'process_related' and isinstance(k.value, ast.Constant) and k.value.value is False for k in c.keywords)]
    ctx.need(partial, 'C31-GIVEN: the visits of related objects in Bag._process_object were not found')
    for x, c in partial:
        arg = norm(c.args[0]) if c.args else '?'
        def absent(text, node, arg=arg):
            if isinstance(node, ast.Compare) and len(node.ops) == 1 and isinstance(node.ops[0], (ast.In, ast.NotIn)) and norm(node.left) == arg:
                cont = resolve_local(po.node, node.comparators[0])       # `seen = bag.dicts[cls]; if obj not in seen`
                per_entity = isinstance(cont, ast.Subscript) and (dotted(cont.value) or '').endswith('.dicts')
                if per_entity: return isinstance(node.ops[0], ast.In)          # scenario: the object has an entry already
            return None
        live_ = gp_.reach([gp_.entry], edge_ok=scenario_edges(gp_, po.node, absent, resolve=True))
        ok = x.id not in live_
        ctx.ob('C31-GIVEN.related-visit-never-replaces-an-entry', po, c, ok,
               '' if ok else 'with `%s` already in the scratch table the partial visit `%s` is still reachable (no membership test on bag.dicts[<its entity>]): it replaces the full entry of '
               'an object that was given by one without collections' % (arg, norm(c)[:60]), node=x.ast).key += '::' + arg
    # ---------------------------------------------------------------- MIX
    pu = repo.fn(SER, 'Bag._put_object'); g = cg.cfg(pu)
    for want in ('bag.database.entities.get(entity.__name__) is not entity', 'obj._session_cache_ is not cache'):
        ts_ = [t for t in g.nodes if t.kind == 'test' and norm(t.ast) == want]
        ok = bool(ts_) and all(g.exit.id not in g.reach([y for y, lab in g.succ[t.id] if lab == 'T']) for t in ts_)
        ctx.ob('C31-MIX.foreign-object-rejected', pu, want, ok, '' if ok else 'Bag._put_object no longer rejects `%s`' % want)
    # ---------------------------------------------------------------- INCLUDE
    # to_json(include=[...]): an attribute the caller asked for explicitly (and did not exclude) is never skipped by the attribute filter --
    # under `attr in include` and `attr not in exclude` no `continue` of the attribute loop is reachable before the value is read
    from ..typestate import eval_test
    tj = repo.fn(CORE, 'Database.to_json'); g = cg.cfg(tj)
    loops = [x for x in g.nodes if x.kind == 'iter' and norm(x.ast.iter).endswith('._attrs_') and any('include' in norm(t) for t in ast.walk(x.ast) if isinstance(t, ast.Compare))]
    ctx.need(len(loops) >= 1, 'C31-INCLUDE: attribute loop with an include filter not found in Database.to_json')
    for L in loops:
        av = norm(L.ast.target)
        def atom(text, node):
            t = text.replace(' ', '')
            if t == av + 'inexclude': return False
            if t == av + 'ininclude': return True
            if t == av + 'notininclude': return False
            if t == av + 'notinexclude': return True
            return None
        def edge_ok(x, y, lab):
            n_ = g.nodes[x]
            if n_.kind != 'test' or lab not in ('T', 'F'): return True
            v = eval_test(n_.ast, atom)
            return v is None or v == (lab == 'T')
        body_first = [x for x in g.nodes if x.stmt is L.ast.body[0]][:1]
        reads = [x for x in nodes_calling(g, lambda c: isinstance(c.func, ast.Attribute) and c.func.attr == '__get__') if any(x.ast in ast.walk(b) or x.stmt is b for b in L.ast.body)]
        conts = [x for x in g.nodes if x.kind == 'stmt' and isinstance(x.ast, ast.Continue) and any(x.ast in ast.walk(b) for b in L.ast.body)]
        r = g.reach(body_first, avoid=reads, edge_ok=edge_ok)
        bad = [c for c in conts if c.id in r]
        ctx.ob('C31-INCLUDE.explicitly-included-attribute-is-reported', tj, bad[0].ast if bad else L.ast.iter, bool(reads) and not bad,
               '' if (reads and not bad) else 'an attribute listed in include= can still be skipped (`continue` at line %d is reachable with `%s in include`): to_json silently '
               'leaves out a value the caller asked for' % (bad[0].lineno if bad else 0, av), node=bad[0].ast if bad else L.ast)
    # only= / exclude= may be given as one comma/space separated string: after the split, nothing tests membership in (or iterates over) the raw
    # string -- `attr.name not in 'nickname, video_url'` is a substring test and also drops `name`, `id`, `video`, ...
    from ..q import reaching_defs, value_of_def
    ga = repo.fn(CORE, 'EntityMeta._get_attrs_'); g = cg.cfg(ga)
    nnames = 0
    for P in ('only', 'exclude'):
        if P not in ga.params: continue
        def s_atom(text, node, P=P):
            if isinstance(node, ast.Call) and dotted(node.func) == 'isinstance' and len(node.args) == 2 and dotted(node.args[0]) == P and dotted(node.args[1]) == 'str': return True
            if text == P: return True
            return None
        eo = scenario_edges(g, ga.node, s_atom, resolve=False)
        live = g.reach([g.entry], edge_ok=eo)
        for u in g.nodes:
            if u.id not in live or u.ast is None: continue
            root = u.ast.test if (u.kind == 'test' and hasattr(u.ast, 'test')) else (u.ast.iter if u.kind == 'iter' else u.ast)
            if u.kind not in ('stmt', 'test', 'iter') or isinstance(root, (ast.If, ast.For, ast.While, ast.Try, ast.With, ast.FunctionDef)): continue
            uses = [x for x in ast.walk(root) if (isinstance(x, ast.Compare) and len(x.ops) == 1 and isinstance(x.ops[0], (ast.In, ast.NotIn)) and dotted(x.comparators[0]) == P)
                    or (isinstance(x, ast.comprehension) and dotted(x.iter) == P)]
            if u.kind == 'iter' and dotted(root) == P: uses.append(root)
            if not uses: continue
            nnames += 1
            ds = reaching_defs(g, u, P, with_params=True, edge_ok=eo)
            raw = [d for d in ds if not (value_of_def(d, P) is not None and any(isinstance(c, ast.Call) and isinstance(c.func, ast.Attribute) and c.func.attr == 'split' for c in ast.walk(value_of_def(d, P))))]
            ok = bool(ds) and not raw
            ctx.ob('C31-INCLUDE.name-list-given-as-string-is-split-before-use', ga, u.ast if u.kind != 'iter' else root, ok,
                   '' if ok else 'with %s given as a string, `%s` still sees the unsplit string: membership becomes a substring test (or iteration goes over characters), so '
                   'attributes that were not named are dropped from / added to the serialised object' % (P, norm(uses[0] if not isinstance(uses[0], ast.comprehension) else uses[0].iter)[:60]),
                   node=u.ast if u.kind != 'iter' else None)
    ctx.floor('C31-INCLUDE', nnames, 3, 'uses of the only/exclude name lists in _get_attrs_')


MUTANTS = [
    dict(id='C31-names', file='pony/orm/core.py', fn='EntityMeta._get_attrs_', old="                if isinstance(only, str): only = only.replace(',', ' ').split()", new="                if isinstance(only, str) and ',' in only: only = only.replace(',', ' ').split()", expect='C31-INCLUDE.name-list'),
    dict(id='C31-i1', file='pony/orm/core.py', fn='Database.to_json', old="                    if attr in exclude: continue\n                    if attr in include: pass\n", new="                    if attr in exclude or attr.lazy: continue\n                    if attr in include: pass\n", expect='C31-INCLUDE'),
    dict(id='C31-m1', file='pony/orm/serialization.py', fn='Bag._reduce_composite_pk', old=".replace('*', '**').replace(',', '*,')", new=".replace(',', '*,').replace('*', '**')", expect='C31-ESC'),
    dict(id='C31-m2', file='pony/orm/serialization.py', fn='Bag._reduce_composite_pk', old=".replace('*', '**').replace(',', '*,')", new=".replace(',', '*,')", expect='C31-ESC'),
    dict(id='C31-m3', file='pony/orm/serialization.py', fn='Bag.to_dict', old='    def to_dict(bag):\n        bag.dicts.clear()\n', new='    def to_dict(bag):\n', expect='C31-FRESH.scratch-table-cleared-before'),
    dict(id='C31-m4', file='pony/orm/core.py', fn='Entity.to_dict', old='        if cache is not None and cache.is_alive and cache.modified: cache.flush()\n', new='', expect='C31-FLUSH'),
    dict(id='C31-args1', file='pony/orm/core.py', fn='unpickle_setwrapper', old="    new_items = set(items) - setdata\n    if new_items:\n        setdata |= new_items\n        if attr.reverse.is_collection: attr.reverse.db_reverse_add(new_items, obj)\n", new="", expect='C31-ARGS'),
    dict(id='C31-giv1', file='pony/orm/serialization.py', fn='Bag.to_dict', old="                bag._process_object(obj)  # in full, also when it was entered as a related object of another one before", new="                if obj not in bag.dicts[entity]: bag._process_object(obj)", expect='C31-GIVEN.every-object'),
    dict(id='C31-giv2', file='pony/orm/serialization.py', fn='Bag._process_object', old="                        if related_obj not in bag.dicts[related_obj.__class__]:", new="                        if related_obj not in bag.dicts:", expect='C31-GIVEN.related-visit'),
    dict(id='C31-giv3', file='pony/orm/serialization.py', fn='Bag._process_object', old="                    if process_related_objects and value not in bag.dicts[value.__class__]:", new="                    if process_related_objects:", expect='C31-GIVEN.related-visit'),
    dict(id='C31-giv4', file='pony/orm/serialization.py', fn='Bag._process_object', old="                        if related_obj not in bag.dicts[related_obj.__class__]:", new="                        seen = bag.dicts[related_obj.__class__]\n                        if related_obj not in seen:", benign=True),
    dict(id='C31-fc4', file='pony/orm/serialization.py', fn='Bag._process_object', old="                if len(attr.reverse.entity._pk_columns_) > 1:", new="                if attr.reverse.entity._pk_is_composite_:", expect='C31-FIRSTCOL'),
    dict(id='C31-fc1', file='pony/orm/serialization.py', fn='Bag.to_dict', old="            composite_pk = len(entity._pk_columns_) > 1", new="            composite_pk = entity._pk_is_composite_", expect='C31-FIRSTCOL'),
    dict(id='C31-fc2', file='pony/orm/serialization.py', fn='Bag.to_dict', old="            composite_pk = len(entity._pk_columns_) > 1", new="            composite_pk = len(entity._pk_columns_) != 1", benign=True),
    dict(id='C31-fc3', file='pony/orm/core.py', fn='Entity.to_dict', old="                if len(value) == 1: value = value[0]", new="                if not attr.reverse.entity._pk_is_composite_: value = value[0]", expect='C31-FIRSTCOL'),
    dict(id='C31-cyc1', file='pony/orm/core.py', fn='Entity.__reduce__', old="        return unpickle_entity_by_pk, (obj.__class__, obj._pkval_), state", new="        state['__class__'] = obj.__class__\n        return unpickle_entity, (state,)", expect='C31-CYCLE'),
    dict(id='C31-cyc2', file='pony/orm/core.py', fn='Entity.__setstate__', old="        obj._db_set_({obj._adict_[attrname]: val for attrname, val in state.items()}, unpickling=True)", new="        pass", expect='C31-PICKLE.unpickle-goes-through'),
    dict(id='C31-cyc3', file='pony/orm/core.py', fn='unpickle_entity_by_pk', old="    return entity._get_from_identity_map_(pkval, 'loaded')", new="    obj = object.__new__(entity); obj._pkval_ = pkval; obj._status_ = 'loaded'\n    return obj", expect='C31-PICKLE.unpickle-goes-through'),
    dict(id='C31-m5', file='pony/orm/core.py', fn='Entity.__reduce__', old="        if obj._status_ in ('created', 'modified'): throw(", new="        if obj._status_ in ('created',): throw(", expect='C31-PICKLE'),
    dict(id='C31-m6', file='pony/orm/serialization.py', fn='Bag._put_object', old="        elif obj._session_cache_ is not cache: throw(TransactionError,\n            'An attempt to mix objects belonging to different transactions')\n", new='', expect='C31-MIX'),
    dict(id='C31-m7', file='pony/orm/serialization.py', fn='Bag._reduce_composite_pk', old="return ','.join(", new="return ';'.join(", expect='C31-ESC'),
]
