"""C08  Validation enforces declared attribute constraints."""
import ast
from ..loader import calls_in, dotted, walk_no_nested, norm, head, parents, stmts_of
from ..q import nodes_calling, reaching_defs, value_of_def

EXPLANATION = """
Static clauses decided (necessary conditions of C08):
 TRUTH  contradiction rule (Engler): an optional numeric bound -- a name that the same module tests with
        `is None` / `is not None` (so None means "not declared") and for which there is numeric evidence (ordering
        comparison, float()/Decimal() conversion, isinstance(.., int_types)) -- must never be tested by truthiness
        (`if b`, `b and ..`, `b or default`, `not b`): a declared bound equal to 0 would be treated as absent and not
        enforced.  Names are followed through `converter.<name> = <name>` stores into sibling methods.
 TRUST  `from_db=True` means "this value comes from the database, skip the declared checks".  The flag is never switched on for
        program-supplied values: (1) a function that itself has a from_db parameter forwards it (or False) to every callee that
        accepts one -- never a constant True, never the callee's default when that default is True; (2) a call that relies on a
        default of True passes a value read from a cursor row.
 SAMEVAL the value that is checked is the value that is kept: in every converter's validate(), after a test of the value against a
        declared bound (min_val / max_val / max_len) the value variable is not re-bound (quantize, strip, round, convert) on a path to
        the return -- normalisation comes first, otherwise a value is rejected (or accepted) for what it was before normalisation.
 CHECK  Attribute.validate applies the user's py_check on every path that returns a converted non-None value, and
        Required.validate rejects '' and None.
 RANGE  IntConverter.validate / RealConverter.validate / DecimalConverter.validate compare the value with both
        min_val and max_val and throw on violation; IntConverter.init derives lowest/highest from size and unsigned.
"""
NOT_DECIDED = "that every in-range value is accepted; normalisation details (strip, quantize)"

SCOPE_QUICK = ('pony/orm/dbapiprovider.py', 'pony/orm/dbproviders/')

# (function qualname, name) -> reason   -- truthiness use that is intentional
EXCEPTIONS = {
    ('IntConverter.init', 'size'): "size was validated to be one of 8,16,24,32,64 (or None); 0 cannot occur",
    ('StrConverter.sql_type', 'max_len'): "DDL choice only: 0 or None -> TEXT column; no value check depends on it",
    ('OraStrConverter.sql_type', 'max_len'): "DDL choice only (VARCHAR2 vs CLOB)",
    ('MySQLStrConverter.sql_type', 'max_len'): "DDL choice only",
    ('PGStrConverter.sql_type', 'max_len'): "DDL choice only",
}


def bound_names(mods):
    """names with None-check evidence and numeric evidence, per module"""
    res = {}
    for mod in mods:
        nonecheck, numeric = {}, {}
        for n in ast.walk(mod.tree):
            if isinstance(n, ast.Compare):
                ops = n.ops; operands = [n.left] + list(n.comparators)
                for i, op in enumerate(ops):
                    a, b = operands[i], operands[i + 1]
                    if isinstance(op, (ast.Is, ast.IsNot)):
                        for x, y in ((a, b), (b, a)):
                            if isinstance(y, ast.Constant) and y.value is None:
                                nm = leaf(x)
                                if nm: nonecheck.setdefault(nm, n)
                    if isinstance(op, (ast.Lt, ast.Gt, ast.LtE, ast.GtE)):
                        for x in (a, b):
                            nm = leaf(x)
                            if nm: numeric.setdefault(nm, n)
            elif isinstance(n, ast.Assign) and isinstance(n.value, ast.Call) and isinstance(n.value.func, ast.Name) \
                    and n.value.func.id in ('float', 'Decimal', 'int'):
                for t in n.targets:
                    nm = leaf(t)
                    if nm: numeric.setdefault(nm, n)
            elif isinstance(n, ast.Call) and isinstance(n.func, ast.Name) and n.func.id == 'isinstance' and len(n.args) == 2:
                if 'int' in norm(n.args[1]) or 'float' in norm(n.args[1]) or 'Decimal' in norm(n.args[1]):
                    nm = leaf(n.args[0])
                    if nm: numeric.setdefault(nm, n)
        res[mod.name] = {k for k in nonecheck if k in numeric}
    return res


def leaf(x):
    if isinstance(x, ast.Name): return x.id
    if isinstance(x, ast.Attribute) and isinstance(x.value, ast.Name): return x.attr
    return None


def truth_uses(fn_node):
    """(node, name) for every name/attribute used directly as a truth value"""
    out = []
    def tv(e, top):
        if isinstance(e, ast.BoolOp):
            for v in e.values: tv(v, top)
        elif isinstance(e, ast.UnaryOp) and isinstance(e.op, ast.Not): tv(e.operand, top)
        else:
            nm = leaf(e)
            if nm: out.append((top, e, nm))
    for n in walk_no_nested(fn_node):
        if isinstance(n, (ast.If, ast.While, ast.IfExp)): tv(n.test, n)
        elif isinstance(n, ast.BoolOp):
            for v in n.values[:-1] if isinstance(n.op, (ast.And, ast.Or)) else []:
                tv(v, n)
        elif isinstance(n, ast.UnaryOp) and isinstance(n.op, ast.Not): tv(n.operand, n)
        elif isinstance(n, ast.Assert): tv(n.test, n)
    seen = set(); res = []
    for top, e, nm in out:
        if id(e) in seen: continue
        seen.add(id(e)); res.append((top, e, nm))
    return res


def decimal_norm_rule(ctx, prefix='C08-NORM'):
    """DecimalConverter.validate brings every accepted value to the scale the column stores (quantize), whatever the type it arrived in: the value
    kept in the session (and used as identity-map / unique-index key) is then equal to what the database hands back.  Scenario: a scale is
    declared and the value is finite; the type tests are left open -- every path to a normal return passes quantize()."""
    from ..typestate import scenario_edges
    repo, cg = ctx.repo, ctx.cg
    f = repo.fn('pony.orm.dbapiprovider', 'DecimalConverter.validate'); g = cg.cfg(f)
    q = [x for x in g.nodes if x.kind == 'stmt' and x.ast is not None and any(isinstance(c.func, ast.Attribute) and c.func.attr == 'quantize' for c in x.calls())]
    def atom(text, node):
        t = text.replace(' ', '')
        if t.endswith('expisnotNone') or t.endswith('.expisnotNone'): return True
        if t.endswith('expisNone'): return False
        if t.endswith('.is_finite()'): return True
        return None
    eo = scenario_edges(g, f.node, atom)
    ok = bool(q) and g.must_pass_after(g.entry, q, exits=[g.exit], edge_ok=eo)
    ctx.ob(prefix + '.decimal-normalised-to-the-stored-scale-for-every-input-type', f, q[0].ast if q else f.node, ok,
           '' if ok else 'DecimalConverter.validate can return a finite value of an attribute with a declared scale without quantize(): e.g. a Decimal with more fractional '
           'digits than the scale is kept as given, the database stores the rounded value, and the identity map / unique index holds a key that never matches the row')


def run(ctx):
    repo, cg = ctx.repo, ctx.cg
    decimal_norm_rule(ctx)
    repo.mod('pony.orm.dbapiprovider')
    mods = [m for m in repo.rule_modules() if any(m.rel.startswith(s) for s in SCOPE_QUICK)]
    conv = repo.cls('pony.orm.dbapiprovider', 'Converter')
    conv_classes = set(repo.subclasses(conv))
    ctx.floor('C08-TRUTH', len(conv_classes), 25, 'converter classes (all dialects)')
    for m in mods: repo.consulted.add(m.name)
    bn = bound_names(mods)
    total_bounds = sum(len(v) for v in bn.values())
    ctx.floor('C08-TRUTH', len(bn.get('pony.orm.dbapiprovider', ())), 4, 'optional numeric bound names in dbapiprovider')
    n_uses = 0
    for fn in repo.rule_funcs():
        if fn.mod.name not in bn or not bn[fn.mod.name]: continue
        if fn.mod not in mods or fn.cls not in conv_classes: continue
        names = bn[fn.mod.name]
        for top, e, nm in truth_uses(fn.node):
            if nm not in names: continue
            # the same name must have numeric use in *this* class hierarchy or function to be a bound here
            n_uses += 1
            qual = fn.qual.split('.<locals>.')[0]
            exc = EXCEPTIONS.get((qual, nm))
            if exc:
                ctx.exception('C08-TRUTH', '%s:%s' % (qual, nm), exc)
                ctx.ob('C08-TRUTH.bound-not-tested-by-truthiness', fn, top, True, 'excepted: ' + exc, node=e, nontrivial=False)
                continue
            ctx.ob('C08-TRUTH.bound-not-tested-by-truthiness', fn, top, False,
                   '`%s` is an optional numeric bound (tested with `is None` elsewhere in %s) but is used as a truth '
                   'value here: a declared bound of 0 is treated as "no bound"' % (norm(e), fn.mod.rel), node=e,
                   expected='`%s is not None`' % norm(e))
    # every None-checked use is a discharged obligation too (the rule's positive instances)
    for fn in repo.rule_funcs():
        if fn.mod not in mods or fn.cls not in conv_classes: continue
        names = bn.get(fn.mod.name, ())
        for n in walk_no_nested(fn.node):
            if isinstance(n, ast.Compare) and len(n.ops) == 1 and isinstance(n.ops[0], (ast.Is, ast.IsNot)) \
                    and isinstance(n.comparators[0], ast.Constant) and n.comparators[0].value is None and leaf(n.left) in names:
                ctx.ob('C08-TRUTH.bound-not-tested-by-truthiness', fn, n, True, node=n, nontrivial=True)
    ctx.count('C08-TRUTH: truthiness uses of bound names examined', n_uses)

    # ------------------------------------------------------------ RANGE
    for cname, lo, hi in (('IntConverter', 'min_val', 'max_val'), ('RealConverter', 'min_val', 'max_val'),
                          ('DecimalConverter', 'min_val', 'max_val')):
        fn = repo.fn('pony.orm.dbapiprovider', cname + '.validate')
        g = cg.cfg(fn); recv = fn.recv
        from ..q import alias_map, deref
        am = alias_map(fn.node)
        for bname, ops in ((lo, (ast.Lt,)), (hi, (ast.Gt,))):
            rops = (ast.Gt,) if ops == (ast.Lt,) else (ast.Lt,)          # `bound > val` is the same test as `val < bound`
            tests = [t for t in g.nodes if t.kind == 'test' and any(
                isinstance(c, ast.Compare) and len(c.ops) == 1 and (
                    (isinstance(c.ops[0], ops) and deref(fn.node, c.comparators[0], am) == '%s.%s' % (recv, bname)) or
                    (isinstance(c.ops[0], rops) and deref(fn.node, c.left, am) == '%s.%s' % (recv, bname))) for c in ast.walk(t.ast))]
            ok = bool(tests)
            detail = '' if ok else 'no comparison of the value with %s.%s' % (recv, bname)
            for t in tests:
                ts = [y for y, lab in g.succ[t.id] if lab == 'T']
                if g.exit.id in g.reach(ts): ok = False; detail = 'violating the %s bound does not raise' % bname
            # the check must be reached on every path that returns normally
            if ok and not g.must_pass_after(g.entry, tests):
                ok = False; detail = 'validate can return without comparing against %s' % bname
            ctx.ob('C08-RANGE.compares-and-throws', fn, tests[0].stmt if tests else fn.node, ok, detail)

    # ------------------------------------------------------------ TRUST
    accept = {}                      # method name -> (index of from_db among params without receiver, default)
    for fn in repo.rule_funcs():
        if fn.mod.name != 'pony.orm.core' or 'from_db' not in fn.params: continue
        a = fn.node.args; names = [x.arg for x in a.args]
        i = names.index('from_db'); nd = len(a.defaults); d = a.defaults[i - (len(names) - nd)] if i >= len(names) - nd else None
        accept.setdefault(fn.name, set()).add((i - 1, d.value if isinstance(d, ast.Constant) else None))
    n1 = n2 = 0
    for fn in repo.rule_funcs():
        if fn.mod.name != 'pony.orm.core': continue
        for c in calls_in(fn.node):
            if not (isinstance(c.func, ast.Attribute) and c.func.attr in accept): continue
            if c.func.attr == 'validate' and not any(k.arg == 'from_db' for k in c.keywords) and len(c.args) < 4 and 'from_db' not in fn.params: continue
            unbound = isinstance(c.func.value, ast.Name) and c.func.value.id[:1].isupper()      # Attribute.validate(attr, ...): receiver passed explicitly
            idxs = {i for i, _ in accept[c.func.attr]}; dflts = {d for _, d in accept[c.func.attr]}
            given = [k.value for k in c.keywords if k.arg == 'from_db'] + [c.args[i + (1 if unbound else 0)] for i in idxs if len(c.args) > i + (1 if unbound else 0)]
            if 'from_db' in fn.params:
                n1 += 1
                if given: ok = all((isinstance(g_, ast.Name) and g_.id == 'from_db') or (isinstance(g_, ast.Constant) and g_.value is False) for g_ in given)
                else: ok = True not in dflts
                ctx.ob('C08-TRUST.from_db-forwarded', fn, c, ok, '' if ok else '%s has a from_db parameter but calls %s(...) with %s: a program-supplied value that reaches this call '
                       'is treated as a trusted database value and the declared checks (range, length, strip) are skipped'
                       % (fn.qual, c.func.attr, 'from_db=%s' % norm(given[0]) if given else 'the default from_db=True'), node=c, expected='from_db=from_db')
            elif not given and True in dflts:
                n2 += 1
                src = norm(c.args[0]) if c.args else ''
                ok = any(w in src for w in ('row', 'dbvals'))
                ctx.ob('C08-TRUST.default-trust-only-for-database-rows', fn, c, ok, '' if ok else '%s(%s) relies on the default from_db=True for a value that is not a cursor row'
                       % (c.func.attr, src), node=c, expected='from_db=False for program-supplied values')
    ctx.floor('C08-TRUST', n1, 4, 'forwarding call sites in functions with a from_db parameter')
    ctx.floor('C08-TRUST', n2, 8, 'call sites relying on the default from_db=True')
    # ------------------------------------------------------------ SAMEVAL
    nsv = 0
    for fn in repo.rule_funcs():
        if fn.name != 'validate' or fn.cls is None or not fn.cls.name.endswith('Converter') or len(fn.params) < 2: continue
        v = fn.params[1]
        g = cg.cfg(fn)
        from ..q import alias_map
        am_sv = alias_map(fn.node)
        bound_aliases = {n_ for n_, src in am_sv.items() if src.split('.')[-1] in ('min_val', 'max_val', 'max_len')}
        tests = [t for t in g.nodes if t.kind == 'test' and (any(isinstance(a, ast.Attribute) and a.attr in ('min_val', 'max_val', 'max_len') for a in t.walk())
                                                              or any(isinstance(a, ast.Name) and a.id in bound_aliases for a in t.walk()))
                 and any(isinstance(a, ast.Name) and a.id == v for a in t.walk())]
        if not tests: continue
        nsv += 1
        rebinds = [x for x in g.nodes if x.kind == 'stmt' and isinstance(x.ast, (ast.Assign, ast.AugAssign)) and
                   any(isinstance(t_, ast.Name) and t_.id == v for t_ in (x.ast.targets if isinstance(x.ast, ast.Assign) else [x.ast.target]))]
        after = g.reach(tests, include_src=False)
        bad = [x for x in rebinds if x.id in after and g.exit.id in g.reach([x])]
        ctx.ob('C08-SAMEVAL.value-not-rebound-after-its-bounds-check', fn, bad[0].ast if bad else fn.node, not bad,
               '' if not bad else '%s.validate re-binds `%s` (`%s`) after comparing it with the declared bounds: the bounds are applied to the value before this '
               'normalisation, so a value that satisfies them afterwards is rejected, or one that violates them afterwards is accepted' % (fn.cls.name, v, norm(bad[0].ast)),
               node=bad[0].ast if bad else None, expected='normalise first, then compare with min/max')
    ctx.floor('C08-SAMEVAL', nsv, 3, 'converter validate() functions with bound tests')
    # ------------------------------------------------------------ CHECK
    av = repo.fn('pony.orm.core', 'Attribute.validate')
    g = cg.cfg(av)
    from ..q import alias_map, deref
    am_ = alias_map(av.node)
    pc = nodes_calling(g, lambda c: deref(av.node, c.func, am_) == '%s.py_check' % av.recv)
    conv = nodes_calling(g, lambda c: isinstance(c.func, ast.Attribute) and c.func.attr == 'validate')
    ctx.floor('C08-CHECK', len(conv), 1, 'converter.validate call sites in Attribute.validate')
    for cnode in conv:
        # after a converter.validate call, every path to a normal return passes the py_check test
        ok = bool(pc) and g.must_pass_after(cnode, pc, exits=[g.exit])
        ctx.ob('C08-CHECK.py_check-after-conversion', av, cnode.ast, ok,
               '' if ok else 'a converted value can be returned without applying py_check', node=cnode.ast)
    # a failed check raises: with a py_check given that answers false, no normal return is reachable after the conversion
    from ..typestate import eval_test
    pcn = {'%s.py_check' % av.recv} | {n_ for n_, src in am_.items() if src == '%s.py_check' % av.recv}
    def atom(text, node):
        t_ = text.replace(' ', '')
        for nm in pcn:
            if t_ == nm.replace(' ', '') + 'isNone': return False
            if t_ == nm.replace(' ', '') + 'isnotNone': return True
            if t_.startswith(nm + '('): return False
        return None
    def edge_ok(x, y, lab):
        n_ = g.nodes[x]
        if n_.kind != 'test' or lab not in ('T', 'F'): return True
        v = eval_test(n_.ast, atom)
        return v is None or v == (lab == 'T')
    for cnode in conv:
        ok = g.exit.id not in g.reach([cnode], edge_ok=edge_ok, include_src=False)
        ctx.ob('C08-CHECK.failed-check-raises', av, cnode.ast, ok, '' if ok else 'with a py_check that answers false the value is still returned: a failed check does not raise', node=cnode.ast)
    rv = repo.fn('pony.orm.core', 'Required.validate')
    txt = [norm(t.ast) for t in cg.cfg(rv).nodes if t.kind == 'test']
    ok = any("val == ''" in t for t in txt) and any('val is None' in t for t in txt)
    ctx.ob('C08-CHECK.required-rejects-empty', rv, rv.node, ok, '' if ok else 'Required.validate tests: %s' % txt)
    # ---------------------------------------------------------------- ENTRY
    # "the same holds for creation, assignment, set() and lookups by attribute value": in every entry point that receives program values the value
    # that travels on is the result of attr.validate(...) on every path -- no definition of the variable other than a validate call reaches a later
    # use (a conditional `if changed: val = attr.validate(val)` lets the unvalidated loop variable through)
    ENTRY = ['Attribute.__set__', 'Entity.__init__', 'Entity._keyargs_to_avdicts_', 'EntityMeta._find_one_', 'Set.__set__', 'SetInstance.add', 'SetInstance.remove', 'Query._apply_kwargs']
    nentry = 0
    for qual in ENTRY:
        f = repo.fn_opt('pony.orm.core', qual)
        ctx.need(f is not None, 'C08: entry point %s not found' % qual)
        g = cg.cfg(f)
        vnodes = [x for x in g.nodes if x.kind == 'stmt' and isinstance(x.ast, ast.Assign) and isinstance(x.ast.value, ast.Call)
                  and isinstance(x.ast.value.func, ast.Attribute) and x.ast.value.func.attr == 'validate']
        ctx.need(vnodes, 'C08: %s no longer validates the values it receives' % qual)
        for v in vnodes:
            nentry += 1
            tg = x_ = v.ast.targets[0]
            if not isinstance(tg, ast.Name):
                ctx.ob('C08-ENTRY.value-that-travels-on-is-the-validated-one', f, v.ast, True, 'validated value stored directly', node=v.ast, nontrivial=False); continue
            name = tg.id
            bad = []
            for u in g.nodes:
                if u.ast is None or u is v or u.id not in g.reach([v], include_src=False): continue
                root = u.ast.test if u.kind == 'test' and hasattr(u.ast, 'test') else u.ast
                if u.kind == 'iter': root = u.ast.iter
                if u.kind == 'stmt' and isinstance(u.ast, (ast.Assign, ast.AugAssign, ast.AnnAssign, ast.Expr, ast.Return)): root = u.ast.value if getattr(u.ast, 'value', None) is not None else u.ast
                if not any(isinstance(x, ast.Name) and x.id == name and isinstance(x.ctx, ast.Load) for x in ast.walk(root)): continue
                seen_d = set()
                def unvalidated(at):
                    # definitions reaching `at` that are neither a validate() call nor derived from an already validated value of the same name
                    out = []
                    for d in reaching_defs(g, at, name, with_params=True, with_aug=False):   # `items -= removed` keeps a validated value validated
                        if d.id in seen_d: continue
                        seen_d.add(d.id)
                        val = value_of_def(d, name)
                        if isinstance(val, ast.Call) and isinstance(val.func, ast.Attribute) and val.func.attr == 'validate': continue
                        if val is not None and any(isinstance(x, ast.Name) and x.id == name for x in ast.walk(val)): out += unvalidated(d); continue
                        out.append(d)
                    return out
                bad += [(u, d) for d in unvalidated(u)]
            ok = not bad
            ctx.ob('C08-ENTRY.value-that-travels-on-is-the-validated-one', f, v.ast, ok,
                   '' if ok else '`%s` at line %d can still hold the value bound at line %d, which did not pass through validate(): a path around `%s` lets an unchecked value be stored'
                   % (name, bad[0][0].lineno, getattr(bad[0][1], 'lineno', 0) or f.node.lineno, norm(v.ast)[:70]), node=v.ast)
    ctx.floor('C08-ENTRY', nentry, 6, 'validate() results followed in the entry points')


MUTANTS = [
    dict(id='C08-norm1', file='pony/orm/dbapiprovider.py', fn='DecimalConverter.validate', old="        if exp is not None and val.is_finite(): val = val.quantize(exp)", new="        if exp is not None and val.is_finite() and val.as_tuple().exponent < -converter.scale - 10: val = val.quantize(exp)", expect='C08-NORM'),
    dict(id='C08-entry1', file='pony/orm/core.py', fn='Entity._keyargs_to_avdicts_', old="            new_val = attr.validate(new_val, obj, from_db=False)", new="            if new_val is not None: new_val = attr.validate(new_val, obj, from_db=False)", expect='C08-ENTRY'),
    dict(id='C08-entry2', file='pony/orm/core.py', fn='SetInstance.add', old="            new_items = attr.validate(new_items, obj)\n            if not new_items: return", new="            if not isinstance(new_items, set): new_items = attr.validate(new_items, obj)\n            if not new_items: return", expect='C08-ENTRY'),
    dict(id='C08-sv1', file='pony/orm/dbapiprovider.py', fn='DecimalConverter.validate',
         old="                             % (val, converter.attr, converter.max_val))\n        return val",
         new="                             % (val, converter.attr, converter.max_val))\n        if converter.exp is not None and val.is_finite(): val = val.quantize(converter.exp)\n        return val", expect='C08-SAMEVAL'),
    dict(id='C08-t1', file='pony/orm/core.py', fn='EntityMeta._get_by_raw_pkval_', old="val = attr.py_type._get_by_raw_pkval_(vals, from_db=from_db, seed=seed)", new="val = attr.py_type._get_by_raw_pkval_(vals, seed=seed)", expect='C08-TRUST'),
    dict(id='C08-t2', file='pony/orm/core.py', fn='Attribute.validate', old="rentity._get_by_raw_pkval_(vals, from_db=from_db)", new="rentity._get_by_raw_pkval_(vals)", expect='C08-TRUST'),
    dict(id='C08-t3', file='pony/orm/core.py', fn='Required.validate', old="        val = Attribute.validate(attr, val, obj, entity, from_db)", new="        val = Attribute.validate(attr, val, obj, entity, True)", expect='C08-TRUST'),
    dict(id='C08-m1', file='pony/orm/dbapiprovider.py', fn='IntConverter.validate',
         old='if converter.min_val is not None and val < converter.min_val:', new='if converter.min_val and val < converter.min_val:',
         expect='C08-TRUTH'),
    dict(id='C08-m2', file='pony/orm/dbapiprovider.py', fn='IntConverter.validate',
         old='if converter.max_val is not None and val > converter.max_val:', new='if converter.max_val and val > converter.max_val:',
         expect='C08-TRUTH'),
    dict(id='C08-m3', file='pony/orm/dbapiprovider.py', fn='DecimalConverter.validate',
         old='converter.min_val is not None and', new='converter.min_val and', expect='C08-TRUTH'),
    dict(id='C08-m4', file='pony/orm/dbapiprovider.py', fn='IntConverter.validate',
         old='val > converter.max_val', new='val > converter.max_val + 1', expect='C08-RANGE'),
    dict(id='C08-m5', file='pony/orm/core.py', fn='Attribute.validate',
         old='if attr.py_check is not None and not attr.py_check(val):', new='if False:', expect='C08-CHECK'),
]
