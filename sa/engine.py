"""Rule context, obligations, known-findings bookkeeping, evidence writer, self-test runner, CLI."""
import ast, importlib, json, os, sys, time, traceback, hashlib
from .loader import Repo, AnalysisError, norm, head, unparse
from .callgraph import CallGraph

VERIF = os.path.dirname(os.path.dirname(os.path.abspath(__file__)))
KNOWN = os.path.join(VERIF, 'known_findings.json')
EVID = os.path.join(VERIF, 'evidence')


class Ob:
    """one obligation = one (rule, construct) instance examined by a rule"""
    __slots__ = ('rule', 'key', 'loc', 'ok', 'detail', 'nontrivial', 'construct', 'fn', 'expected')
    def as_dict(self):
        return {k: getattr(self, k) for k in ('rule', 'key', 'loc', 'ok', 'detail', 'construct', 'fn', 'expected')}


class Ctx:
    def __init__(self, prop, repo, cg=None, tier='quick'):
        self.prop, self.repo, self.tier = prop, repo, tier
        self.cg = cg or CallGraph(repo)
        self.obs = []
        self.analysed = {}
        self.notes = []
        self.exceptions = []     # (rule, symbol, reason) exception-table entries actually applied
        self.floor_failures = []  # instance floors not reached: ANALYSIS-ERROR unless a violation is reported anyway

    def ob(self, rule, fn, construct, ok, detail='', node=None, nontrivial=True, expected=''):
        """record an obligation.  fn: Fn or 'rel::qual' string; construct: AST node or str"""
        o = Ob()
        o.rule = rule
        if hasattr(fn, 'full'):
            rel, qual = fn.rel, fn.qual
            where = node if node is not None else (construct if isinstance(construct, ast.AST) else fn.node)
            o.loc = '%s:%d' % (rel, getattr(where, 'lineno', fn.node.lineno))
        else:
            rel, _, qual = str(fn).partition('::')
            o.loc = rel + (':%d' % node.lineno if node is not None and hasattr(node, 'lineno') else '')
        ctext = head(construct) if isinstance(construct, ast.AST) else ' '.join(str(construct).split())
        o.construct = ctext; o.fn = qual
        o.key = '%s::%s::%s::%s' % (rule, rel, qual, ctext)
        o.ok, o.detail, o.nontrivial, o.expected = bool(ok), detail, nontrivial, expected
        self.obs.append(o)
        return o

    def count(self, what, n=1):
        self.analysed[what] = self.analysed.get(what, 0) + n

    def floor(self, rule, found, minimum, what):
        """instance floor: a rule that matches fewer constructs than confirmed by hand is analysis-broken"""
        self.analysed['%s: %s' % (rule, what)] = found
        if found < minimum:
            self.floor_failures.append('%s: found %d %s, hand-confirmed floor is %d (anchor moved or idiom changed; '
                                'the rule would pass vacuously)' % (rule, found, what, minimum))

    def exception(self, rule, symbol, reason):
        self.exceptions.append({'rule': rule, 'symbol': symbol, 'reason': reason})

    def note(self, s): self.notes.append(s)

    def need(self, cond, msg):
        if not cond: raise AnalysisError(msg)


def load_known():
    if not os.path.exists(KNOWN): return []
    with open(KNOWN) as f: return json.load(f)['findings']


def load_rule(prop):
    return importlib.import_module('sa.rules.' + prop)


def analyse(prop, repo=None, tier='quick', cg=None):
    mod = load_rule(prop)
    repo = repo or Repo()
    ctx = Ctx(prop, repo, cg, tier)
    mod.run(ctx)
    # INCLUDES: rule modules of other properties whose clauses are necessary conditions of this (broader) property as well; their
    # obligations keep their own rule ids and keys (so known findings match) but are reported under this property
    for inc in getattr(mod, 'INCLUDES', ()):
        n0 = len(ctx.obs)
        load_rule(inc).run(ctx)
        ctx.analysed['included from %s: obligations' % inc] = len(ctx.obs) - n0
    if not ctx.obs: raise AnalysisError('%s: no obligations produced' % prop)
    return ctx, mod


def run_property(prop, tier='quick', replay=None, root=None, write_evidence=True, quiet=False):
    t0 = time.time()
    seed = int(os.environ.get('VERIF_SEED', '0') or 0)
    out = []
    def emit(s):
        out.append(s)
        if not quiet: print(s, flush=True)
    try:
        repo = Repo(root)
        ctx, mod = analyse(prop, repo, tier)
        st = None
        if tier == 'thorough' and replay is None:
            from . import selftest
            st = selftest.run_for(prop, repo, emit)
    except AnalysisError as e:
        emit('ANALYSIS-ERROR property=%s %s' % (prop, e))
        return 2, out
    except Exception:
        emit('ANALYSIS-ERROR property=%s internal error\n%s' % (prop, traceback.format_exc()))
        return 2, out
    props = {prop} | set(getattr(mod, 'INCLUDES', ()))
    known = [k for k in load_known() if k['property'] in props]
    known_keys = {k['key']: k for k in known if k.get('status') == 'known'}
    failed = [o for o in ctx.obs if not o.ok]
    if replay:
        with open(replay) as f: want = json.load(f)['key']
        failed = [o for o in failed if o.key == want]
    # a known finding is identified by rule + file + function (+ the construct text unless the entry says "match": "function": construct texts
    # change when a local variable is renamed, the finding does not)
    fn_scope = {}
    for k_, e_ in known_keys.items():
        if e_.get('match') == 'function': fn_scope['::'.join(k_.split('::')[:3]) + '::'] = e_
    def known_entry(o):
        if o.key in known_keys: return known_keys[o.key]
        for pre, e_ in fn_scope.items():
            if o.key.startswith(pre): return e_
        return None
    viol, kf = [], []
    for o in failed:
        (kf if known_entry(o) is not None else viol).append(o)
    os.makedirs(os.path.join(EVID, 'replay'), exist_ok=True)
    for o in kf:
        emit('KNOWN-FINDING: property=%s %s [%s at %s]' % (prop, known_entry(o)['what'], o.rule, o.loc))
    for o in viol:
        h = hashlib.sha1(o.key.encode()).hexdigest()[:10]
        rp = os.path.join(EVID, 'replay', '%s-%s.json' % (prop, h))
        with open(rp, 'w') as f:
            json.dump({'property': prop, 'key': o.key, 'rule': o.rule, 'loc': o.loc, 'function': o.fn,
                       'construct': o.construct, 'detail': o.detail, 'expected': o.expected}, f, indent=1)
        emit('VIOLATION property=%s replay=%s' % (prop, rp))
        emit('  rule=%s at %s in %s\n  construct: %s\n  %s' % (o.rule, o.loc, o.fn, o.construct, o.detail))
    stale = [k for k, e_ in known_keys.items() if not any(known_entry(o) is e_ for o in failed)]
    n_ok = sum(1 for o in ctx.obs if o.ok)
    emit('%s: %d obligations, %d discharged, %d known findings, %d violations; analysed: %s' % (
        prop, len(ctx.obs), n_ok, len(kf), len(viol),
        ', '.join('%s=%s' % kv for kv in sorted(ctx.analysed.items()))))
    if st is not None:
        emit('%s self-test: %d mutants, %d detected, %d missed, %d stale' % (
            prop, st['mutants'], st['detected'], len(st['missed']), len(st['stale'])))
    for ff in ctx.floor_failures: emit('FLOOR-NOT-REACHED property=%s %s' % (prop, ff))
    if write_evidence and replay is None and not os.environ.get('VERIF_NO_EVIDENCE'):      # VERIF_NO_EVIDENCE: validation sweeps over scratch roots
        write_ev(prop, mod, ctx, tier, seed, time.time() - t0, viol, kf, st, stale)
    code = 1 if viol else 0
    if not viol and ctx.floor_failures:
        emit('ANALYSIS-ERROR property=%s instance floor not reached (see FLOOR-NOT-REACHED lines)' % prop); code = 2
    if st is not None and (st['missed'] or st['clean_alarm']):
        emit('ANALYSIS-ERROR property=%s checker validation failed: missed=%s clean_alarm=%s' % (prop, st['missed'], st['clean_alarm']))
        code = code or 2
    return code, out


def write_ev(prop, mod, ctx, tier, seed, wall, viol, kf, st, stale):
    obs = ctx.obs
    distinct = len({o.key for o in obs if o.nontrivial})
    samples = []
    seen_rules = set()
    for o in obs:                       # one sample per rule first, then failures
        if o.rule not in seen_rules:
            seen_rules.add(o.rule); samples.append(o.as_dict())
    for o in obs:
        if not o.ok and o.as_dict() not in samples: samples.append(o.as_dict())
    samples = samples[:40]
    rules = sorted(seen_rules)
    cov = {
        'explanation': getattr(mod, 'EXPLANATION', '').strip(),
        'rule': 'obligations are enumerated from the current /repo source: one per (rule, function, construct) '
                'instance the rule ranges over; non-trivial = the obligation required resolving a construct in the '
                'code (call site, path, table entry) rather than a constant; distinct = distinct obligation keys',
        'evaluations': len(obs), 'distinct_nontrivial': distinct,
        'obligations': len(obs), 'discharged': sum(1 for o in obs if o.ok),
        'known_findings_reported': [o.key for o in kf],
        'violations_reported': [o.key for o in viol],
        'stale_known_entries': stale,
        'rules': rules, 'per_rule': {r: {'obligations': sum(1 for o in obs if o.rule == r),
                                         'discharged': sum(1 for o in obs if o.rule == r and o.ok)} for r in rules},
        'samples': samples, 'exhaustive': True,
        'analysed': dict(ctx.analysed, **ctx.repo.stats()),
        'exception_table': ctx.exceptions, 'notes': ctx.notes,
        'checker_cmd': './check %s --tier %s' % (prop, tier),
        'trusted_base': ['CPython ast parser', 'sa/loader.py MRO+import resolution', 'sa/cfg.py CFG construction',
                         'sa/callgraph.py receiver-role typing table', 'exception tables in sa/rules/%s.py' % prop],
        'source_digest': ctx.repo.digest(), 'consulted_modules': sorted(ctx.repo.consulted),
        'not_decided': getattr(mod, 'NOT_DECIDED', ''),
    }
    if st is not None: cov['selftest'] = st
    ev = {'property_id': prop, 'tier': tier, 'seed': seed, 'level': 'other', 'coverage': cov,
          'assumptions': getattr(mod, 'ASSUMPTIONS', ['CPython ast parses the file as the interpreter does',
                                                       'role-named variables have the classes listed in sa/callgraph.py NAME_TYPES']),
          'wall_s': round(wall, 3), 'violations': len(viol)}
    os.makedirs(EVID, exist_ok=True)
    with open(os.path.join(EVID, prop + '.json'), 'w') as f: json.dump(ev, f, indent=1, default=str)


def main(argv=None):
    argv = list(sys.argv[1:] if argv is None else argv)
    if not argv or argv[0] in ('-h', '--help'):
        print('usage: check <Cnn>|all [--tier quick|thorough] [--replay file] [--root dir]'); return 2
    prop = argv[0]
    tier = os.environ.get('VERIF_TIER') or 'quick'
    replay = root = None
    i = 1
    while i < len(argv):
        if argv[i] == '--tier': tier = argv[i + 1]; i += 2
        elif argv[i] == '--replay': replay = argv[i + 1]; i += 2
        elif argv[i] == '--root': root = argv[i + 1]; i += 2
        else: print('unknown argument', argv[i]); return 2
    if tier not in ('quick', 'thorough'): tier = 'quick'
    if prop == 'all':
        worst = 0
        rules_dir = os.path.join(VERIF, 'sa', 'rules')
        for fn in sorted(os.listdir(rules_dir)):
            if fn.startswith('C') and fn.endswith('.py'):
                code, _ = run_property(fn[:-3], tier, None, root)
                worst = max(worst, code)
        return worst
    code, _ = run_property(prop, tier, replay, root)
    return code
